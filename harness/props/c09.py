"""C09 — symmetry-reduced mesh sampling equals full mesh sampling."""

import itertools
from fractions import Fraction

import numpy as np

from .. import common, gen
from ..common import q
from . import c09_util as U

SHIFT_POOL_HALF = [None, (0, 0, 0), (0.5, 0.5, 0.5), (0.5, 0, 0), (0, 0.5, 0), (0, 0, 0.5), (0.5, 0.5, 0), (0, 0.5, 0.5),
                   (0.5, 0, 0.5), (1.5, -0.5, 1.0), (1.0, 0, -1.0)]
SHIFT_POOL_GENERIC = [(0.25, 0, 0), (0, 0.25, 0.125), (0.3, 0.3, 0.3), (1 / 3, 0, 0), (0.1, 0.2, 0.375), (0, 0, 0.75)]


def _b(x):
    return "1" if x else "0"


def _grid_line(op, mesh, shift, gamma, tr, sym, rots):
    sh = "0" if shift is None else "1 " + " ".join(q(float(v)) for v in shift)
    ro = "0" if rots is None else "1 " + U.mats_line(rots)
    return "%s %d %d %d %s %s %s %s %s" % (op, mesh[0], mesh[1], mesh[2], sh, _b(gamma), _b(tr), _b(sym), ro)


def _parse_result(line):
    if not line.startswith("ok "):
        return None
    parts = line[3:].split("|")
    s = [int(t) for t in parts[0].split()]
    tab = [int(t) for t in parts[1].split()]
    ir = [int(t) for t in parts[2].split()]
    w = [int(t) for t in parts[3].split()]
    qq = [Fraction(t) for t in parts[4].split()]
    qp = [qq[3 * k:3 * k + 3] for k in range(len(qq) // 3)]
    return dict(is_shift=s, table=tab, ir=ir, weights=w, qpoints=qp)


def _mod1_close(a, b, tol=1e-11):
    d = np.asarray(a, dtype=float) - np.asarray(b, dtype=float)
    return np.abs(d - np.rint(d)).max() <= tol if d.size else True


def _multiset_mod1(pts, weights=None, dec=9):
    """canonical weighted multiset of points modulo 1"""
    out = {}
    weights = np.ones(len(pts), dtype=int) if weights is None else weights
    for p, w in zip(pts, weights):
        key = tuple(int(v) % 10 ** dec for v in np.rint((np.asarray(p) % 1.0) * 10 ** dec).astype(np.int64))
        out[key] = out.get(key, 0) + int(w)
    return out


def _case_dict(name, pm, mesh, shift, gamma, tr, sym, use_rots, fit):
    return dict(cell=name, pmat=pm, mesh=[int(v) for v in mesh], shift=None if shift is None else [float(v) for v in shift],
                is_gamma_center=bool(gamma), is_time_reversal=bool(tr), is_mesh_symmetry=bool(sym),
                rotations="pointgroup" if use_rots else None, fit_in_BZ=bool(fit))


def main(run):
    rng = run.rng
    common.setup_phonopy("omp")
    from spglib import get_stabilized_reciprocal_mesh

    from phonopy.structure.grid_points import GridPoints, extract_ir_grid_points, length2mesh

    thorough = run.tier == "thorough"
    run.proof_step(leancheck=thorough)
    run.cov["rule"] = (
        "point groups of 25 prototype crystals (all lattice systems, P and primitive-of-centred bases, groups with and "
        "without inversion) from phonopy's Symmetry; meshes 1..4 (quick) / 1..6 (thorough) per axis, half/integer/generic "
        "shifts, Gamma-centre / Monkhorst-Pack, time reversal on/off, mesh symmetry on/off, rotations given or None, "
        "fit_in_BZ on/off. GridPoints vs Lean model: mapping table, ir points, weights exactly, q-points exactly "
        "(fit_in_BZ off) or modulo 1; spglib called directly vs the model's table (also meshes incompatible with the "
        "group). Non-trivial = the reduction merges at least two grid points through a non-identity operation or the "
        "shift is generic.")
    run.cov["trusted_base"] = [
        "Lean 4.33 kernel; Mathlib v4.33; axioms per theorem in coverage.theorems",
        "hand-written model Model/Grid.lean tied to spglib 2.7 + grid_points.py by this correspondence run",
        "spglib get_stabilized_reciprocal_mesh is the implementation side of the mapping table (its output is compared, not trusted)",
        "relocation into the Brillouin zone (fit_in_BZ) only checked to move q-points by reciprocal lattice vectors",
    ]
    run.assumptions += [
        "tolerances 0.01/0.1 of _shift2boolean are modelled exactly; generated shifts keep away from them",
        "sqrt in length2mesh is an input of the model (the products |a*|·length are handed over as exact rationals)",
        "frequencies are invariant under the point group and time reversal (property C03) in the end-to-end runs",
    ]

    groups = U.point_groups()
    keys = sorted(groups)
    for k in keys:
        run.count("group-order %d" % len(groups[k][0]))
    lines, meta = [], []

    # ------------------------------------------------------------ spglib directly vs model table
    nmax = 6 if thorough else 4
    ndirect = 8000 if thorough else 250
    for _ in range(ndirect):
        key = rng.choice(keys)
        rots = groups[key][0]
        mesh = [rng.randint(1, nmax) for _ in range(3)]
        if rng.random() < 0.4:
            mesh = [mesh[0]] * 3
        s = [rng.randint(0, 1) for _ in range(3)]
        tr = rng.random() < 0.5
        if _spglib_fast_path(mesh, s, U.rec_ops(rots, tr)):
            # spglib's fast path applies every operation without the divisibility/parity test; its guard (eq[] flags)
            # looks for +1 axis exchanges only, so a group whose only exchange is a' <-> -b' (C2, Cm in the primitive
            # basis, no time reversal) reaches it with unequal mesh numbers/shifts. phonopy's own guard
            # (_has_mesh_symmetry, |entries|) never hands unequal mesh numbers over; unequal half shifts are covered
            # by the GridPoints stream below. Here: make mesh and shift follow phonopy's guard.
            le = _lattice_equiv(rots)
            for i, (a, b) in enumerate(((1, 2), (2, 0), (0, 1))):
                if le[i]:
                    mesh[b] = mesh[a]
                    s[b] = s[a]
            run.count("spglib-direct: spglib fast path (mesh/shift made to follow phonopy's guard)", section="correspondence")
        tab, adr = get_stabilized_reciprocal_mesh(mesh, rots, is_shift=s, is_time_reversal=tr, is_dense=True)
        lines.append("map %d %d %d %d %d %d %s %s" % (mesh[0], mesh[1], mesh[2], s[0], s[1], s[2], _b(tr), U.mats_line(rots)))
        meta.append(("spglib", dict(group=key, mesh=mesh, is_shift=s, tr=tr), [int(v) for v in tab], np.array(adr)))
        run.count("spglib-direct", section="correspondence")

    # ------------------------------------------------------------ GridPoints vs model + oracle
    ncase = 6000 if thorough else 260
    viol_seen = set()
    # designated region: groups for which spglib's fast-path guard (looks for +1 axis exchanges only) and phonopy's
    # guard (_has_mesh_symmetry, looks at mesh numbers only) both let a half shift on one of two exchanged axes through
    forced = []
    for key in keys:
        rots = groups[key][0]
        le = _lattice_equiv(rots)
        for i, (a, b) in enumerate(((1, 2), (2, 0), (0, 1))):
            if not le[i]:
                continue
            s = [0, 0, 0]
            s[a] = 1
            for tr in (False, True):
                if _spglib_fast_path([2, 2, 2], s, U.rec_ops(rots, tr)):
                    sh = [0.0, 0.0, 0.0]
                    sh[a] = 0.5
                    for _ in range(3 if thorough else 1):
                        m = rng.randint(2, nmax)
                        mesh = [rng.randint(1, 3)] * 3
                        mesh[a] = mesh[b] = m
                        forced.append((key, mesh, tuple(sh), True, tr))
                        sh2 = [0.0, 0.0, 0.0]
                        sh2[b] = 0.5
                        forced.append((key, list(mesh), tuple(sh2), rng.random() < 0.5, tr))
    run.count("designated: half shift on one of two exchanged axes, spglib fast path", len(forced))
    # designated region 2: operations that couple axes without being a -> +-b exchanges (body-centred tetragonal /
    # orthorhombic primitive cells, C-centred and skewed-basis cells) with UNEQUAL mesh numbers, symmetry on
    n0 = len(forced)
    for key in [("bct", "auto"), ("bct", "P"), ("bco", "auto"), ("ortho_C", "auto"), ("mono_C", "auto"), ("ortho_skew", "P"), ("mono_skew", "P")]:
        if key not in groups:
            continue
        rots, plat = groups[key]
        meshes = [(4, 4, 3), (6, 6, 4), (3, 3, 2), (2, 2, 5)]
        meshes.append(tuple(int(v) for v in length2mesh(rng.choice([7.0, 11.0, 14.0, 17.0]), plat, rotations=rots)))
        if thorough:
            meshes += [(3, 4, 4), (5, 2, 2), (2, 4, 2), (4, 3, 3)]
        for msh in meshes:
            forced.append((key, list(msh), rng.choice(SHIFT_POOL_HALF), rng.random() < 0.5, rng.random() < 0.6))
    run.count("designated: axis-coupling operations with unequal mesh numbers", len(forced) - n0)
    for c in range(ncase + len(forced)):
        key = rng.choice(keys)
        mesh = [rng.randint(1, nmax) for _ in range(3)]
        r = rng.random()
        if r < 0.5:
            mesh = [mesh[0]] * 3
        elif r < 0.65:
            mesh[1] = mesh[0]
        gen_shift = rng.random() < 0.22
        shift = rng.choice(SHIFT_POOL_GENERIC) if gen_shift else rng.choice(SHIFT_POOL_HALF)
        gamma = rng.random() < 0.5
        tr = rng.random() < 0.6
        sym = rng.random() < 0.8
        use_rots = rng.random() < 0.9
        fit = rng.random() < 0.3
        if c >= ncase:
            key, mesh, shift, gamma, tr = forced[c - ncase]
            gen_shift, sym, use_rots, fit = False, True, True, False
        name, pm = key
        rots, plat = groups[key]
        reclat = np.linalg.inv(plat)  # columns a*, b*, c*
        cd = _case_dict(name, pm, mesh, shift, gamma, tr, sym, use_rots, fit)
        gp = GridPoints(mesh, reclat, q_mesh_shift=None if shift is None else np.array(shift, dtype=float),
                        is_gamma_center=gamma, is_time_reversal=tr, fit_in_BZ=fit,
                        rotations=rots if use_rots else None, is_mesh_symmetry=sym)
        N = int(np.prod(mesh))
        tab = np.array(gp.grid_mapping_table)
        lines.append(_grid_line("grid", mesh, shift, gamma, tr, sym, rots if use_rots else None))
        meta.append(("grid", cd, gp, None))
        lines.append(_grid_line("gridfix", mesh, shift, gamma, tr, sym, rots if use_rots else None))
        meta.append(("gridfix", cd, gp, None))
        merged = bool((tab != np.arange(N)).any())
        run.case(("grid", key, tuple(mesh), shift, gamma, tr, sym, use_rots, fit), nontrivial=(merged and sym and use_rots) or gen_shift)
        run.count("shift generic" if gen_shift else ("shift none" if shift is None else "shift half/int"))
        run.count("gamma" if gamma else "monkhorst-pack")
        run.count("tr on" if tr else "tr off")
        run.count("lattice %s" % name)
        if c < 3:
            run.sample(dict(cd, n_ir=int(len(gp.weights)), n_grid=N))

        # ---- oracle on the implementation: the statement of the property
        ops = U.rec_ops(rots if use_rots else [np.eye(3, dtype=int)], tr)
        w = np.array(gp.weights)
        qir = np.array(gp.qpoints)
        site = "GridPoints.__init__"
        expected, generic = U.expected_full_qpoints(mesh, shift, gamma)

        def klass(base):
            if not generic and use_rots and sym:
                le = _lattice_equiv(rots)
                sh_ = _public_is_shift(gp)
                if any(le[i] and sh_[a] != sh_[b] for i, (a, b) in enumerate(((1, 2), (2, 0), (0, 1)))):
                    return "half-shift-unequal-on-equivalent-axes"
            if generic:
                if tr and w.max() > 1:
                    return "generic-shift-time-reversal"
                if gamma and any(m % 2 == 0 for m in mesh):
                    return "generic-shift-gamma-center"
                return "generic-shift-" + base
            return base

        def report(base, what):
            k = klass(base)
            nk = sum(1 for v in viol_seen if v[0] == k)
            if nk >= 3:  # keep the replay file readable: at most three inputs per class
                return
            viol_seen.add((k, c))
            run.violation(site, k, what, cd)

        if int(w.sum()) != N:
            report("weights-sum", "weights sum to %d, number of grid points is %d" % (int(w.sum()), N))
        # (i) every grid point is the image of its representative (only meaningful without generic shift: there
        #     the table refers to the unshifted base mesh)
        if not generic:
            s_int = np.array(_public_is_shift(gp), dtype=float)
            qall = (np.array(gp.grid_address, dtype=float) + s_int * 0.5) / np.array(mesh, dtype=float)
            okimg = True
            for g in range(N):
                rep = tab[g]
                if rep == g:
                    continue
                if not any(_mod1_close(R @ qall[rep], qall[g], 1e-9) for R in ops):
                    okimg = False
                    break
            if not okimg:
                report("not-an-image", "grid point %d is mapped to %d but is not its image under any operation" % (g, int(rep)))
        # (ii) weighted sum of an invariant periodic function == brute-force full mesh
        f = U.TestFunction(rng, ops)
        inv_err = f.check_invariance(rng)
        run.count("test-function-invariance-checked", section="oracle")
        if inv_err > 1e-9:
            raise RuntimeError("harness: test function not invariant (%g)" % inv_err)
        red = float(np.dot(w, f(qir)))
        full = float(f(expected).sum())
        scale = max(1.0, float(np.abs(f(expected)).sum()))
        if abs(red - full) > 1e-9 * scale:
            report("reduced-ne-full", "weighted sum over irreducible points %.10g differs from the full-mesh sum %.10g" % (red, full))
        # (iii) the sampled set itself on the generic-shift path: the weighted q-points are the promised mesh
        if generic:
            got = _multiset_mod1(qir, w)
            exp = _multiset_mod1(expected)
            if got != exp:
                report("wrong-mesh", "q-points of the generic-shift mesh are not {(g + s/2 + shift)/mesh}: %d of %d points differ"
                       % (sum(1 for k in exp if got.get(k) != exp[k]), N))
        # (iv) relocated q-points (fit_in_BZ: spglib relocate_BZ_grid_address; generic shift: _fit_qpoints_in_BZ) are shortest translates
        if fit or generic:
            tolb = float((reclat ** 2).sum(axis=0).min()) * 0.011
            G5 = np.array(list(itertools.product(range(-2, 3), repeat=3)), dtype=float)
            for p0 in qir:
                best = float((((p0[None, :] + G5) @ reclat.T) ** 2).sum(axis=1).min())
                if float(((reclat @ p0) ** 2).sum()) > best * (1 + 1e-9) + tolb:
                    report("not-in-first-BZ", "q-point %s is not a shortest lattice translate (fit_in_BZ=%s)" % (p0.tolist(), fit))
                    break
        run.count("oracle-grid", section="oracle")

    # ------------------------------------------------------------ length2mesh + extract_ir + shift2boolean
    nl2m = 600 if thorough else 60
    for _ in range(nl2m):
        key = rng.choice(keys)
        rots, plat = groups[key]
        length = rng.choice([rng.uniform(1, 40), rng.randint(1, 30) * 1.0])
        with_rots = rng.random() < 0.7
        got = length2mesh(length, plat, rotations=rots if with_rots else None)
        rec_lat = np.linalg.inv(plat)
        from phonopy.structure.cells import get_cell_parameters

        prod = get_cell_parameters(rec_lat.T) * length
        if np.abs(prod - np.floor(prod) - 0.5).min() < 1e-6:
            continue
        lines.append("l2m %s %s" % (" ".join(q(float(v)) for v in prod), "1 " + U.mats_line(rots) if with_rots else "0"))
        meta.append(("l2m", dict(group=key, length=length, with_rots=with_rots), [int(v) for v in got], None))
        run.count("length2mesh", section="correspondence")
        # hypothesis of length2mesh_mono / _symmetric, on the implementation's own flags: transitive
        le = _lattice_equiv(rots)
        if (le[0] and le[1] and not le[2]) or (le[1] and le[2] and not le[0]) or (le[0] and le[2] and not le[1]):
            run.broke("hypothesis", "lattice-vector equivalence flags of a point group are not transitive", dict(group=key))
        run.count("hypothesis-flags-transitive", section="oracle")
        # oracle: >= 1, monotone in the length
        length2 = length + rng.choice([0.0, rng.uniform(0, 10)])
        got2 = length2mesh(length2, plat, rotations=rots if with_rots else None)
        if min(got) < 1 or any(a > b for a, b in zip(got, got2)):
            run.violation("length2mesh", "not-monotone", "length %.6g -> %s, length %.6g -> %s" % (length, list(got), length2, list(got2)),
                          dict(cell=key[0], pmat=key[1], length=length, length2=length2, with_rotations=with_rots))
        run.count("oracle-length2mesh", section="oracle")
        # oracle: symmetric mesh numbers where the lattice vectors are equivalent
        if with_rots:
            # (public ingredients only: the equivalence flags of the rotations and the mesh numbers)
            lev = _lattice_equiv(rots)
            if any(lev[i] and got[a] != got[b] for i, (a, b) in enumerate(((1, 2), (2, 0), (0, 1)))):
                run.violation("length2mesh", "mesh-not-symmetric", "length-specified mesh %s lacks the symmetry of the lattice" % list(got),
                              dict(cell=key[0], pmat=key[1], length=length))
    for _ in range(40 if thorough else 15):
        n = rng.randint(1, 30)
        t = [0] * n
        for i in range(n):
            t[i] = rng.choice([i, t[rng.randint(0, i)]]) if i else 0
        ir, w = extract_ir_grid_points(np.array(t, dtype="int64"))
        lines.append("extract %d %s" % (n, " ".join(map(str, t))))
        meta.append(("extract", dict(table=t), ([int(v) for v in ir], [int(v) for v in w]), None))
        run.count("extract_ir", section="correspondence")

    # ------------------------------------------------------------ relocation into the Brillouin zone
    from phonopy.structure.brillouin_zone import get_qpoints_in_Brillouin_zone

    bzdata = {}
    for key in keys:
        reclat = np.linalg.inv(groups[key][1])
        T, okT = U.bz_setup(reclat)
        bzdata[key] = (reclat, T)
        run.count("bz-unimodular-certificates", section="correspondence")
        if not okT:
            run.broke("correspondence", "BrillouinZone: inv(reciprocal lattice)·reduced basis is not a unimodular integer matrix", dict(group=key))
    for key in (keys if thorough else rng.sample(keys, 12)):
        reclat, T = bzdata[key]
        nq = 60 if thorough else 16
        qs = [[rng.randint(-36, 36) / 24.0 for _ in range(3)] for _ in range(nq)]
        qs += [[0.5, 0, 0], [0.5, 0.5, 0], [0.5, 0.5, 0.5], [1 / 3, 1 / 3, 0], [0.25, 0.75, 0.5], [rng.random() * 3 - 1.5 for _ in range(3)]]
        m = rng.randint(2, 5)
        qs += [[(rng.randint(0, m - 1) + rng.choice([0, 0.5])) / m for _ in range(3)] for _ in range(6)]
        qs = np.array(qs, dtype=float)
        pts = get_qpoints_in_Brillouin_zone(reclat, qs)
        lines.append(U.bz_line(reclat, T, qs))
        meta.append(("bz", dict(group=key), (reclat, qs, pts), None))
        run.case(("bz", key, qs.tobytes()), nontrivial=True)
        # oracle on the implementation: lattice translate, and not longer than any of the 125 neighbours + tolerance
        tol = float((reclat ** 2).sum(axis=0).min()) * 0.01
        G = np.array(list(itertools.product(range(-2, 3), repeat=3)), dtype=float)
        for q0, pset in zip(qs, pts):
            p0 = np.asarray(pset[0])
            dq = p0 - q0
            best = float((((q0[None, :] + G) @ reclat.T) ** 2).sum(axis=1).min())
            if np.abs(dq - np.rint(dq)).max() > 1e-9 or float(((reclat @ p0) ** 2).sum()) > best + tol * (1 + 1e-9) + 1e-12:
                run.violation("get_qpoints_in_Brillouin_zone", "not-shortest-translate",
                              "relocated q-point %s of %s is not a shortest lattice translate" % (p0.tolist(), q0.tolist()),
                              dict(cell=key[0], pmat=key[1], qpoint=q0.tolist()))
            run.count("oracle-bz", section="oracle")

    # ------------------------------------------------------------ end-to-end through the Phonopy API
    _end_to_end(run, rng, thorough, lines, meta)
    _large_mesh(run, rng, thorough)
    _relabelled(run, rng, thorough)
    _no_symmetry(run, rng, thorough)

    # ------------------------------------------------------------ compare with the model
    out = common.lean_run_driver("C09", lines)
    if len(out) != len(lines):
        run.broke("correspondence", "driver answered %d lines for %d requests" % (len(out), len(lines)))
        return
    ncmp = 0
    pinned_generic = fixed_generic = 0
    second = []  # generic-shift GridPoints cases: relocation of the model's q-points, compared exactly in a second pass
    bz_exact = bz_tie = 0
    k = 0
    while k < len(lines):
        kind, info, impl, extra = meta[k]
        line = out[k]
        if kind == "spglib":
            ncmp += 1
            m = _parse_result(line)
            if m is None or m["table"] != impl:
                run.broke("correspondence", "spglib mapping table differs from the model", dict(info=info, spglib=impl, model=line[:300]))
            else:
                msh = np.array(info["mesh"])
                a = np.array([[(i % msh[0]), (i // msh[0]) % msh[1], i // (msh[0] * msh[1])] for i in range(len(impl))])
                a = a - msh * (a > msh // 2)
                if not (a == extra).all():
                    run.broke("correspondence", "spglib grid addresses differ from the model order", info)
            k += 1
        elif kind == "grid":
            ncmp += 1
            gp = impl
            res = [_parse_result(out[k]), _parse_result(out[k + 1])]
            ok = [_same_grid(gp, r, info) for r in res]
            generic = U.expected_full_qpoints(info["mesh"], info["shift"], info["is_gamma_center"])[1]
            if generic:
                if ok[0][0]:
                    pinned_generic += 1
                if ok[1][0]:
                    fixed_generic += 1
            if not (ok[0][0] or ok[1][0]):
                run.broke("correspondence", "GridPoints differs from the model (%s)" % ok[0][1], dict(info=info, model=out[k][:400]))
            elif generic:
                second.append((info, gp, res[0] if ok[0][0] else res[1]))
            k += 2
        elif kind == "bz":
            ncmp += 1
            reclat, qs, pts = impl
            ms = U.bz_parse(line)
            if len(ms) != len(qs):
                run.broke("correspondence", "bz model answered %d points for %d" % (len(ms), len(qs)), info)
            else:
                for q0, pset, m in zip(qs, pts, ms):
                    verdict = U.bz_compare(reclat, q0, pset, m)
                    if verdict == "":
                        bz_exact += 1
                    elif verdict == "tie":
                        bz_tie += 1
                    else:
                        run.broke("correspondence", "get_qpoints_in_Brillouin_zone: " + verdict, dict(info, qpoint=q0.tolist()))
            k += 1
        elif kind == "l2m":
            ncmp += 1
            if [int(t) for t in line.split()] != impl:
                run.broke("correspondence", "length2mesh %s, model %s" % (impl, line), info)
            k += 1
        elif kind == "moment":
            ncmp += 1
            run.count("moment", section="correspondence")
            if line in ("bad-op", "empty-window"):
                run.broke("correspondence", "moment model: %s" % line, info)
            else:
                mv = float(Fraction(line))
                if abs(mv - impl) > 1e-9 * max(1.0, abs(mv)):
                    run.broke("correspondence", "PhononMoment order %d: implementation %.12g, model %.12g" % (info["order"], impl, mv), info)
            k += 1
        elif kind == "extract":
            ncmp += 1
            parts = line.split("|")
            if line == "none" or [int(t) for t in parts[0].split()] != impl[0] or [int(t) for t in parts[1].split()] != impl[1]:
                run.broke("correspondence", "extract_ir_grid_points %s, model %s" % (impl, line), info)
            k += 1
        else:
            k += 1
    # second pass: GridPoints on the generic-shift path relocates its q-points (_fit_qpoints_in_BZ): exact comparison
    if second:
        lines2 = []
        for info, gp, m in second:
            reclat, T = bzdata[(info["cell"], info["pmat"])]
            lines2.append(U.bz_line(reclat, T, [[float(v) for v in p] for p in m["qpoints"]]))
        out2 = common.lean_run_driver("C09", lines2)
        for (info, gp, m), line in zip(second, out2):
            reclat, T = bzdata[(info["cell"], info["pmat"])]
            ms = U.bz_parse(line)
            for q0, p, mm in zip(m["qpoints"], np.array(gp.qpoints), ms):
                verdict = U.bz_compare(reclat, [float(v) for v in q0], [p], dict(mm, nshort=1) if mm else None)
                if verdict == "":
                    bz_exact += 1
                elif verdict == "tie":
                    bz_tie += 1
                else:
                    run.broke("correspondence", "GridPoints._fit_qpoints_in_BZ: " + verdict, info)
            ncmp += 1
        run.cov["correspondence"]["generic-shift GridPoints cases with exactly compared relocated q-points"] = len(second)
    run.cov["correspondence"]["relocated q-points equal to the model's"] = bz_exact
    run.cov["correspondence"]["relocated q-points differing by an exact tie (np.rint of a half integer / tolerance threshold)"] = bz_tie
    if bz_tie > 0.1 * max(1, bz_exact):
        run.broke("correspondence", "too many relocated q-points differ from the model by 'ties' (%d of %d)" % (bz_tie, bz_exact + bz_tie))
    run.cov["correspondence"]["compared"] = ncmp
    run.cov["correspondence"]["generic-shift cases matching the pinned-code model"] = pinned_generic
    run.cov["correspondence"]["generic-shift cases matching the repaired-code model"] = fixed_generic
    if pinned_generic and fixed_generic and pinned_generic != fixed_generic:
        # both may match on cases where they coincide (no time reversal, odd meshes); a tree matching neither everywhere is reported above
        pass


def _spglib_fast_path(mesh, s, ops):
    """spglib kpoint.c check_mesh_symmetry (decides between the untested fast path and the distortion path)"""
    for o in ops:
        if np.abs(o).sum() > 3:
            return False
    eq = [False, False, False]
    for o in ops:
        if o[0][0] == 0 and o[1][0] == 1 and o[2][0] == 0:
            eq[0] = True
        if o[0][0] == 0 and o[1][0] == 0 and o[2][0] == 1:
            eq[2] = True
        if o[0][1] == 0 and o[1][1] == 0 and o[2][1] == 1:
            eq[1] = True
    return ((not eq[0] or (mesh[0] == mesh[1] and s[0] == s[1])) and (not eq[1] or (mesh[1] == mesh[2] and s[1] == s[2]))
            and (not eq[2] or (mesh[2] == mesh[0] and s[2] == s[0])))


def _lattice_equiv(rots):
    from phonopy.structure.symmetry import get_lattice_vector_equivalence

    return get_lattice_vector_equivalence([np.array(r).T for r in rots])


def _public_is_shift(gp):
    """half-shift flags from public attributes only: q_ir = (grid_address[ir] + s/2) / mesh"""
    q0 = np.array(gp.qpoints[0], dtype=float)
    a0 = np.array(gp.grid_address[gp.ir_grid_points[0]], dtype=float)
    return [int(v) for v in np.rint(2 * (q0 * np.array(gp.mesh_numbers, dtype=float) - a0)).astype(int) % 2]


def _same_grid(gp, m, info):
    if m is None:
        return False, "model returned an error"
    generic_ = U.expected_full_qpoints(info["mesh"], info["shift"], info["is_gamma_center"])[1]
    if not generic_ and _public_is_shift(gp) != m["is_shift"]:
        return False, "is_shift %s vs %s" % (_public_is_shift(gp), m["is_shift"])
    if [int(v) for v in gp.grid_mapping_table] != m["table"]:
        return False, "mapping table"
    if [int(v) for v in gp.ir_grid_points] != m["ir"]:
        return False, "ir grid points"
    if [int(v) for v in gp.weights] != m["weights"]:
        return False, "weights"
    qi = np.array(gp.qpoints, dtype=float)
    qm = np.array([[float(v) for v in p] for p in m["qpoints"]])
    if qi.shape != qm.shape:
        return False, "number of q-points"
    generic = U.expected_full_qpoints(info["mesh"], info["shift"], info["is_gamma_center"])[1]
    if info["fit_in_BZ"] or generic:
        if not _mod1_close(qi, qm, 1e-12):
            return False, "q-points modulo reciprocal lattice vectors"
    else:
        if not (qi == qm).all():
            return False, "q-points (exact)"
    return True, ""


def _no_symmetry(run, rng, thorough):
    """`Phonopy(is_symmetry=False)` with force constants that BREAK the point symmetry of the structure (legitimate: that is
    what is_symmetry=False is for): the default mesh symmetry may then only use what the dynamical matrix really has (time
    reversal) - sampling with is_mesh_symmetry on and off must agree for every kind of mesh."""
    names = ["cscl", "nacl_prim", "hcp", "bct", "zincblende_prim", "rhombo"]
    for _ in range(4 if thorough else 2):
        name = rng.choice(names)
        cell, cen = U.make_cell(name)
        S = np.diag([2, 2, 2])
        ph = gen.make_phonopy(cell, S, pmat="P", is_symmetry=False)
        fc0 = gen.pair_fc(ph.supercell, min(0.9 * gen.min_lattice_vector(ph.supercell.cell), 5.0))
        # congruence with a generic matrix: keeps Phi_ij = Phi_ji^T, the sum rules and positive semi-definiteness, but not
        # the invariance under the crystal's rotations
        A = np.eye(3) + np.array([[rng.randint(-3, 3) / 16.0 for _ in range(3)] for _ in range(3)]) + np.diag([0.0, 0.2, -0.15])
        ph.force_constants = np.einsum("ab,ijbc,dc->ijad", A, fc0, A)
        variants = [([rng.randint(2, 4)] * 3, None, False), ([rng.randint(2, 4)] * 3, None, True), ([rng.randint(2, 3) * 2] * 3, (0.5, 0.5, 0.5), True),
                    (float(rng.choice([7.0, 9.0, 12.0])), None, False)]
        for mesh, shift, gamma in (variants if thorough else rng.sample(variants, 3)):
            res = {}
            for sym in (True, False):
                ph.run_mesh(mesh, shift=shift, is_mesh_symmetry=sym, is_gamma_center=gamma)
                md = ph.get_mesh_dict()
                ph.run_thermal_properties(t_min=0, t_max=600, t_step=300, cutoff_frequency=0.05)
                tp = ph.get_thermal_properties_dict()
                ph.run_total_dos(sigma=0.15, freq_min=0.0, freq_max=8.0, freq_pitch=0.25)
                res[sym] = (np.array([tp["free_energy"], tp["entropy"], tp["heat_capacity"]]), np.array(ph.get_total_dos_dict()["total_dos"]),
                            int(np.sum(md["weights"])), len(md["weights"]))
            a, b = res[True], res[False]
            rel = max(float(np.abs(a[0] - b[0]).max() / max(1.0, np.abs(b[0]).max())), float(np.abs(a[1] - b[1]).max() / max(1.0, np.abs(b[1]).max())))
            cd = dict(cell=name, is_symmetry=False, mesh=mesh, shift=None if shift is None else list(shift), is_gamma_center=gamma,
                      force_constants="gen.pair_fc transformed by Phi_ij -> A Phi_ij A^T", A=A.tolist())
            run.count("oracle-is_symmetry-false", section="oracle")
            run.case(("nosym", name, str(mesh), shift, gamma, A.tobytes()), nontrivial=True)
            if a[2] != b[2] or rel > 1e-8:
                run.violation("Phonopy.run_mesh", "mesh-symmetry-on-ne-off-is_symmetry-false",
                              "Phonopy(is_symmetry=False), symmetry-breaking force constants: thermal properties / smearing DOS with is_mesh_symmetry on (%d q-points) "
                              "and off (%d) differ by rel. %.3g" % (a[3], b[3], rel), cd)


def _relabelled(run, rng, thorough):
    """DESCRIPTION INVARIANCE: the same crystal with relabelled lattice vectors (swap / negation / inversion: left-handed;
    shear: non-reduced; cyclic). The property's oracle runs ON the relabelled description (reduced = full sampling, sum of
    weights), and mesh averages on the same Gamma-centred grid are compared between the descriptions."""
    kinds_neg = ["swap12", "negate3", "invert"]
    kinds = [rng.choice(kinds_neg), rng.choice(["shear", "cyclic"])]
    if thorough:
        kinds = list(gen.UNIMODULAR)
    elif rng.random() < 0.5:
        kinds.append(rng.choice(list(gen.UNIMODULAR)))
    # mostly non-orthogonal bases with a non-trivial point group: there a wrong convention (R vs R^T, handedness) shows
    names = ["hcp", "rhombo", "nacl_prim", "zincblende_prim", "hcp", "rhombo", "mono_P", "bct", "cscl", "wurtzite"]
    for kind in kinds:
        name = rng.choice(names)
        cell, cen = U.make_cell(name)
        M = np.array(gen.UNIMODULAR[kind], dtype=int)
        cell2, qmap, smap = gen.relabelled_cell(cell, M)
        S = np.diag([2, 2, 2]) if len(cell) <= 2 else np.diag([2, 2, 1])
        if kind == "shear":
            m0 = rng.choice([3, 4, 5])
            mesh = [m0, m0, rng.randint(2, 5)]          # the sheared axes need equal mesh numbers to span the same grid
        else:
            mesh = [rng.randint(2, 5) for _ in range(3)]
        mesh2 = [int(v) for v in np.abs(M) @ np.array(mesh)] if kind != "shear" else list(mesh)
        order = rng.choice([1, 2, 3])
        res = {}
        for tag, c_, S_, mesh_ in (("original", cell, S, mesh), (kind, cell2, smap(S), mesh2)):
            ph = gen.make_phonopy(c_, S_, pmat="P")
            ph.force_constants = gen.pair_fc(ph.supercell, min(0.9 * gen.min_lattice_vector(ph.supercell.cell), 5.0))
            per = {}
            for sym in (True, False):
                ph.run_mesh(mesh_, is_mesh_symmetry=sym, is_gamma_center=True)
                md = ph.get_mesh_dict()
                w = np.array(md["weights"])
                ph.run_thermal_properties(t_min=0, t_max=600, t_step=300, cutoff_frequency=0.05)
                tp = ph.get_thermal_properties_dict()
                ph.run_moment(order=order, freq_min=0.05)
                per[sym] = (np.array([tp["free_energy"], tp["entropy"], tp["heat_capacity"]]), float(ph.get_moment()), int(w.sum()), len(w))
            info = dict(cell=name, description=tag, M=M.tolist() if tag != "original" else None, volume=float(c_.volume), supercell_matrix=np.array(S_).tolist(),
                        mesh=list(mesh_), is_gamma_center=True, force_constants="gen.pair_fc")
            a, b = per[True], per[False]
            rel = max(float(np.abs(a[0] - b[0]).max() / max(1.0, np.abs(b[0]).max())), abs(a[1] - b[1]) / max(1.0, abs(b[1])))
            run.count("oracle-relabelled-on-off", section="oracle")
            if a[2] != int(np.prod(mesh_)) or b[2] != int(np.prod(mesh_)) or rel > 1e-8:
                run.violation("Phonopy.run_mesh", "mesh-symmetry-on-ne-off" + ("-left-handed" if c_.volume < 0 else ("-relabelled" if tag != "original" else "")),
                              "on the %s description: weights sum %d/%d (N = %d), thermal properties / moment on vs off differ by rel. %.3g"
                              % (tag, a[2], b[2], int(np.prod(mesh_)), rel), info)
            res[tag] = per
        o, r = res["original"], res[kind]
        run.case(("relabel", name, kind, tuple(mesh)), nontrivial=True)
        run.count("relabelled description: %s" % kind)
        info = dict(cell=name, M=M.tolist(), kind=kind, mesh=list(mesh), mesh_relabelled=list(mesh2), supercell_matrix=S.tolist(), force_constants="gen.pair_fc")
        for sym in (True, False):
            rel = max(float(np.abs(o[sym][0] - r[sym][0]).max() / max(1.0, np.abs(o[sym][0]).max())), abs(o[sym][1] - r[sym][1]) / max(1.0, abs(o[sym][1])))
            run.count("oracle-relabelled-vs-original", section="oracle")
            if rel > 1e-8:
                run.violation("Phonopy.run_mesh", "mesh-average-depends-on-description" + ("-left-handed" if int(round(np.linalg.det(M))) < 0 else ""),
                              "thermal properties / moment on the same Gamma-centred grid differ between the original and the %s description by rel. %.3g (is_mesh_symmetry=%s)"
                              % (kind, rel, sym), info)
        if kind != "shear":
            if o[True][3] != r[True][3]:
                run.violation("Phonopy.run_mesh", "ir-count-depends-on-description", "number of irreducible q-points %d vs %d for the %s description (same point group, same grid)"
                              % (o[True][3], r[True][3], kind), info)
        elif o[True][3] != r[True][3]:
            run.count("observed: ir-point count differs between original and sheared description")


def _large_mesh(run, rng, thorough):
    """SIZE: dense meshes with 1500-4000 irreducible q-points on low-symmetry 1-3 atom cells: thermal properties (compiled
    path) and moments with mesh symmetry on vs off, and vs the weighted formula evaluated in numpy on the ir points' own
    frequencies."""
    from phonopy.units import EvTokJmol, Kb, THzToEv

    plans = [("triclinic", lambda: [rng.randint(13, 16) for _ in range(3)]), ("mono_P", lambda: [rng.randint(17, 21)] * 3),
             ("rhombo", lambda: [rng.randint(25, 28)] * 3), ("mono_C", lambda: [rng.randint(17, 20)] * 3)]
    chosen = plans if thorough else [plans[0], rng.choice(plans[1:])]
    for name, mk in chosen:
        cell, cen = U.make_cell(name)
        ph = gen.make_phonopy(cell, np.diag([2, 2, 2]), pmat="auto" if cen != "P" else "P")
        ph.force_constants = gen.pair_fc(ph.supercell, min(0.9 * gen.min_lattice_vector(ph.supercell.cell), 5.0))
        mesh = mk()
        gamma = rng.random() < 0.5
        temps = dict(t_min=0, t_max=900, t_step=300, cutoff_frequency=0.05)
        order = rng.choice([1, 2, 3])
        res = {}
        for sym in (True, False):
            ph.run_mesh(mesh, is_mesh_symmetry=sym, is_gamma_center=gamma)
            md = ph.get_mesh_dict()
            fr, w = np.array(md["frequencies"]), np.array(md["weights"], dtype=float)
            ph.run_thermal_properties(**temps)
            tp = ph.get_thermal_properties_dict()
            got = np.array([tp["free_energy"], tp["entropy"], tp["heat_capacity"]])
            # the definition in numpy on the very frequencies/weights of this mesh
            T = np.array(tp["temperatures"], dtype=float)
            e = np.where(fr > 0.05, fr, np.nan) * THzToEv
            ref = np.zeros((3, len(T)))
            for it, t in enumerate(T):
                if t > 0:
                    x = e / (Kb * t)
                    f_ = Kb * t * np.log1p(-np.exp(-x)) + e / 2
                    s_ = x / np.expm1(x) - np.log1p(-np.exp(-x))
                    c_ = x * x * np.exp(-x) / (1 - np.exp(-x)) ** 2
                else:
                    f_, s_, c_ = e / 2, np.zeros_like(e), np.zeros_like(e)
                wn = w[:, None] / w.sum()
                ref[0, it] = np.nansum(wn * f_) * EvTokJmol
                ref[1, it] = np.nansum(wn * s_) * Kb * EvTokJmol * 1000
                ref[2, it] = np.nansum(wn * c_) * Kb * EvTokJmol * 1000
            ph.run_moment(order=order)
            res[sym] = (got, ref, float(ph.get_moment()), len(w), int(w.sum()))
            cd = dict(cell=name, mesh=mesh, is_gamma_center=gamma, is_mesh_symmetry=sym, n_irreducible=len(w), force_constants="gen.pair_fc, 2x2x2")
            rel = float(np.abs(got - ref).max() / max(1.0, np.abs(ref).max()))
            run.count("oracle-large-mesh-thermal-vs-definition", section="oracle")
            if rel > 1e-8:
                run.violation("Phonopy.run_thermal_properties", "thermal-properties-ne-weighted-formula" + ("-weighted" if w.max() > 1 else ""),
                              "thermal properties differ from sum_q w_q f(nu_q)/sum_q w_q on the mesh's own frequencies by rel. %.3g (%d irreducible q-points)" % (rel, len(w)), cd)
        a, b = res[True], res[False]
        run.case(("large", name, tuple(mesh), gamma), nontrivial=a[3] > 1024)
        run.count("large meshes: irreducible points %d" % (1000 * (a[3] // 1000)))
        rel = max(float(np.abs(a[0] - b[0]).max() / max(1.0, np.abs(b[0]).max())), abs(a[2] - b[2]) / max(1.0, abs(b[2])))
        run.count("oracle-large-mesh-on-off", section="oracle")
        if a[4] != b[4] or rel > 1e-8:
            run.violation("Phonopy.run_mesh", "mesh-symmetry-on-ne-off-large-mesh",
                          "thermal properties / moment differ between is_mesh_symmetry on (%d irreducible points) and off (%d points) by rel. %.3g" % (a[3], b[3], rel),
                          dict(cell=name, mesh=mesh, is_gamma_center=gamma, force_constants="gen.pair_fc, 2x2x2"))


def _end_to_end(run, rng, thorough, lines, meta):
    """Phonopy.run_mesh + thermal properties + smearing DOS with mesh symmetry on/off; init_mesh with IterMesh."""
    ncell = 24 if thorough else 4
    names = ["cscl", "nacl_prim", "zincblende_prim", "hcp", "bct", "rhombo", "mono_P", "triclinic", "wurtzite", "mono_Cm", "trig_P3"]
    done = 0
    tries = 0
    while done < ncell and tries < 40:
        tries += 1
        name = rng.choice(names)
        cell, cen = U.make_cell(name)
        if len(cell) > 4 and not thorough:
            continue
        smat = np.diag([2, 2, 2]) if len(cell) <= 2 else np.diag([2, 2, 1])
        ph = gen.make_phonopy(cell, smat, pmat="auto" if cen != "P" else "P")
        ph.force_constants = gen.pair_fc(ph.supercell, min(0.9 * gen.min_lattice_vector(ph.supercell.cell), 5.0))
        done += 1
        run.count("e2e %s" % name)
        # one designated variant on the generic-shift path with time reversal (no symmetry relates q+d and -q+d for this shift)
        variants = [([rng.randint(2, 4)] * 3, (0.1, 0.2, 0.375), rng.random() < 0.5, True)]
        for _ in range(6 if thorough else 2):
            mesh = [rng.randint(2, 4)] * 3 if rng.random() < 0.7 else [rng.randint(1, 4) for _ in range(3)]
            shift = rng.choice([None, (0.5, 0.5, 0.5), (0.5, 0, 0), (0, 0, 0.5)] + SHIFT_POOL_GENERIC[:3])
            variants.append((mesh, shift, rng.random() < 0.5, rng.random() < 0.7))
        for mesh, shift, gamma, tr in variants:
            res = {}
            for sym in (True, False):
                ph.run_mesh(mesh, shift=shift, is_time_reversal=tr, is_mesh_symmetry=sym, is_gamma_center=gamma)
                md = ph.get_mesh_dict()
                fmax = float(md["frequencies"].max())
                ph.run_thermal_properties(t_min=0, t_max=600, t_step=200, cutoff_frequency=0.05)
                tp = ph.get_thermal_properties_dict()
                ph.run_total_dos(sigma=0.15, freq_min=0.0, freq_max=6.0, freq_pitch=0.25)
                dd = ph.get_total_dos_dict()
                w = md["weights"]
                mom2 = float(np.dot(w, (md["frequencies"] ** 2).sum(axis=1)) / w.sum())
                # phonon state moments through the API (orders 0..3, whole spectrum and a frequency window)
                if sym:
                    window = (0.37 * fmax, 0.81 * fmax)
                    fr_all = np.array(md["frequencies"])
                    if not ((window[0] < fr_all) & (fr_all < window[1])).any():
                        # an empty frequency window is not a well-formed request (run_moment divides by the
                        # number of modes in the window): widen it to the whole positive spectrum
                        window = (1e-6, 1.01 * fmax)
                moms = []
                for order in (0, 1, 2, 3):
                    for win in (None, window):
                        kw = {} if win is None else dict(freq_min=win[0], freq_max=win[1])
                        ph.run_moment(order=order, **kw)
                        got = float(ph.get_moment())
                        moms.append(got)
                        # the definition, evaluated independently on the mesh that was used
                        fr = np.array(md["frequencies"])
                        lo = 1e-8 if win is None else win[0] - 1e-8
                        hi = fr.max() + 1e-8 if win is None else win[1] + 1e-8
                        sel = (lo < fr) & (fr < hi)
                        ref = float((w[:, None] * np.where(sel, fr, 0.0) ** order * sel).sum() / (w[:, None] * sel).sum())
                        run.count("oracle-moment", section="oracle")
                        if abs(got - ref) > 1e-9 * max(1.0, abs(ref)):
                            run.violation("Phonopy.run_moment", "moment-ne-definition" + ("-weighted" if w.max() > 1 else ""),
                                          "moment of order %d is %.12g, sum_q w sum_band nu^k / sum_q w sum_band 1 = %.12g" % (order, got, ref),
                                          dict(cell=name, mesh=mesh, shift=None if shift is None else list(shift), is_gamma_center=gamma,
                                               is_time_reversal=tr, is_mesh_symmetry=sym, order=order, window=win))
                        if sym and order in (1, 2, 3) and len(lines) < 100000 and (mesh, shift) == (variants[0][0], variants[0][1]):
                            lines.append("moment %d %d %d %s %s %s %s" % (order, fr.shape[0], fr.shape[1], q(float(lo)), q(float(hi)),
                                                                         " ".join(str(int(x)) for x in w), " ".join(q(float(x)) for x in fr.ravel())))
                            meta.append(("moment", dict(cell=name, mesh=mesh, order=order, window=win), got, None))
                res[sym] = (np.array([tp["free_energy"], tp["entropy"], tp["heat_capacity"]]), np.array(dd["total_dos"]), mom2, int(w.sum()), fmax,
                            np.array(moms))
            cd = dict(cell=name, supercell=np.diag(smat).tolist(), mesh=mesh, shift=None if shift is None else list(shift),
                      is_gamma_center=gamma, is_time_reversal=tr, force_constants="gen.pair_fc")
            generic = U.expected_full_qpoints(mesh, shift, gamma)[1]
            a, b = res[True], res[False]
            worst = 0.0
            for x, y in ((a[0], b[0]), (a[1], b[1]), (np.array(a[2]), np.array(b[2])), (a[5], b[5])):
                worst = max(worst, float(np.abs(x - y).max() / max(1.0, np.abs(y).max())))
            run.count("oracle-e2e", section="oracle")
            run.case(("e2e", name, tuple(mesh), shift, gamma, tr), nontrivial=True)
            if a[3] != b[3] or worst > 1e-7:
                k = "mesh-symmetry-on-ne-off"
                if generic:
                    k = "generic-shift-time-reversal" if tr else "generic-shift-" + k
                run.violation("Phonopy.run_mesh", k,
                              "thermal properties / smearing DOS / moments (orders 0-3, windowed) differ between is_mesh_symmetry on and off (rel. %.3g)" % worst, cd)
        # projected moments (need eigenvectors): API vs the definition, mesh symmetry on and off
        pmesh = [rng.randint(2, 3)] * 3
        for sym in (True, False):
            ph.run_mesh(pmesh, with_eigenvectors=True, is_mesh_symmetry=sym)
            md = ph.get_mesh_dict()
            fr, w, ev = np.array(md["frequencies"]), np.array(md["weights"]), np.array(md["eigenvectors"])
            for order in (0, 1, 2, 3):
                for win in (None, (0.37 * fr.max(), 0.81 * fr.max())):
                    kw = {} if win is None else dict(freq_min=win[0], freq_max=win[1])
                    with np.errstate(all="ignore"):
                        ph.run_moment(order=order, is_projection=True, **kw)
                    got = np.array(ph.get_moment(), dtype=float)
                    lo = 1e-8 if win is None else win[0] - 1e-8
                    hi = fr.max() + 1e-8 if win is None else win[1] + 1e-8
                    sel = (lo < fr) & (fr < hi)
                    p2 = np.abs(ev) ** 2  # [q, component, band]
                    wq = w[:, None, None] * sel[:, None, :] * p2
                    num = (wq * (np.where(sel, fr, 0.0) ** order)[:, None, :]).sum(axis=(0, 2))
                    den = wq.sum(axis=(0, 2))
                    with np.errstate(all="ignore"):
                        ref = (num / den).reshape(-1, 3).sum(axis=1) / 3
                    run.count("oracle-projected-moment", section="oracle")
                    if np.isfinite(ref).all() and (got.shape != ref.shape or np.abs(got - ref).max() > 1e-9 * max(1.0, np.abs(ref).max())):
                        run.violation("Phonopy.run_moment", "projected-moment-ne-definition",
                                      "projected moment of order %d differs from its definition by %.3g" % (order, float(np.abs(got - ref).max()) if got.shape == ref.shape else -1.0),
                                      dict(cell=name, mesh=pmesh, is_mesh_symmetry=sym, order=order, window=win))
        # length-specified mesh: stored mesh vs iterated mesh (init_mesh forces Gamma centre for a length)
        for length in ([6.0, 9.0, 13.0] if thorough else [9.0]):
            ph.init_mesh(mesh=length, is_gamma_center=False, with_eigenvectors=True)
            qa, wa = np.array(ph.mesh.qpoints), np.array(ph.mesh.weights)
            mn = [int(v) for v in ph.mesh.mesh_numbers]
            ph.init_mesh(mesh=length, is_gamma_center=False, with_eigenvectors=True, use_iter_mesh=True)
            qb, wb = np.array(ph.mesh.qpoints), np.array(ph.mesh.weights)
            run.count("oracle-length-mesh", section="oracle")
            run.case(("e2e-length", name, length), nontrivial=any(m % 2 == 0 for m in mn))
            if _multiset_mod1(qa, wa) != _multiset_mod1(qb, wb):
                run.violation("Phonopy.init_mesh", "iter-mesh-gamma-center",
                              "length-specified mesh %s: Mesh samples the Gamma-centred mesh, IterMesh (use_iter_mesh=True) a different one" % mn,
                              dict(cell=name, length=length, mesh_numbers=mn))
            exp, _ = U.expected_full_qpoints(mn, None, True)
            # unfold the stored mesh with the operations and compare with the promised Gamma-centred mesh
            rots = ph.primitive_symmetry.pointgroup_operations
            ops = U.rec_ops(rots, True)
            f = U.TestFunction(rng, ops)
            if abs(float(np.dot(wa, f(qa))) - float(f(exp).sum())) > 1e-9 * max(1.0, float(np.abs(f(exp)).sum())):
                run.violation("Phonopy.init_mesh", "length-mesh-not-gamma-centred", "length-specified mesh is not the Gamma-centred mesh", dict(cell=name, length=length))
