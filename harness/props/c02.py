"""C02 — phonons equal the lattice Fourier sum of the interatomic force constants."""

import warnings

import numpy as np

from .. import common, gen
from . import dynmat_util as U

TOL = 1e-9
TOL_EIG = 1e-8
TOL_UNIT = 2e-6  # eigenvalues recovered from THz frequencies through the independent unit factor (constants may be updated)


def _close(a, b, floor, tol=TOL):
    """|a-b| <= tol*scale; scale = largest entry, but never below `floor` = max|fc|/min(mass), the natural size of
    a dynamical-matrix entry (at Gamma a one-atom crystal has D = 0 up to rounding)."""
    scale = max(float(np.abs(a).max()), float(np.abs(b).max()), floor)
    return float(np.abs(a - b).max()) <= tol * scale, float(np.abs(a - b).max()), scale


def table_hypotheses(ph, T):
    """Numerical check of the hypotheses the Fourier theorems put on the shortest-vector table (owned by C04/C05):
    every stored vector is an image of its pair, is of minimal length, and the reversed pair stores the negated
    images.  Returns a list of failure descriptions."""
    fails = []
    sc, pc = ph.supercell, ph.primitive
    M = U.supercell_in_prim(ph)
    Minv = np.linalg.inv(M)
    xs = sc.scaled_positions @ M  # supercell atoms in primitive fractional coordinates
    sv, mu = T["svecs"], T["multi"]
    p2s, s2pp = T["p2s"], T["s2pp"]
    _, _, nsym, perms = gen.compact_tables(ph)
    shifts = np.array([[a, b, c] for a in (-1, 0, 1) for b in (-1, 0, 1) for c in (-1, 0, 1) if (a, b, c) != (0, 0, 0)]) @ M
    for k in range(T["ns"]):
        for i in range(T["np"]):
            m, ad = mu[k, i]
            if m < 1 or ad + m > len(sv):
                fails.append("multi[%d,%d]=(%d,%d) out of range" % (k, i, m, ad))
                continue
            d = xs[k] - xs[p2s[i]]
            vs = sv[ad:ad + m]
            n = (vs - d) @ Minv
            if np.abs(n - np.rint(n)).max() > 1e-6:
                fails.append("stored vector of pair (%d,%d) is not an image" % (k, i))
            ln = np.linalg.norm(vs @ pc.cell, axis=1)
            other = np.linalg.norm((vs[:, None, :] + shifts[None]) @ pc.cell, axis=2)
            if (other.min(axis=1) < ln - 1e-5).any():
                fails.append("stored vector of pair (%d,%d) is not of minimal length" % (k, i))
            k2 = perms[nsym[k]][p2s[i]]
            j = s2pp[k]
            m2, ad2 = mu[k2, j]
            v2 = sv[ad2:ad2 + m2]
            if m2 != m or any(np.abs(v2 + v).sum(axis=1).min() > 1e-6 for v in vs):
                fails.append("reversed pair (%d,%d) does not store the negated images of (%d,%d)" % (k2, j, k, i))
    return fails


def main(run):
    rng = run.rng
    warnings.simplefilter("ignore", DeprecationWarning)
    common.setup_phonopy("omp")
    from phonopy import Phonopy
    from phonopy.harmonic.force_constants import full_fc_to_compact_fc
    import phonopy.units as units

    thorough = run.tier == "thorough"
    run.proof_step(leancheck=thorough)
    run.cov["rule"] = (
        "correspondence: prototype crystals (P/F/I/A/C/R settings; primitive matrix by centring symbol, auto, or explicit "
        "centring-matrix x unimodular matrix) x supercell "
        "matrices (diagonal and non-diagonal, det<=6), dense or sparse svecs storage, force constants random "
        "(no symmetry, entries k/8) or pair-potential (any range), q random/commensurate/zone-boundary/outside/Gamma; "
        "DynamicalMatrix.run lang=C and Py, full and compact fc, OpenMP and serial library, and both loop forms of "
        "dym_get_dynamical_matrix_at_q called directly, against the Lean model fed with the implementation's own "
        "p2s/s2p/s2pp/svecs/multi/masses and the exact cos/sin doubles; all 3np x 3np entries, tolerance 1e-9*scale; the "
        "q-point batch run_dynamical_matrix_solver_c(dm, qpoints) against the model's flat output buffer; the frequency "
        "formula against QpointsPhonon's stored eigenvalues. "
        "oracle: independent infinite-lattice Fourier sum of the same pair potential vs DynamicalMatrix.run and "
        "Phonopy.run_qpoints (matrix entries and eigenvalues recovered from the frequencies with the unit factor); in every "
        "run additionally purely central-spring models with dyadic geometry on fcc / rock salt / bcc / sc (non-zero blocks whose "
        "nine elements cancel exactly) and C = Py on arrays with exactly zero, single-element, antisymmetric and "
        "element-sum-cancelling blocks; and many q-points in one run_qpoints call (1, 2, small primes, a prime in 4001..6000 for "
        "an 8-atom cell, a prime in 150..300 for a 96-atom cell; with/without eigenvectors and dynamical matrices): every row; "
        "and 3 relabelled descriptions of a crystal per run (gen.relabelled_cell, at least one left-handed): the oracle in "
        "the relabelled description and the spectrum at qmap(q) against the original description; and 3 primitive cells with a "
        "prescribed atom order (positions_to_reorder, p2s_map not ascending) through DynamicalMatrix / get_dynamical_matrix. "
        "Non-trivial = the oracle matrix is non-zero, and for the short-range clause the cutoff reaches at least the "
        "nearest neighbours; for the commensurate clause the cutoff exceeds half the shortest supercell vector.")
    run.cov["trusted_base"] = [
        "Lean 4.33 kernel; Mathlib v4.33; axioms per theorem in coverage.theorems",
        "hand-written model Model/DynMat.lean tied to c/dynmat.c and harmonic/dynamical_matrix.py by this correspondence run",
        "the lattice-sum specification LatticeModel.fourier (Lemmas/DynMatFourier.lean) is the statement read by a human",
        "nanobind replaced by harness/nbstub (c/_phonopy.cpp itself is compiled unchanged)",
        "float rounding outside the model: comparison tolerance 1e-9*max|entry|; libm cos/sin/sqrt, LAPACK eigvalsh are parameters",
        "independent oracle harness/props/dynmat_util.fourier_dynmat (plain lattice sum, no supercell)",
    ]
    run.assumptions += [
        "IEEE rounding of the C/Python code is not modelled",
        "table certificates and table hypotheses (compactOk, linkedOk, CTables.wf, dense addresses, stored vectors are minimal "
        "images) are statements of the model: a failure is reported as 'correspondence no longer checks', the failing-input verdict "
        "comes from the comparison of matrices and frequencies with the lattice Fourier sum and from C = Py",
        "hypotheses of the Fourier theorems on the shortest-vector table (stored vectors are images, of minimal "
        "length; reversed pairs store negated images; supercell atoms tile the lattice) are owned by C04/C05; they are "
        "evaluated numerically here on every case (coverage.correspondence.table-hypotheses)",
        "frequencies: sign(l)*sqrt|l|*factor inverted numerically; LAPACK eigvalsh trusted to 1e-8*scale",
        "NAC (charge_sum != NULL) is not part of this property (C08)",
    ]
    run.cov["partial"] = []

    # ------------------------------------------------------------------ A. correspondence cases
    ncorr = 240 if thorough else 40
    max_ns = 32 if thorough else 18
    names = U.CELLS_QUICK + (U.CELLS_MORE if thorough else [])
    cases = []
    attempts = 0
    while len(cases) < ncorr and attempts < 40 * ncorr:
        attempts += 1
        mc = U.make_case(rng, names, max_ns)
        if mc is None:
            continue
        name, cell, smat, pm, pmlabel = mc
        dense = rng.random() < 0.7
        try:
            ph = Phonopy(cell, supercell_matrix=smat, primitive_matrix=pm, log_level=0, store_dense_svecs=dense)
        except Exception:
            run.count("constructor-rejected")
            continue
        ns, npa = len(ph.supercell), len(ph.primitive)
        if ns * npa > (160 if thorough else 72):
            continue
        fckind = rng.choice(["random", "random", "pair-long", "pair-short"])
        minv = gen.min_lattice_vector(ph.supercell.cell)
        if fckind == "random":
            fc = gen.rand_rational_array(rng, (ns, ns, 3, 3))
            cutoff = None
        else:
            kfun, kdesc = U.make_kfun(rng)
            cutoff = minv * (rng.uniform(0.6, 1.3) if fckind == "pair-long" else rng.uniform(0.40, 0.495))
            fc = gen.pair_fc(ph.supercell, cutoff, kfun=kfun, images=U.images_needed(ph.supercell.cell, cutoff))
        if rng.random() < 0.5:
            masses = [rng.randint(1, 40) / 4.0 for _ in range(npa)]
            ph.masses = masses
        fcc = full_fc_to_compact_fc(ph.primitive, fc)
        qs = U.qpoints(rng, ph, n_random=1, n_comm=1, n_zb=0, n_out=0)
        extra = rng.choice(["zone-boundary", "outside-first-zone", "gamma"])
        qs = [x for x in qs if x[0] != "gamma"] + [x for x in U.qpoints(rng, ph, 0, 0, 1, 1) if x[0] == extra]
        cases.append(dict(name=name, smat=smat, pm=pmlabel, dense=dense, ph=ph, fc=fc, fcc=fcc, qs=qs, fckind=fckind,
                          cutoff=cutoff, ns=ns, np=npa))

    lines, meta = [], []
    nhyp = 0
    for ci, c in enumerate(cases):
        ph = c["ph"]
        info = dict(cell=c["name"], smat=c["smat"].tolist(), pmat=c["pm"], dense_svecs=c["dense"], fc=c["fckind"],
                    n_satom=c["ns"], n_patom=c["np"], masses=list(map(float, ph.primitive.masses)))
        dms = {}
        for layout, arr in (("full", c["fc"]), ("compact", c["fcc"])):
            ph.force_constants = arr.copy()
            dms[layout] = ph.dynamical_matrix
        c["dms"] = dms
        c["info"] = info
        T = U.dm_tables(dms["full"])
        c["T"] = T
        # table certificates evaluated by the Lean model + numerical hypotheses of the Fourier theorems
        lines.append(U.compactok_line(T))
        meta.append(("compactok", ci, None, None, info))
        lines.append(U.linked_line(T, ph))
        meta.append(("linked", ci, None, None, info))
        fails = table_hypotheses(ph, T)
        nhyp += 1
        if fails:
            run.broke("correspondence", "shortest-vector table violates a hypothesis of the Fourier theorems: " + fails[0], info)
        if not c["dense"]:
            ssv, smu = ph.primitive.get_smallest_vectors()
            lines.append("denseadrs %d %d %s" % (smu.shape[0], smu.shape[1], " ".join(str(int(x)) for x in smu.ravel())))
            meta.append(("denseadrs", ci, None, None, info))
            ok = (T["multi"][:, :, 0] == smu).all() and all(
                (T["svecs"][T["multi"][k, i, 1]:T["multi"][k, i, 1] + smu[k, i]] == ssv[k, i, :smu[k, i]]).all()
                for k in range(smu.shape[0]) for i in range(smu.shape[1]))
            if not ok:
                run.broke("correspondence", "sparse_to_dense_svecs does not copy the sparse table", info)
        for kind, qq in c["qs"]:
            for layout, arr in (("full", c["fc"]), ("compact", c["fcc"])):
                compact = layout == "compact"
                lines.append(U.model_line("c", T, compact, U.c_phases(qq, T["svecs"]), arr))
                meta.append(("C", ci, layout, (kind, qq), info))
                lines.append(U.model_line("py", T, compact, U.py_phases(qq, T["svecs"]), arr))
                meta.append(("Py", ci, layout, (kind, qq), info))
            canonical = (c["name"], c["smat"].tolist(), c["pm"], c["dense"], c["fckind"], c["fc"].tobytes(), tuple(qq))
            run.case(canonical, nontrivial=c["ns"] > c["np"] and kind != "gamma")
            run.count("corr cell=%s" % c["name"])
            run.count("corr q=%s" % kind)
            run.count("corr fc=%s" % c["fckind"])
            run.count("corr svecs=%s" % ("dense" if c["dense"] else "sparse"))
            run.count("corr smat=%s" % ("diagonal" if (c["smat"] == np.diag(np.diag(c["smat"]))).all() else "non-diagonal"))
        # the q-point batch (one call of the q-loop for all q of the case), full and compact layout
        for layout, arr in (("full", c["fc"]), ("compact", c["fcc"])):
            if c["ns"] * c["np"] > 40 and layout == "compact":
                continue
            phs = np.concatenate([U.c_phases(qq, T["svecs"]) for _, qq in c["qs"]])
            ln = U.model_line("c", T, layout == "compact", phs, arr)
            lines.append("batch %d %s" % (len(c["qs"]), ln[2:]))
            meta.append(("batch", ci, layout, None, info))
        run.sample(dict(kind="correspondence", **info, q=[(k, list(map(float, v))) for k, v in c["qs"]]))
    run.cov["correspondence"]["table-hypotheses"] = nhyp

    # implementation outputs: OpenMP build, serial build, direct kernel calls
    impl = {}
    for variant in ("omp", "ser"):
        if variant == "ser":
            common.switch_variant("ser")
        for ci, c in enumerate(cases):
            for kind, qq in c["qs"]:
                for layout in ("full", "compact"):
                    dm = c["dms"][layout]
                    for lang in ("C", "Py"):
                        if lang == "Py" and variant == "ser":
                            continue  # pure Python: identical code in both builds
                        dm.run(qq, lang=lang)
                        impl[(lang, variant, ci, layout, tuple(qq))] = dm.dynamical_matrix.copy()
                    arr = c["fc"] if layout == "full" else c["fcc"]
                    if (kind, tuple(qq)) == (c["qs"][0][0], tuple(c["qs"][0][1])):
                        from phonopy.harmonic.dynamical_matrix import run_dynamical_matrix_solver_c
                        impl[("batch", variant, ci, layout)] = np.array(run_dynamical_matrix_solver_c(
                            dm, np.array([x[1] for x in c["qs"]], dtype="double")))
                        # the same q-points handed over in other array layouts / types (the values are what counts, not the
                        # memory layout of the argument): Fortran order, transposed view, column slice of a (n,4) q+weight array,
                        # every second row of a longer array, nested lists  (seeded change r7-c02: strided views reached the kernel)
                        qc = np.array([x[1] for x in c["qs"]], dtype="double")
                        qw = np.zeros((len(qc), 4)); qw[:, :3] = qc; qw[:, 3] = 7.25
                        q2x = np.full((2 * len(qc), 3), 0.3125); q2x[::2] = qc
                        for lname, qarg in (("fortran-ordered", np.asfortranarray(qc)), ("transposed view", np.ascontiguousarray(qc.T).T),
                                            ("column slice of (n,4)", qw[:, :3]), ("row slice [::2]", q2x[::2]), ("nested lists", qc.tolist())):
                            run.count("oracle-qpoint-array-layout", section="oracle")
                            try:
                                alt = np.array(run_dynamical_matrix_solver_c(dm, qarg))
                            except Exception as exc:  # noqa: BLE001
                                run.violation("run_dynamical_matrix_solver_c", "qpoint-array-layout", "q-points given as %s are rejected: %r" % (lname, exc),
                                              dict(c["info"], layout=layout, build=variant, q=qc.tolist(), array=lname))
                                continue
                            ref_ = impl[("batch", variant, ci, layout)]
                            if alt.shape != ref_.shape or np.abs(alt - ref_).max() > 1e-12 * max(1.0, np.abs(ref_).max()):
                                run.violation("run_dynamical_matrix_solver_c", "qpoint-array-layout",
                                              "the same q-points given as %s give other dynamical matrices than given as a C-contiguous array (max diff %.3g)" % (
                                                  lname, np.abs(alt - ref_).max() if alt.shape == ref_.shape else float("nan")),
                                              dict(c["info"], layout=layout, build=variant, q=qc.tolist(), array=lname))
                    for uo in (0, 1):
                        kd = U.kernel_direct(c["T"], layout == "compact", arr, qq, uo)
                        if kd is None:
                            run.count("intermediate hook unavailable: C symbol dym_get_dynamical_matrix_at_q", section="correspondence")
                        else:
                            impl[("K%d" % uo, variant, ci, layout, tuple(qq))] = kd
    common.switch_variant("omp")

    # malformed tables: the model has no value for them (multiplicity 0, address range outside the stored vectors,
    # index out of range, truncated line)
    bad = ["c 1 1 1 1 0 0 0 0 1 0 1 1 2 3 4 5 6 7 8 9 1", "c 1 1 1 1 0 0 1 1 1 0 1 1 2 3 4 5 6 7 8 9 1",
           "c 1 1 1 1 1 0 1 0 1 0 1 1 2 3 4 5 6 7 8 9 1", "c 1 1 1 1 0 0 1 0 1 0 1 1 2 3", "py 1 1 1 1 0 0 1 0 0 5 1 0 1 1 2 3 4 5 6 7 8 9 1"]
    for b_ in bad:
        lines.append(b_)
        meta.append(("malformed", 0, None, None, None))
    out = common.lean_run_driver("C02", lines)
    if len(out) != len(lines):
        run.broke("correspondence", "driver answered %d lines for %d requests" % (len(out), len(lines)))
    ncmp = 0
    for (kind, ci, layout, qinfo, info), line in zip(meta, out):
        c = cases[ci] if cases else None
        if kind == "malformed":
            run.count("malformed-rejected", section="correspondence")
            if line != "bad-op":
                run.broke("correspondence", "model accepted a malformed table: %s" % line[:80])
            continue
        if kind == "compactok":
            run.count("compactOk-certificates", section="correspondence")
            if line != "true":
                run.broke("correspondence", "certificate compactOk = %s on the implementation's maps" % line, info)
            continue
        if kind == "linked":
            run.count("linked+wf-certificates", section="correspondence")
            if line != "true true":
                run.broke("correspondence", "certificates (linkedOk, CTables.wf) = %s on the implementation's tables" % line, info)
            continue
        if kind == "batch":
            toks = line.split()
            if line == "bad-op" or len(toks) != len(c["qs"]) * (3 * c["np"]) ** 2 * 2:
                run.broke("correspondence", "model rejected the batch request", info)
                continue
            from fractions import Fraction
            v = np.array([float(Fraction(t)) for t in toks]).reshape(len(c["qs"]), 3 * c["np"], 3 * c["np"], 2)
            model = v[..., 0] + 1j * v[..., 1]
            floor = float(np.abs(c["fc"]).max()) / float(min(c["T"]["masses"]))
            for variant in ("omp", "ser"):
                ok, d, scale = _close(impl[("batch", variant, ci, layout)], model, floor)
                ncmp += 1
                run.count("batch/%s/%s" % (variant, layout), section="correspondence")
                if not ok:
                    run.broke("correspondence", "q-point batch (%s build, %s fc) differs from the model's buffer by %.3g (scale %.3g)"
                              % (variant, layout, d, scale), info)
            continue
        if kind == "denseadrs":
            run.count("dense-address-certificates", section="correspondence")
            want = " ".join(str(int(x)) for x in c["T"]["multi"][:, :, 1].ravel())
            if line != want:
                run.broke("correspondence", "sparse_to_dense_svecs addresses differ from the model's running sum", info)
            continue
        qk, qq = qinfo
        if kind == "Py":
            flag, model = U.parse_dm(line, c["np"], with_flag=True)
            if flag is not None and flag != "true":
                run.broke("correspondence", "certificate selOk = %s (Python and C select different supercell atoms)" % flag, info)
        else:
            model = U.parse_dm(line, c["np"])
        if model is None:
            run.broke("correspondence", "model rejected input (%s %s)" % (kind, layout), info)
            continue
        if kind == "C":
            keys = [("C", "omp"), ("C", "ser"), ("K0", "omp"), ("K1", "omp"), ("K0", "ser"), ("K1", "ser")]
        else:
            keys = [("Py", "omp")]
        for lang, variant in keys:
            a = impl.get((lang, variant, ci, layout, tuple(qq)))
            if a is None:
                continue
            ok, d, scale = _close(a, model, float(np.abs(c["fc"]).max()) / float(min(c["T"]["masses"])))
            ncmp += 1
            run.count("%s/%s/%s" % (lang, variant, layout), section="correspondence")
            if not ok:
                run.broke("correspondence", "%s (%s build, %s fc, q %s): implementation differs from model by %.3g (scale %.3g)"
                          % (lang, variant, layout, qk, d, scale), dict(info=info, q=list(map(float, qq))))
    run.cov["correspondence"]["compared"] = ncmp

    # ------------------------------------------------------------------ A'. compiled kernel = Python reference on the
    # implementation (a clause of the property) for arrays with exact zeros and exact cancellations inside blocks
    for ci, c in enumerate(cases[: (20 if thorough else 8)]):
        sfc, skinds = U.structured_fc(rng, c["ns"])
        sfcc = full_fc_to_compact_fc(c["ph"].primitive, sfc)
        floor = float(np.abs(sfc).max()) / float(min(c["T"]["masses"]))
        for layout, arr in (("full", sfc), ("compact", sfcc)):
            c["ph"].force_constants = arr.copy()
            dm = c["ph"].dynamical_matrix
            for kind, qq in c["qs"]:
                dm.run(qq, lang="C")
                dc = dm.dynamical_matrix.copy()
                dm.run(qq, lang="Py")
                dp = dm.dynamical_matrix.copy()
                ok, d, scale = _close(dc, dp, floor)
                run.count("C=Py structured blocks/%s" % layout, section="oracle")
                if not ok:
                    run.violation("DynamicalMatrix.run", "c-ne-py/structured-blocks/%s" % layout,
                                  "compiled kernel and Python reference differ by %.3g (scale %.3g) on force constants with exact zeros / "
                                  "single-element / antisymmetric / element-sum-cancelling blocks" % (d, scale),
                                  dict(cell=c["name"], smat=c["smat"].tolist(), pmat=c["pm"], q=list(map(float, qq)), layout=layout,
                                       block_kinds=skinds, fc=sfc.tolist() if c["ns"] <= 8 else "structured_fc(rng) of this seed"))
        run.case(("structured", c["name"], c["smat"].tolist(), sfc.tobytes()), nontrivial=True)
        run.count("structured-block fc cases")

    # ------------------------------------------------------------------ B. the property itself on the implementation
    factor = float(units.VaspToTHz)
    # Independent value of the unit factor sqrt(eV/AMU)/Angstrom/(2 pi)/1e12 (CODATA-1986 constants as literals): the
    # frequencies returned by run_qpoints are compared with sqrt|eigenvalue of the lattice Fourier sum| * FACTOR_REF, so a
    # wrong unit factor shows up as wrong frequencies (end effect).  The identity proved on the unit monomials
    # (vaspToTHz_sq_monomial) evaluated with the module's own constants is a statement about the model of units.py.
    FACTOR_REF = float(np.sqrt(1.60217733e-19 / 1.6605402e-27) / 1.0e-10 / (2 * np.pi) / 1e12)
    spec2 = units.EV / units.AMU / units.Angstrom ** 2 / (2 * np.pi) ** 2 / 1e24
    run.count("unit-factor identity evaluated", section="correspondence")
    if abs(factor ** 2 - spec2) > 1e-13 * spec2:
        run.broke("correspondence", "VaspToTHz^2 = %r but EV/AMU/A^2/(2pi)^2/1e24 = %r with the constants of phonopy.units" % (factor ** 2, spec2))
    freq_lines, freq_meta = [], []
    norac = 800 if thorough else 90
    allnames = list(gen.PROTOTYPES)
    cand_smats = [np.diag(d) for d in ((2, 2, 2), (3, 3, 3), (2, 2, 3), (3, 2, 2), (2, 3, 2), (4, 4, 4), (3, 3, 2))] + [
        np.array(m) for m in ([[2, 1, 0], [0, 2, 0], [0, 0, 2]], [[2, 0, 1], [-1, 2, 0], [0, 1, 2]], [[-1, 1, 1], [1, -1, 1], [1, 1, -1]],
                              [[-2, 2, 2], [2, -2, 2], [2, 2, -2]], [[0, 1, 1], [1, 0, 1], [1, 1, 0]], [[0, 2, 2], [2, 0, 2], [2, 2, 0]],
                              [[2, 1, 0], [-1, 2, 0], [0, 0, 2]], [[3, 0, 0], [1, 3, 0], [0, 1, 3]], [[2, -1, 0], [1, 2, 1], [0, 0, 3]],
                              [[1, 1, 2], [2, -1, 1], [-1, 2, 1]])]
    max_ns_o = 128 if thorough else 72
    done = 0
    attempts = 0
    ocases = []
    while done < norac and attempts < 60 * norac:
        attempts += 1
        name = rng.choice(allnames)
        cell, cen = U.get_cell(name)
        clause = rng.choice(["short", "short", "long"])
        nn = U.nn_distance(cell)
        if clause == "short":
            smat = cand_smats[rng.randrange(len(cand_smats))]
        else:
            smat = rng.choice(gen.supercell_matrices(rng, max_det=8, count=16) + cand_smats[:3])
        det = int(round(np.linalg.det(smat)))
        if det < 1 or len(cell) * det > max_ns_o:
            continue
        pm, pmlabel = U.pick_pmat(rng, cen)
        dense = rng.random() < 0.75
        try:
            ph = Phonopy(cell, supercell_matrix=smat, primitive_matrix=pm, log_level=0, store_dense_svecs=dense)
        except Exception:
            run.count("constructor-rejected")
            continue
        sc, pc = ph.supercell, ph.primitive
        minv = gen.min_lattice_vector(sc.cell)
        if clause == "short":
            cutoff = minv * rng.uniform(0.40, 0.495)
            if cutoff < nn * 1.001:
                continue
        else:
            lo = max(nn * 1.01, 0.52 * minv)
            cutoff = rng.uniform(lo, max(lo * 1.05, 1.4 * minv))
            if U.images_needed(sc.cell, cutoff) > 4 or len(sc) ** 2 * (2 * U.images_needed(sc.cell, cutoff) + 1) ** 3 > 1.5e6:
                continue
        kfun, kdesc = U.make_kfun(rng)
        if rng.random() < 0.4:
            ph.masses = [rng.randint(1, 60) / 4.0 for _ in range(len(pc))]
        fc = gen.pair_fc(sc, cutoff, kfun=kfun, images=U.images_needed(sc.cell, cutoff))
        if clause == "short":
            qs = U.qpoints(rng, ph, n_random=2, n_comm=1, n_zb=1, n_out=1)
        else:
            qs = [x for x in U.qpoints(rng, ph, n_random=0, n_comm=3, n_zb=2, n_out=0) if U.is_commensurate(ph, x[1])]
            M = U.supercell_in_prim(ph)
            nvec = np.array([rng.randint(-3, 3) for _ in range(3)], dtype=float)
            qs.append(("outside-first-zone", np.linalg.inv(M) @ nvec + np.array([rng.randint(1, 2), rng.randint(-2, 2), 0.0])))
        qarr = np.array([x[1] for x in qs])
        D = U.fourier_dynmat(pc.cell, pc.scaled_positions, pc.numbers, pc.masses, kfun, cutoff, qarr)
        info = dict(cell=name, smat=smat.tolist(), pmat=pmlabel, dense_svecs=dense, clause=clause, cutoff=float(cutoff),
                    half_min_supercell_vector=float(minv / 2), nn=float(nn), kfun=kdesc,
                    masses=list(map(float, pc.masses)), n_satom=len(sc), n_patom=len(pc))
        # size of one pair force constant at the nearest-neighbour distance: the natural scale of the entries even
        # when all supercell force constants cancel (supercell = primitive cell)
        zs = sorted(set(int(z) for z in pc.numbers))
        phi_scale = max(abs(kfun(za, zb, nn * nn)[0]) + abs(kfun(za, zb, nn * nn)[1]) * nn * nn for za in zs for zb in zs)
        ocases.append(dict(ph=ph, fc=fc, qs=qs, D=D, info=info, clause=clause, phi_scale=float(phi_scale)))
        done += 1
        run.sample(dict(kind="oracle", **info, q=[(k, list(map(float, v))) for k, v in qs]), limit=8)

    # closed-form models with exact cancellations: purely central springs (a = 0, Phi = -b r r^T, b dyadic) on fcc,
    # rock salt, bcc, sc with dyadic geometry -- blocks on bonds with x+y+z = 0 are non-zero with element sum exactly 0
    for xname, (xcell, xcen, xsmats) in U.exact_cells().items():
        for xs in (xsmats if thorough else xsmats[:1]):
            ph = Phonopy(xcell, supercell_matrix=xs, primitive_matrix=xcen, log_level=0)
            sc, pc = ph.supercell, ph.primitive
            minv = gen.min_lattice_vector(sc.cell)
            cutoff = 3.5
            fc = gen.pair_fc(sc, cutoff, kfun=U.central_kfun, images=U.images_needed(sc.cell, cutoff))
            nz = int(sum(1 for i in range(len(sc)) for j in range(len(sc))
                         if np.abs(fc[i, j]).max() > 0 and float(np.sum(fc[i, j].ravel())) == 0.0 and sum(fc[i, j].ravel().tolist()) == 0.0))
            run.count("exact models: non-zero blocks with element sum exactly 0", nz)
            qs = U.qpoints(rng, ph, n_random=1, n_comm=1, n_zb=1, n_out=0)
            qarr = np.array([x[1] for x in qs])
            D = U.fourier_dynmat(pc.cell, pc.scaled_positions, pc.numbers, pc.masses, U.central_kfun, cutoff, qarr)
            info = dict(cell=xname, smat=xs.tolist(), pmat=xcen, dense_svecs=True, clause="short", cutoff=cutoff,
                        half_min_supercell_vector=float(minv / 2), nn=float(U.nn_distance(xcell)), kfun="central springs a=0, b dyadic",
                        masses=list(map(float, pc.masses)), n_satom=len(sc), n_patom=len(pc), zero_sum_blocks=nz)
            if cutoff >= minv / 2:
                continue
            ocases.append(dict(ph=ph, fc=fc, qs=qs, D=D, info=info, clause="short", phi_scale=8.0, always_py=True))

    def oracle_pass(variant):
        for oc in ocases:
            ph, fc, qs, D, info, clause = oc["ph"], oc["fc"], oc["qs"], oc["D"], oc["info"], oc["clause"]
            fcc = full_fc_to_compact_fc(ph.primitive, fc)
            floor = max(float(np.abs(fc).max()), oc["phi_scale"]) / float(min(ph.primitive.masses))
            for layout, arr in (("full", fc), ("compact", fcc)):
                ph.force_constants = arr.copy()
                dm = ph.dynamical_matrix
                qarr = np.array([x[1] for x in qs])
                ph.run_qpoints(qarr, with_dynamical_matrices=True)
                qd = ph.get_qpoints_dict()
                for n, (kind, qq) in enumerate(qs):
                    ref = D[n]
                    nontriv = float(np.abs(ref).max()) > 0
                    langs = ("C", "Py") if (variant == "omp" and (len(ph.supercell) <= 40 or oc.get("always_py"))) else ("C",)
                    for lang in langs:
                        dm.run(qq, lang=lang)
                        ok, d, scale = _close(dm.dynamical_matrix, ref, floor)
                        run.count("oracle D %s/%s/%s/%s" % (clause, kind, layout, lang), section="oracle")
                        if not ok:
                            run.violation("DynamicalMatrix.run", "%s-range/%s/%s/%s" % (clause, kind, layout, lang),
                                          "dynamical matrix differs from the lattice Fourier sum by %.3g (scale %.3g)" % (d, scale),
                                          dict(info, q=list(map(float, qq)), lang=lang, layout=layout, variant=variant))
                    ok, d, scale = _close(qd["dynamical_matrices"][n], ref, floor)
                    if not ok:
                        run.violation("Phonopy.run_qpoints", "%s-range/%s/%s/dynmat" % (clause, kind, layout),
                                      "run_qpoints dynamical matrix differs from the lattice Fourier sum by %.3g" % d,
                                      dict(info, q=list(map(float, qq)), layout=layout, variant=variant))
                    f = qd["frequencies"][n]
                    if variant == "omp" and layout == "full" and len(freq_lines) < (200 if thorough else 40):
                        evs = getattr(ph.qpoints, "eigenvalues", None)
                        if evs is None:  # re-derive from the public dynamical matrices (the same LAPACK call)
                            run.count("intermediate hook unavailable: QpointsPhonon.eigenvalues", section="correspondence")
                            ev = np.linalg.eigvalsh(qd["dynamical_matrices"][n]).real
                        else:
                            ev = np.array(evs[n], dtype="double")
                        freq_lines.append("freq %s %d %s" % (U.Q(factor), len(ev), " ".join(
                            "%s %s" % (U.Q(float(x)), U.Q(float(np.sqrt(np.abs(x))))) for x in ev)))
                        freq_meta.append((f.copy(), ev, dict(info, q=list(map(float, qq)))))
                    lam = np.sign(f) * (f / factor) ** 2
                    lam_ref = np.sign(f) * (f / FACTOR_REF) ** 2
                    want = np.linalg.eigvalsh((ref + ref.conj().T) / 2)
                    sc_ = max(float(np.abs(want).max()), floor)
                    run.count("oracle freq %s/%s/%s" % (clause, kind, layout), section="oracle")
                    if np.abs(lam - want).max() > TOL_EIG * sc_ or np.abs(lam_ref - want).max() > TOL_UNIT * sc_:
                        run.violation("Phonopy.run_qpoints", "%s-range/%s/%s/frequencies" % (clause, kind, layout),
                                      "frequencies differ from those of the lattice Fourier sum (eigenvalue diff %.3g, scale %.3g)"
                                      % (np.abs(lam - want).max(), sc_),
                                      dict(info, q=list(map(float, qq)), layout=layout, variant=variant))
                    if variant == "omp" and layout == "full":
                        canonical = ("oracle", info["cell"], info["smat"], info["pmat"], info["dense_svecs"], clause,
                                     info["cutoff"], tuple(map(float, qq)))
                        run.case(canonical, nontrivial=nontriv and (clause == "short" or info["cutoff"] > info["half_min_supercell_vector"]))
                        run.count("oracle cell=%s" % info["cell"])
                        run.count("oracle clause=%s" % clause)
                        run.count("oracle q=%s" % kind)
                        run.count("oracle pmat=%s" % (info["pmat"] if "*" not in info["pmat"] else "explicit(centring*unimodular)"))
                        run.count("oracle svecs=%s" % ("dense" if info["dense_svecs"] else "sparse"))
                        sm = np.array(info["smat"])
                        run.count("oracle smat=%s" % ("diagonal" if (sm == np.diag(np.diag(sm))).all() else "non-diagonal"))

    oracle_pass("omp")
    common.switch_variant("ser")
    oracle_pass("ser")
    common.switch_variant("omp")

    # ------------------------------------------------------------------ C. many q-points in ONE call, varying counts
    # (1, 2, primes, thousands): every row of frequencies / dynamical matrices / eigenvectors against the lattice
    # Fourier sum evaluated per q.  An 8-atom primitive cell with a prime number of q-points in 4001..6000 and a
    # 96-atom cell (a supercell used as unit cell) with a prime number in 150..300.
    from phonopy.structure.atoms import PhonopyAtoms

    mq_lines, mq_meta = [], []

    def many_q(tag, ph, kfun, cutoff, counts, variants_opts):
        pc = ph.primitive
        nb = 3 * len(pc)
        fc = gen.pair_fc(ph.supercell, cutoff, kfun=kfun, images=U.images_needed(ph.supercell.cell, cutoff))
        fcc = full_fc_to_compact_fc(pc, fc)
        floor = float(np.abs(fc).max()) / float(min(pc.masses))
        for nq in counts:
            qarr = np.array([[rng.uniform(-1, 1) for _ in range(3)] for _ in range(nq)])
            if nq >= 3:
                qarr[0] = 0.0
                qarr[-1] = [0.5, 0.0, -0.5]
            D = U.fourier_dynmat_many(pc.cell, pc.scaled_positions, pc.numbers, pc.masses, kfun, cutoff, qarr)
            want = np.linalg.eigvalsh((D + D.conj().transpose(0, 2, 1)) / 2)
            for variant, layout, wev, wdm in variants_opts:
                _t0 = __import__("time").time()
                if variant != common._STATE["variant"]:
                    common.switch_variant(variant)
                ph.force_constants = (fc if layout == "full" else fcc).copy()
                ph.run_qpoints(qarr, with_eigenvectors=wev, with_dynamical_matrices=wdm)
                qd = ph.get_qpoints_dict()
                info = dict(cell=tag, n_patom=len(pc), n_satom=len(ph.supercell), n_qpoints=nq, variant=variant, layout=layout,
                            with_eigenvectors=wev, with_dynamical_matrices=wdm, cutoff=float(cutoff), qpoints="rng stream of this seed")
                f = np.array(qd["frequencies"])
                bad = None
                if f.shape != (nq, nb):
                    bad = "frequencies have shape %s for %d q-points" % (f.shape, nq)
                else:
                    lam = np.sign(f) * (f / factor) ** 2
                    sc_ = max(float(np.abs(want).max()), floor)
                    err = np.maximum(np.abs(lam - want).max(axis=1),
                                     (TOL_EIG / TOL_UNIT) * np.abs(np.sign(f) * (f / FACTOR_REF) ** 2 - want).max(axis=1))
                    if err.max() > TOL_EIG * sc_:
                        rows = np.nonzero(err > TOL_EIG * sc_)[0]
                        bad = "frequencies of %d of %d q-points differ from the lattice Fourier sum (first row %d, eigenvalue diff %.3g, scale %.3g)" % (
                            len(rows), nq, int(rows[0]), float(err.max()), sc_)
                        info["first_bad_q"] = list(map(float, qarr[rows[0]]))
                if bad is None and wdm:
                    dms = np.array(qd["dynamical_matrices"])
                    if dms.shape != D.shape:
                        bad = "dynamical_matrices have shape %s for %d q-points" % (dms.shape, nq)
                    else:
                        err = np.abs(dms - D).reshape(nq, -1).max(axis=1)
                        sc_ = max(float(np.abs(D).max()), floor)
                        if err.max() > TOL * sc_:
                            rows = np.nonzero(err > TOL * sc_)[0]
                            bad = "dynamical matrices of %d of %d q-points differ from the lattice Fourier sum (first row %d, diff %.3g)" % (
                                len(rows), nq, int(rows[0]), float(err.max()))
                if bad is None and wev:
                    ev = np.array(qd["eigenvectors"])
                    if ev.shape != D.shape:
                        bad = "eigenvectors have shape %s for %d q-points" % (ev.shape, nq)
                    else:
                        res = np.abs(np.matmul(D, ev) - ev * want[:, None, :]).reshape(nq, -1).max(axis=1)
                        unit = np.abs(np.matmul(ev.conj().transpose(0, 2, 1), ev) - np.eye(nb)[None]).reshape(nq, -1).max(axis=1)
                        sc_ = max(float(np.abs(D).max()), floor)
                        if res.max() > 1e-7 * sc_ * nb or unit.max() > 1e-7:
                            rows = np.nonzero((res > 1e-7 * sc_ * nb) | (unit > 1e-7))[0]
                            bad = "eigenvectors of %d of %d q-points are not orthonormal eigenvectors of the lattice Fourier sum (first row %d)" % (
                                len(rows), nq, int(rows[0]))
                run.count("many-q call n=%s/%s" % ("1" if nq == 1 else "2" if nq == 2 else "<100" if nq < 100 else "<1000" if nq < 1000 else ">=1000", variant),
                          section="oracle")
                run.count("many-q rows compared", nq, section="oracle")
                run.cov.setdefault("timing", {})["manyq %s n=%d %s %s ev=%s dm=%s" % (tag[:12], nq, variant, layout, wev, wdm)] = round(__import__("time").time() - _t0, 2)
                if bad:
                    run.violation("Phonopy.run_qpoints", "many-qpoints-in-one-call/%s" % ("thousands" if nq >= 1000 else "hundreds" if nq >= 100 else "few"),
                                  bad, info)
                run.case(("manyq", tag, nq, variant, layout, wev, wdm, float(qarr[min(1, nq - 1)][0])), nontrivial=nq > 1)
                # a sample of rows (first, last, around the middle) through the Lean model (compact layout only)
                if layout == "compact" and wdm and variant == "omp" and nq >= 1000 and not mq_lines:
                    Tm = U.dm_tables(ph.dynamical_matrix)
                    dms = np.array(qd["dynamical_matrices"])
                    if dms.shape == D.shape:
                        for row in sorted({0, nq // 2 - 1, nq // 2, nq - 1}):
                            mq_lines.append(U.model_line("c", Tm, True, U.c_phases(qarr[row], Tm["svecs"]), fcc))
                            mq_meta.append((dms[row].copy(), floor, dict(info, row=int(row), q=list(map(float, qarr[row])))))
        if common._STATE["variant"] != "omp":
            common.switch_variant("omp")

    kf8, kd8 = U.make_kfun(rng)
    cell8, _ = U.get_cell("nacl")
    ph8 = Phonopy(cell8, supercell_matrix=np.diag([2, 2, 2]), primitive_matrix="P", log_level=0)
    cut8 = gen.min_lattice_vector(ph8.supercell.cell) * rng.uniform(0.40, 0.49)
    big_primes = U.primes_between(4001, 6000)
    n_big = big_primes[rng.randrange(len(big_primes))]
    small_counts = [1, 2, rng.choice([3, 5, 7, 11, 13]), rng.choice(U.primes_between(50, 400))]
    many_q("nacl conventional cell as primitive (8 atoms), 2x2x2", ph8, kf8, cut8, small_counts,
           [("omp", "full", False, True), ("ser", "full", True, False)])
    many_q("nacl conventional cell as primitive (8 atoms), 2x2x2", ph8, kf8, cut8, [n_big],
           [("omp", "compact", False, True), ("omp", "full", True, True), ("ser", "full", False, False)]
           + ([("ser", "compact", True, True)] if thorough else []))
    base, _ = U.get_cell("cscl")
    bsc = Phonopy(base, supercell_matrix=np.diag([4, 4, 3]), primitive_matrix="P", log_level=0).supercell
    ph96 = Phonopy(PhonopyAtoms(cell=bsc.cell, symbols=bsc.symbols, scaled_positions=bsc.scaled_positions),
                   supercell_matrix=np.eye(3, dtype=int), primitive_matrix="P", log_level=0)
    kf96, _ = U.make_kfun(rng)
    p96 = U.primes_between(150, 300)
    many_q("cscl 4x4x3 supercell used as unit cell (96 atoms)", ph96, kf96, 4.3, [p96[rng.randrange(len(p96))]],
           [("omp", "full", False, True), ("omp", "compact", True, False)] + ([("ser", "full", True, True)] if thorough else []))
    if mq_lines:
        _t0 = __import__("time").time()
        out = common.lean_run_driver("C02", mq_lines)
        run.cov.setdefault("timing", {})["manyq lean rows"] = round(__import__("time").time() - _t0, 2)
        for (impl_row, floor, inf), line in zip(mq_meta, out):
            model = U.parse_dm(line, 8)
            run.count("many-q rows through the Lean model", section="correspondence")
            if model is None:
                run.broke("correspondence", "model rejected a row of the many-q call", inf)
                continue
            ok, d, scale = _close(impl_row, model, floor)
            if not ok:
                run.broke("correspondence", "row %d of a %d-q-point run_qpoints call differs from the model by %.3g (scale %.3g)"
                          % (inf["row"], inf["n_qpoints"], d, scale), inf)

    # ------------------------------------------------------------------ D. description invariance: the same crystal
    # with relabelled lattice vectors (gen.relabelled_cell: left-handed, sheared, permuted).  The property's own oracle
    # (lattice Fourier sum built from the relabelled primitive cell) for C and Py, full and compact, dense or sparse
    # svecs, and the spectrum at qmap(q) against the original description's spectrum at q (the same physical quantity).
    from phonopy.structure.cells import get_primitive_matrix_by_centring

    for mname in U.relabel_picks(rng, 4 if thorough else 3):
        for _try in range(20):
            name, dims = U.RELABEL_CASES[rng.randrange(len(U.RELABEL_CASES))]
            cell, cen = U.get_cell(name)
            smat = np.diag(dims)
            ph0 = Phonopy(cell, supercell_matrix=smat, primitive_matrix=get_primitive_matrix_by_centring(cen), log_level=0)
            minv = gen.min_lattice_vector(ph0.supercell.cell)
            nn = U.nn_distance(cell)
            clause = rng.choice(["short", "short", "long"])
            if clause == "short":
                cutoff = minv * rng.uniform(0.42, 0.495)
                if cutoff < nn * 1.001:
                    continue
            else:
                cutoff = rng.uniform(max(nn * 1.01, 0.55 * minv), 1.2 * minv)
                if len(ph0.supercell) ** 2 * (2 * U.images_needed(ph0.supercell.cell, cutoff) + 1) ** 3 > 1.5e6:
                    continue
            break
        else:
            continue
        dense = rng.random() < 0.6
        kfun, kdesc = U.make_kfun(rng)
        ph0.force_constants = gen.pair_fc(ph0.supercell, cutoff, kfun=kfun, images=U.images_needed(ph0.supercell.cell, cutoff))
        if clause == "short":
            qs = U.qpoints(rng, ph0, n_random=2, n_comm=1, n_zb=1, n_out=1)
        else:
            qs = [x for x in U.qpoints(rng, ph0, n_random=0, n_comm=3, n_zb=1, n_out=0) if U.is_commensurate(ph0, x[1])]
        q0 = np.array([x[1] for x in qs])
        ph0.run_qpoints(q0)
        f0 = np.array(ph0.get_qpoints_dict()["frequencies"])
        ph2, qmap = U.relabelled_phonopy(cell, cen, smat, mname, dense=dense)
        sc2, pc2 = ph2.supercell, ph2.primitive
        fc2 = gen.pair_fc(sc2, cutoff, kfun=kfun, images=U.images_needed(sc2.cell, cutoff))
        fcc2 = full_fc_to_compact_fc(pc2, fc2)
        q2 = np.array([qmap(x) for x in q0])
        D2 = U.fourier_dynmat(pc2.cell, pc2.scaled_positions, pc2.numbers, pc2.masses, kfun, cutoff, q2)
        floor = float(np.abs(fc2).max()) / float(min(pc2.masses))
        info = dict(cell=name, smat=smat.tolist(), centring=cen, relabelling=mname, M=gen.UNIMODULAR[mname], volume_sign=float(np.sign(ph2.unitcell.volume)),
                    dense_svecs=dense, clause=clause, cutoff=float(cutoff), kfun=kdesc, n_satom=len(sc2), n_patom=len(pc2))
        run.sample(dict(kind="relabelled", **info), limit=10)
        for layout, arr in (("full", fc2), ("compact", fcc2)):
            ph2.force_constants = arr.copy()
            dm = ph2.dynamical_matrix
            ph2.run_qpoints(q2, with_dynamical_matrices=True)
            qd = ph2.get_qpoints_dict()
            for n, (kind, qq) in enumerate(qs):
                for lang in ("C", "Py"):
                    dm.run(q2[n], lang=lang)
                    ok, d, scale = _close(dm.dynamical_matrix, D2[n], floor)
                    run.count("relabelled D %s/%s/%s" % (mname, layout, lang), section="oracle")
                    if not ok:
                        run.violation("DynamicalMatrix.run", "relabelled/%s-range/%s/%s" % (clause, layout, lang),
                                      "relabelled description (%s): dynamical matrix differs from the lattice Fourier sum by %.3g (scale %.3g)" % (mname, d, scale),
                                      dict(info, q_original=list(map(float, qq)), q=list(map(float, q2[n])), layout=layout, lang=lang))
                f2 = np.array(qd["frequencies"][n])
                want = np.linalg.eigvalsh((D2[n] + D2[n].conj().T) / 2)
                sc_ = max(float(np.abs(want).max()), floor)
                l2 = np.sign(f2) * (f2 / factor) ** 2
                l0 = np.sign(f0[n]) * (f0[n] / factor) ** 2
                if np.abs(l2 - want).max() > TOL_EIG * sc_:
                    run.violation("Phonopy.run_qpoints", "relabelled/%s-range/%s/frequencies" % (clause, layout),
                                  "relabelled description (%s): frequencies differ from those of the lattice Fourier sum (eigenvalue diff %.3g)" % (mname, np.abs(l2 - want).max()),
                                  dict(info, q=list(map(float, q2[n])), layout=layout))
                if np.abs(l2 - l0).max() > TOL_EIG * sc_:
                    run.violation("Phonopy.run_qpoints", "description-invariance/%s-range/%s" % (clause, layout),
                                  "spectrum at qmap(q) in the relabelled description (%s) differs from the spectrum at q in the original one (eigenvalue diff %.3g, scale %.3g)"
                                  % (mname, np.abs(l2 - l0).max(), sc_), dict(info, q_original=list(map(float, qq)), q=list(map(float, q2[n])), layout=layout))
                run.count("description invariance %s" % mname, section="oracle")
                if layout == "full":
                    run.case(("relabel", name, dims, mname, dense, clause, float(cutoff), tuple(map(float, qq))),
                             nontrivial=float(np.abs(D2[n]).max()) > 0 and kind != "gamma")
        run.count("relabelled descriptions: %s (det %+d)" % (mname, int(round(np.linalg.det(np.array(gen.UNIMODULAR[mname]))))))

    # ------------------------------------------------------------------ E. primitive cells with a prescribed atom order
    # (Primitive(supercell, pmat, positions_to_reorder=...): p2s_map is then not ascending) through
    # DynamicalMatrix(supercell, primitive, fc) / get_dynamical_matrix: full and compact, C and Py, dense or sparse svecs,
    # against the lattice Fourier sum of THAT primitive cell; two rows per case also through the Lean model with the
    # index maps of that primitive.
    from phonopy.harmonic.dynamical_matrix import DynamicalMatrix, get_dynamical_matrix
    from phonopy.structure.cells import Primitive, get_primitive

    ro_cells = ["cscl", "nacl_prim", "zincblende_prim", "hcp", "wurtzite", "triclinic", "nacl_interleaved", "nacl", "rutile", "perovskite", "bcc", "mono_P"]
    ro_lines, ro_meta = [], []
    _t_ro = __import__("time").time()
    n_ro = 0
    attempts = 0
    while n_ro < (10 if thorough else 3) and attempts < 200:
        attempts += 1
        name = rng.choice(ro_cells)
        cell, cen = U.get_cell(name)
        smat = cand_smats[rng.randrange(len(cand_smats))] if rng.random() < 0.7 else rng.choice(gen.supercell_matrices(rng, max_det=8, count=12))
        det = int(round(np.linalg.det(smat)))
        if det < 2 or len(cell) * det > 72:
            continue
        try:
            ph = Phonopy(cell, supercell_matrix=smat, primitive_matrix=cen, log_level=0)
        except Exception:
            continue
        prim0, sc = ph.primitive, ph.supercell
        npa = len(prim0)
        if npa < 2:
            continue
        minv = gen.min_lattice_vector(sc.cell)
        nn = U.nn_distance(cell)
        clause = "short" if minv * 0.49 >= nn * 1.001 else "long"
        if clause == "short":
            cutoff = minv * rng.uniform(max(0.40, nn * 1.001 / minv), 0.495)
        else:
            cutoff = rng.uniform(max(nn * 1.01, 0.55 * minv), 1.2 * minv)
            if len(sc) ** 2 * (2 * U.images_needed(sc.cell, cutoff) + 1) ** 3 > 1.5e6:
                continue
        perm = list(range(npa))
        while perm == list(range(npa)):
            rng.shuffle(perm)
        dense = rng.random() < 0.6
        maker = rng.choice(["Primitive", "get_primitive"])
        pos = np.array(prim0.scaled_positions)[perm]
        if maker == "Primitive":
            prim = Primitive(sc, prim0.primitive_matrix, store_dense_svecs=dense, positions_to_reorder=pos)
        else:
            prim = get_primitive(sc, prim0.primitive_matrix, store_dense_svecs=dense, positions_to_reorder=pos)
        info = dict(cell=name, smat=smat.tolist(), centring=cen, permutation=perm, p2s_map=list(map(int, prim.p2s_map)), constructor=maker,
                    dense_svecs=dense, clause=clause, cutoff=float(cutoff), n_satom=len(sc), n_patom=npa)
        if list(prim.p2s_map) == sorted(prim.p2s_map):
            run.count("reordered primitive: p2s_map still ascending (skipped)")
            continue
        kfun, kdesc = U.make_kfun(rng)
        fc = gen.pair_fc(sc, cutoff, kfun=kfun, images=U.images_needed(sc.cell, cutoff))
        fcc = full_fc_to_compact_fc(prim, fc)
        if clause == "short":
            qs = U.qpoints(rng, ph, n_random=2, n_comm=1, n_zb=1, n_out=0)
        else:
            qs = [x for x in U.qpoints(rng, ph, n_random=0, n_comm=3, n_zb=1, n_out=0) if U.is_commensurate(ph, x[1])]
        qarr = np.array([x[1] for x in qs])
        D = U.fourier_dynmat(prim.cell, prim.scaled_positions, prim.numbers, prim.masses, kfun, cutoff, qarr)
        floor = float(np.abs(fc).max()) / float(min(prim.masses))
        Tr = U.dm_tables(prim)
        for layout, arr in (("full", fc), ("compact", fcc)):
            dms = {"DynamicalMatrix": DynamicalMatrix(sc, prim, arr.copy()), "get_dynamical_matrix": get_dynamical_matrix(arr.copy(), sc, prim)}
            for how, dm in dms.items():
                for n, (kind, qq) in enumerate(qs):
                    for lang in ("C", "Py"):
                        dm.run(qq, lang=lang)
                        ok, d, scale = _close(dm.dynamical_matrix, D[n], floor)
                        run.count("reordered primitive %s/%s/%s" % (how, layout, lang), section="oracle")
                        if not ok:
                            run.violation("DynamicalMatrix.run", "reordered-primitive/%s-range/%s/%s" % (clause, layout, lang),
                                          "primitive cell with prescribed atom order (p2s_map %s): dynamical matrix differs from the lattice Fourier "
                                          "sum by %.3g (scale %.3g)" % (info["p2s_map"], d, scale),
                                          dict(info, q=list(map(float, qq)), layout=layout, lang=lang, via=how, kfun=kdesc))
                    if how == "DynamicalMatrix" and n < 2 and len(ro_lines) < (40 if thorough else 12) and len(sc) * npa <= 120:
                        dm.run(qq, lang="C")
                        ro_lines.append(U.model_line("c", Tr, layout == "compact", U.c_phases(qq, Tr["svecs"]), arr))
                        ro_meta.append((dm.dynamical_matrix.copy(), floor, npa, dict(info, q=list(map(float, qq)), layout=layout)))
        for kind, qq in qs:
            run.case(("reordered", name, smat.tolist(), tuple(perm), dense, float(cutoff), tuple(map(float, qq))), nontrivial=float(np.abs(D).max()) > 0)
        run.count("reordered primitive cells")
        run.sample(dict(kind="reordered-primitive", **info), limit=12)
        n_ro += 1
    run.cov.setdefault("timing", {})["reordered stream (python)"] = round(__import__("time").time() - _t_ro, 2)
    if ro_lines:
        ro_lines.append(U.compactok_line(Tr))
        _t0 = __import__("time").time()
        out = common.lean_run_driver("C02", ro_lines)
        run.cov.setdefault("timing", {})["reordered stream (lean)"] = round(__import__("time").time() - _t0, 2)
        if out[-1] != "true":
            run.broke("correspondence", "certificate compactOk = %s on the maps of a reordered primitive cell" % out[-1], info)
        for (impl_d, floor, npa, inf), line in zip(ro_meta, out):
            model = U.parse_dm(line, npa)
            run.count("reordered primitive through the Lean model", section="correspondence")
            if model is None:
                run.broke("correspondence", "model rejected the tables of a reordered primitive cell", inf)
                continue
            ok, d, scale = _close(impl_d, model, floor)
            if not ok:
                run.broke("correspondence", "reordered primitive cell (%s fc): implementation differs from the model by %.3g (scale %.3g)"
                          % (inf["layout"], d, scale), inf)

    # frequency formula: model `frequency` (sqrt values as used by the code) vs QpointsPhonon
    if freq_lines:
        from fractions import Fraction
        out = common.lean_run_driver("C02", freq_lines)
        for (f, ev, inf), line in zip(freq_meta, out):
            run.count("frequency-formula", section="correspondence")
            if line == "bad-op":
                run.broke("correspondence", "model rejected a frequency request", inf)
                continue
            mf = np.array([float(Fraction(t)) for t in line.split()])
            if np.abs(mf - f).max() > 1e-12 * max(1.0, float(np.abs(f).max())) or ((f < 0) != (ev < 0)).any():
                run.broke("correspondence", "frequencies differ from sign(l)*sqrt|l|*factor of the stored eigenvalues by %.3g"
                          % np.abs(mf - f).max(), inf)
