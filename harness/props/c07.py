"""C07 — force-constant symmetrisers are projections; compact and full layouts agree."""

import sys

import numpy as np

from .. import common, gen
from ..common import q

TOL = 1e-9


def _flat(a):
    return " ".join(q(x) for x in np.asarray(a, dtype="double").ravel())


def _tables_line(p2s, s2pp, nsym, perms):
    nt, ns = perms.shape
    return "%d %d %d %s %s %s %s" % (
        len(p2s), ns, nt, " ".join(map(str, p2s)), " ".join(map(str, s2pp)), " ".join(map(str, nsym)),
        " ".join(map(str, perms.ravel())))


def _parse(line, shape):
    from fractions import Fraction

    if line == "bad-op":
        return None
    return np.array([float(Fraction(t)) for t in line.split()]).reshape(shape)


def _close(a, b, scale=None):
    scale = max(1.0, np.abs(b).max() if scale is None else scale)
    return np.abs(a - b).max() <= TOL * scale


def _py_fallback(fc, level):
    """Run symmetrize_force_constants through its `except ImportError` branch."""
    from phonopy.harmonic import force_constants as F

    saved = sys.modules.get("phonopy._phonopy")
    import phonopy

    saved_attr = getattr(phonopy, "_phonopy", None)
    sys.modules["phonopy._phonopy"] = None
    if hasattr(phonopy, "_phonopy"):
        delattr(phonopy, "_phonopy")
    try:
        F.symmetrize_force_constants(fc, level=level)
    finally:
        sys.modules["phonopy._phonopy"] = saved
        if saved_attr is not None:
            phonopy._phonopy = saved_attr


def _closed_full(fc, level):
    """numpy evaluation of the model's closed form `fullSym` (column drift, row drift, permutation average, `level`
    times; then the self terms from the sum rule) - used for sizes the Lean driver is not asked to evaluate."""
    a = np.array(fc, dtype="double")
    for _ in range(level):
        a = a - a.mean(axis=0, keepdims=True)
        a = a - a.mean(axis=1, keepdims=True)
        a = (a + a.transpose(1, 0, 3, 2)) / 2
    n = a.shape[0]
    idx = np.arange(n)
    off = a.copy()
    off[idx, idx] = 0
    rs = off.sum(axis=1)                      # sum over j' != i of Phi(i,j',k,l)
    a[idx, idx] = -(rs + rs.transpose(0, 2, 1)) / 2
    return a


_GOMP = None


def _set_threads(k):
    global _GOMP
    if _GOMP is None:
        import ctypes

        _GOMP = ctypes.CDLL("libgomp.so.1")
    _GOMP.omp_set_num_threads(int(k))


def _large_cases(run, rng, F, thorough):
    """Sizes well above the small exact cases (hundreds of atoms), several OpenMP thread counts: a size threshold or a
    thread-dependent path in the symmetrisers would only show here.  Float-side oracle only (closed form in numpy +
    the property itself); the Lean driver is not asked to evaluate these sizes."""
    # the closed form in numpy is first validated against the C routine on a small array the model also sees
    small = gen.rand_rational_array(rng, (5, 5, 3, 3))
    for lv in (0, 1, 2):
        t = small.copy()
        F.symmetrize_force_constants(t, level=lv)
        if not _close(t, _closed_full(small, lv)):
            run.broke("correspondence", "numpy closed form of fullSym differs from the C routine on a 5-atom array (level %d)" % lv)
            return
    sizes = [rng.randint(130, 180), rng.randint(200, 260)] + ([320] if thorough else [])
    for n in sizes:
        level = rng.choice([1, 2])
        fc0 = rng_array(rng, (n, n, 3, 3))
        ref = _closed_full(fc0, level)
        for th in (8, 3, 1):
            _set_threads(th)
            out = fc0.copy()
            F.symmetrize_force_constants(out, level=level)
            if not _close(out, ref):
                run.violation("symmetrize_force_constants", "large-array", "%d atoms, level %d, %d OpenMP threads: result differs from the closed form by %.3g" % (n, level, th, np.abs(out - ref).max()),
                              dict(n=n, level=level, threads=th, rng_seed=run.seed))
            again = out.copy()
            F.symmetrize_force_constants(again, level=1)
            if not _close(again, out):
                run.violation("symmetrize_force_constants", "not-idempotent-large", "%d atoms, %d threads: second application changes the array by %.3g" % (n, th, np.abs(again - out).max()),
                              dict(n=n, level=level, threads=th, rng_seed=run.seed))
        run.case(("large-full", n, level), nontrivial=True)
        run.count("large full arrays (float-side oracle, 8/3/1 threads)")
    # compact layout on a big supercell: compact routine == full routine on the expanded array
    big = [("nacl_prim", [[3, 0, 0], [0, 3, 0], [0, 0, 3]]), ("cscl", [[4, 0, 0], [0, 4, 0], [0, 0, 4]]), ("sc", [[5, 0, 0], [0, 5, 0], [0, 0, 5]]),
           ("zincblende_prim", [[4, 0, 0], [0, 3, 0], [0, 0, 3]]), ("hcp", [[4, 0, 0], [0, 4, 0], [0, 0, 3]]), ("bct", [[4, 0, 0], [0, 4, 0], [0, 0, 4]])]
    picks = big if thorough else [big[run.seed % len(big)]]
    for name, sm in picks:
        cell, cen = gen.make_cell(name)
        smat = np.array(sm)
        try:
            ph = gen.make_phonopy(cell, smat, pmat="P")
        except Exception:
            run.count("constructor-rejected")
            continue
        p2s, s2pp, nsym, perms = gen.compact_tables(ph)
        npa, ns = len(p2s), perms.shape[1]
        level = rng.choice([1, 2])
        fcc0 = rng_array(rng, (npa, ns, 3, 3))
        full0 = F.compact_fc_to_full_fc(ph.primitive, fcc0)
        ref_full = _closed_full(full0, level)
        for th in (8, 1):
            _set_threads(th)
            fcc = fcc0.copy()
            F.symmetrize_compact_force_constants(fcc, ph.primitive, level=level)
            exp = F.compact_fc_to_full_fc(ph.primitive, fcc)
            if not _close(exp, ref_full):
                run.violation("symmetrize_compact_force_constants", "compact-ne-full-large", "%s %s (%d atoms), level %d, %d threads: expanded compact result differs from the full closed form by %.3g" % (name, sm, ns, level, th, np.abs(exp - ref_full).max()),
                              dict(cell=name, smat=sm, level=level, threads=th, rng_seed=run.seed))
            back = F.full_fc_to_compact_fc(ph.primitive, exp)
            if not _close(back, fcc):
                run.violation("full_fc_to_compact_fc", "layout-roundtrip-large", "%s %s: compact->full->compact is not the identity" % (name, sm), dict(cell=name, smat=sm))
        run.case(("large-compact", name, repr(sm), level), nontrivial=True)
        run.count("large compact arrays (float-side oracle, 8/1 threads)")
    _set_threads(8)
    run.count("oracle-large", section="oracle")


def rng_array(rng, shape):
    """random doubles k/64 (exact in binary) for sizes where exact-rational wire text is not needed"""
    npr = np.random.default_rng(rng.randint(0, 2**31 - 1))
    return npr.integers(-256, 257, size=shape).astype("double") / 64


def main(run):
    rng = run.rng
    common.setup_phonopy("omp")
    from phonopy.harmonic import force_constants as F

    thorough = run.tier == "thorough"
    run.proof_step(leancheck=thorough)
    run.cov["rule"] = (
        "full layout: random arrays with entries k/8, n in 1..6 (quick) / 1..9 (thorough), levels 0..3, C routine and "
        "Python fallback vs Lean model (exact rational), tolerance 1e-9*scale; compact layout: prototype and random "
        "crystals x supercell matrices, tables certified by the Lean `wf`, C routines vs model. Non-trivial = "
        "array not already invariant; compact cases additionally count 'self-inverse translation present'.")
    run.cov["trusted_base"] = [
        "Lean 4.33 kernel; Mathlib v4.33; axioms per theorem in coverage.theorems",
        "hand-written model Model/Symmetrize.lean tied to c/phonopy.c and force_constants.py by this correspondence run",
        "nanobind replaced by harness/nbstub (c/_phonopy.cpp itself is compiled unchanged)",
        "float rounding outside the model: comparison tolerance 1e-9*max|entry|",
    ]
    run.assumptions += ["IEEE rounding of the C/Python code is not modelled", "spglib supplies symmetry/primitive tables; they are certified per case by CTables.wf"]

    lines, meta = [], []

    # ---------------- full layout
    nmax = 12 if thorough else 6
    ncases = 400 if thorough else 40
    for c in range(ncases):
        n = rng.randint(1, nmax) if c % 8 else rng.randint(nmax + 1, 3 * nmax)  # every 8th case is large
        level = rng.choice([0, 1, 1, 2, 3])
        fc0 = gen.rand_rational_array(rng, (n, n, 3, 3))
        kind = rng.choice(["random", "random", "invariant", "driftfree-asymmetric"])
        if kind == "driftfree-asymmetric" and n >= 2:
            # both sum rules hold exactly-ish but index-permutation symmetry is violated: an input on which
            # a "converged, nothing to subtract" shortcut must not skip the permutation averaging
            fc0 = fc0 - fc0.mean(axis=0, keepdims=True)
            fc0 = fc0 - fc0.mean(axis=1, keepdims=True)
        if kind == "invariant":
            tmp = fc0.copy()
            F.symmetrize_force_constants(tmp, level=2)
            fc0 = np.round(tmp * 4096) / 4096  # still nearly invariant; model decides exactly
        fc_c = fc0.copy()
        F.symmetrize_force_constants(fc_c, level=level)
        fc_py = fc0.copy()
        _py_fallback(fc_py, level)
        lines.append("fullsym %d %d %s" % (level, n, _flat(fc0)))
        meta.append(("full-C", dict(n=n, level=level, kind=kind), fc0, fc_c, (n, n, 3, 3)))
        if n <= 4:
            lines.append("fullsymloop %d %d %s" % (level, n, _flat(fc0)))
            meta.append(("full-loop-C", dict(n=n, level=level, kind=kind), fc0, fc_c, (n, n, 3, 3)))
        lines.append("pyfullsym %d %d %s" % (level, n, _flat(fc0)))
        meta.append(("full-Py", dict(n=n, level=level, kind=kind), fc0, fc_py, (n, n, 3, 3)))
        run.case(("full", n, level, fc0.tobytes()), nontrivial=(kind != "invariant" and n > 1))
        run.count("full kind=%s" % kind)
        run.count("full n=%d" % n)
        run.count("level=%d" % level)
        # oracle on the implementation: projection laws
        if level >= 1 and n >= 1:
            again = fc_c.copy()
            F.symmetrize_force_constants(again, level=rng.choice([1, 2]))
            if not _close(again, fc_c):
                run.violation("symmetrize_force_constants", "not-idempotent", "second application changes the array",
                              dict(n=n, level=level, fc=fc0.tolist()))
            perm_err = np.abs(fc_c - fc_c.transpose(1, 0, 3, 2)).max()
            sum_err = np.abs(fc_c.sum(axis=1)).max()
            if perm_err > TOL * max(1, np.abs(fc0).max()) or sum_err > TOL * max(1, np.abs(fc0).max()) * n:
                run.violation("symmetrize_force_constants", "output-not-invariant",
                              "perm err %.3g, sum-rule err %.3g" % (perm_err, sum_err), dict(n=n, level=level, fc=fc0.tolist()))
            run.count("oracle-full-projection", section="oracle")
        # description invariance on the implementation (theorems fullSym_relabel_invariant / fullSym_frame_invariant):
        # relabelled atoms and a changed Cartesian frame (a general, also left-handed, matrix with entries k/4)
        if n >= 2 and c % 3 == 0:
            sig = list(range(n))
            rng.shuffle(sig)
            sig = np.array(sig)
            rel = fc0[np.ix_(sig, sig)].copy()
            F.symmetrize_force_constants(rel, level=level)
            if not _close(rel, fc_c[np.ix_(sig, sig)]):
                run.violation("symmetrize_force_constants", "relabelling-not-invariant",
                              "symmetrising the array with relabelled atoms differs from relabelling the symmetrised array by %.3g" % np.abs(rel - fc_c[np.ix_(sig, sig)]).max(),
                              dict(n=n, level=level, permutation=sig.tolist(), fc=fc0.tolist()))
            Cm = np.array([[rng.randint(-4, 4) / 4 for _ in range(3)] for _ in range(3)])
            con = np.einsum("ka,ijab,lb->ijkl", Cm, fc0, Cm)
            ref_con = np.einsum("ka,ijab,lb->ijkl", Cm, fc_c, Cm)
            F.symmetrize_force_constants(con, level=level)
            if not _close(con, ref_con, max(1.0, float(np.abs(ref_con).max()), float(np.abs(fc0).max()))):
                run.violation("symmetrize_force_constants", "frame-not-invariant",
                              "symmetrising C.Phi.C^T differs from C.(symmetrised Phi).C^T by %.3g (det C = %.3g)" % (np.abs(con - ref_con).max(), np.linalg.det(Cm)),
                              dict(n=n, level=level, C=Cm.tolist(), fc=fc0.tolist()))
            run.count("oracle-description-invariance", section="oracle")

    # ---------------- compact layout
    names = ["sc", "cscl", "nacl_prim", "bcc", "hcp", "zincblende_prim", "triclinic", "bct", "fcc"]
    if thorough:
        names += ["nacl", "rutile", "mono_C", "ortho_C", "rhombo", "wurtzite", "diamond"]
    ccases = 250 if thorough else 30
    made = 0
    attempts = 0
    fcell = ["triclinic", "cscl", "sc", "bct"][run.seed % 4]
    forced = [(fcell, np.diag([2, 2, 1]).tolist()), (fcell, np.diag([4, 1, 1]).tolist()), (fcell, np.diag([1, 4, 1]).tolist()), (fcell, np.diag([1, 2, 2]).tolist())]
    while made < ccases and attempts < 10 * ccases:
        attempts += 1
        name = rng.choice(names)
        cell, cen = gen.make_cell(name)
        smat = rng.choice(gen.supercell_matrices(rng, max_det=4 if not thorough else 8, count=12))
        if forced:
            # fixed pairs first: the same cell in supercells with the same atom count and s2p_map but DIFFERENT groups
            # of pure translations, one after the other in one process (a table cached too coarsely shows here)
            name, sm_ = forced.pop(0)
            cell, cen = gen.make_cell(name)
            smat = np.array(sm_)
        if len(cell) * int(round(np.linalg.det(smat))) > (24 if not thorough else 64):
            continue
        pm = rng.choice(["auto", "P"]) if cen != "P" else "P"
        # the same crystal in another description (left-handed / sheared / permuted basis): every second run of the
        # stream starts with a left-handed one; the oracles below are evaluated ON that description
        relabel = None
        if made == 4 or (made > 4 and rng.random() < 0.25):
            relabel = ["swap12", "negate3", "invert"][(run.seed + made) % 3] if made == 4 else rng.choice(sorted(gen.UNIMODULAR))
            cell, _qmap, _smap = gen.relabelled_cell(cell, gen.UNIMODULAR[relabel])
            smat = _smap(smat)
            name = "%s[%s]" % (name, relabel)
            run.count("compact description=%s (volume %s)" % (relabel, "negative" if cell.volume < 0 else "positive"))
        try:
            ph = gen.make_phonopy(cell, smat, pmat=pm)
        except Exception as e:  # constructor rejects: not this property's business
            run.count("constructor-rejected" + ("-relabelled" if relabel else ""))
            continue
        p2s, s2pp, nsym, perms = gen.compact_tables(ph)
        npa, ns = len(p2s), perms.shape[1]
        level = rng.choice([0, 1, 1, 2])
        fcc0 = gen.rand_rational_array(rng, (npa, ns, 3, 3))
        if rng.random() < 0.3:
            # drift-free but not permutation-symmetric periodic array (see the full-layout kind above)
            full_tmp = F.compact_fc_to_full_fc(ph.primitive, fcc0)
            full_tmp = full_tmp - full_tmp.mean(axis=0, keepdims=True)
            full_tmp = full_tmp - full_tmp.mean(axis=1, keepdims=True)
            fcc0 = F.full_fc_to_compact_fc(ph.primitive, full_tmp)
            run.count("compact kind=driftfree-asymmetric")
        tl = _tables_line(p2s, s2pp, nsym, perms)
        self_inv = any((perms[t][perms[t]] == np.arange(ns)).all() and not (perms[t] == np.arange(ns)).all() for t in range(len(perms)))
        # implementation
        fcc = fcc0.copy()
        F.symmetrize_compact_force_constants(fcc, ph.primitive, level=level)
        tr = fcc0.copy()
        import phonopy._phonopy as phonoc

        phonoc.transpose_compact_fc(tr, np.array(perms, dtype="intc"), np.array(s2pp, dtype="intc"), np.array(p2s, dtype="intc"), np.array(nsym, dtype="intc"))
        full0 = F.compact_fc_to_full_fc(ph.primitive, fcc0)
        lines.append("wf " + tl)
        meta.append(("wf", dict(cell=name, smat=smat.tolist()), None, None, None))
        # get_nsym_list_and_s2pp itself: the model computes the tables from Primitive's arrays (mkTables) and
        # evaluates the group certificate on them (theorem computed_tables_wf)
        s2p_arr = np.array(ph.primitive.s2p_map, dtype=int)
        lines.append("mktables %d %d %d %s %s %s" % (npa, ns, len(perms), " ".join(map(str, p2s)), " ".join(map(str, s2p_arr)), " ".join(map(str, perms.ravel()))))
        meta.append(("mktables", dict(cell=name, smat=smat.tolist(), pmat=pm, perms=perms.tolist()), None, (s2pp, nsym), None))
        if made % 5 == 0 and len(perms) > 1:
            # malformed stream: a table of translations with one row missing -> some atom cannot reach its
            # representative: the Python raises IndexError, the model says "not defined"
            drop = int(nsym.max())
            bad = np.delete(perms, drop, axis=0)
            try:
                F.get_nsym_list_and_s2pp(ph.primitive.s2p_map, ph.primitive.p2p_map, bad)
                impl_err = "returns"
            except (IndexError, KeyError) as e:
                impl_err = "raises"
            lines.append("mktables %d %d %d %s %s %s" % (npa, ns, len(bad), " ".join(map(str, p2s)), " ".join(map(str, s2p_arr)), " ".join(map(str, bad.ravel()))))
            meta.append(("mktables-malformed", dict(cell=name, smat=smat.tolist(), pmat=pm, dropped_row=drop), None, impl_err, None))
        lines.append("compactsym %d %s %s" % (level, tl, _flat(fcc0)))
        meta.append(("compact-C", dict(cell=name, smat=smat.tolist(), pmat=pm, level=level, self_inverse=self_inv), fcc0, fcc, (npa, ns, 3, 3)))
        lines.append("transposec 0 %s %s" % (tl, _flat(fcc0)))
        meta.append(("transpose-C", dict(cell=name, smat=smat.tolist(), pmat=pm, self_inverse=self_inv), fcc0, tr, (npa, ns, 3, 3)))
        if npa * ns <= 48:
            # the literal in-place loop model (source order, `done` table) on small cases
            lines.append("transposeloop 0 %s %s" % (tl, _flat(fcc0)))
            meta.append(("transpose-loop-C", dict(cell=name, smat=smat.tolist(), pmat=pm, self_inverse=self_inv), fcc0, tr, (npa, ns, 3, 3)))
        lines.append("expand 0 %s %s" % (tl, _flat(fcc0)))
        meta.append(("expand", dict(cell=name, smat=smat.tolist(), pmat=pm), fcc0, full0, (ns, ns, 3, 3)))
        run.case(("compact", name, smat.tolist(), pm, level, fcc0.tobytes()), nontrivial=ns > npa)
        run.count("compact %s" % name)
        if self_inv:
            run.count("compact: self-inverse translation present")
        made += 1
        run.sample(dict(kind="compact", cell=name, smat=smat.tolist(), pmat=pm, level=level, n_patom=npa, n_satom=ns, self_inverse=self_inv))

        # ---- oracle on the implementation (the property itself)
        scale = max(1.0, np.abs(fcc0).max())
        # compact == full on the expanded array
        full_sym = full0.copy()
        F.symmetrize_force_constants(full_sym, level=level)
        exp_c = F.compact_fc_to_full_fc(ph.primitive, fcc)
        if not _close(exp_c, full_sym, scale):
            run.violation("symmetrize_compact_force_constants", "compact-ne-full" + ("-selfinv" if self_inv else ""),
                          "compact routine differs from full routine on the expanded array by %.3g" % np.abs(exp_c - full_sym).max(),
                          dict(cell=name, smat=smat.tolist(), pmat=pm, level=level, fc_compact=fcc0.tolist()))
        # transpose: expanded(transposed) == transpose(expanded)
        exp_t = F.compact_fc_to_full_fc(ph.primitive, tr)
        if not _close(exp_t, full0.transpose(1, 0, 3, 2), scale):
            run.violation("transpose_compact_fc", "transpose-wrong" + ("-selfinv" if self_inv else ""),
                          "compact transposition is not the transposition of the expanded array (max diff %.3g)" % np.abs(exp_t - full0.transpose(1, 0, 3, 2)).max(),
                          dict(cell=name, smat=smat.tolist(), pmat=pm, fc_compact=fcc0.tolist()))
        # idempotent
        if level >= 1:
            again = fcc.copy()
            F.symmetrize_compact_force_constants(again, ph.primitive, level=1)
            if not _close(again, fcc, scale):
                run.violation("symmetrize_compact_force_constants", "not-idempotent" + ("-selfinv" if self_inv else ""),
                              "second application changes the array by %.3g" % np.abs(again - fcc).max(),
                              dict(cell=name, smat=smat.tolist(), pmat=pm, level=level, fc_compact=fcc0.tolist()))
        # full -> compact -> full identity on periodic arrays
        back = F.compact_fc_to_full_fc(ph.primitive, F.full_fc_to_compact_fc(ph.primitive, full0))
        if not _close(back, full0, scale):
            run.violation("compact_fc_to_full_fc", "layout-roundtrip", "full->compact->full is not the identity on a periodic array",
                          dict(cell=name, smat=smat.tolist(), pmat=pm))
        # storage variants of the input: Fortran order, a transposed view, float32, a list -- the layout
        # converters must hand out arrays the compiled routines can consume (C-contiguous double) with the
        # same values, and the compact routine on them must still act as the full routine
        if made % 2 == 0:
            variants = {
                "fortran": np.asfortranarray(full0),
                "strided-view": np.concatenate([full0, full0], axis=1)[:, ::2][:, : full0.shape[1]] if False else np.ascontiguousarray(full0.transpose(1, 0, 2, 3)).transpose(1, 0, 2, 3),
                "float32": full0.astype("float32"),
            }
            for vname, varr in variants.items():
                cv = F.full_fc_to_compact_fc(ph.primitive, varr)
                ref_c = F.full_fc_to_compact_fc(ph.primitive, np.array(varr, dtype="double", order="C"))
                # the compiled routines read the raw buffer as doubles (c/_phonopy.cpp: untyped nb::ndarray<>, .data()):
                # anything but a double array cannot be consumed by them at all; values are compared as handed out
                if not (isinstance(cv, np.ndarray) and cv.dtype == np.dtype("double")):
                    run.violation("full_fc_to_compact_fc", "storage-variant-" + vname,
                                  "compact array from a %s full array is not a double array (dtype %s): the in-place compact routines cannot consume it" % (vname, getattr(cv, "dtype", None)),
                                  dict(cell=name, smat=smat.tolist(), pmat=pm, variant=vname))
                    continue
                if not _close(cv, ref_c, scale):
                    run.violation("full_fc_to_compact_fc", "storage-variant-" + vname,
                                  "compact array from a %s full array differs from that of the C-ordered double array by %.3g" % (vname, np.abs(cv - ref_c).max()),
                                  dict(cell=name, smat=smat.tolist(), pmat=pm, variant=vname))
                    continue
                # end effect, on the very array that was handed out (in place, as a caller would use it); its memory
                # layout is not judged by itself
                if not cv.flags.c_contiguous:
                    run.count("oracle-storage-variants: converter handed out a non-C-contiguous array (observation)", section="oracle")
                cv2 = cv if (cv.flags.writeable and cv.base is None) else np.array(cv, order="K")
                F.symmetrize_compact_force_constants(cv2, ph.primitive, level=1)
                ref2 = ref_c.copy()
                F.symmetrize_compact_force_constants(ref2, ph.primitive, level=1)
                if not _close(cv2, ref2, scale):
                    run.violation("symmetrize_compact_force_constants", "storage-variant-" + vname,
                                  "in-place compact symmetrisation of the array handed out for a %s full array differs from the reference by %.3g (C-contiguous: %s)" % (vname, np.abs(cv2 - ref2).max(), cv2.flags.c_contiguous),
                                  dict(cell=name, smat=smat.tolist(), pmat=pm, variant=vname))
                fv = F.compact_fc_to_full_fc(ph.primitive, np.asfortranarray(ref_c))
                if not _close(fv, F.compact_fc_to_full_fc(ph.primitive, ref_c), scale):
                    run.violation("compact_fc_to_full_fc", "storage-variant-fortran", "expansion of a Fortran-ordered compact array differs",
                                  dict(cell=name, smat=smat.tolist(), pmat=pm))
            run.count("oracle-storage-variants", section="oracle")
        cback = F.full_fc_to_compact_fc(ph.primitive, full0)
        if not _close(cback, fcc0, scale):
            run.violation("full_fc_to_compact_fc", "layout-roundtrip", "compact->full->compact is not the identity",
                          dict(cell=name, smat=smat.tolist(), pmat=pm))
        run.count("oracle-compact", section="oracle")

        # API level: Phonopy.symmetrize_force_constants on compact + full give the same phonons
        if made % 3 == 0:
            phf = gen.make_phonopy(cell, smat, pmat=pm)
            phf.force_constants = full0.copy()
            phf.symmetrize_force_constants(level=max(level, 1))
            phc = gen.make_phonopy(cell, smat, pmat=pm)
            phc.force_constants = fcc0.copy()
            phc.symmetrize_force_constants(level=max(level, 1))
            fe = F.compact_fc_to_full_fc(phc.primitive, phc.force_constants)
            if not _close(fe, phf.force_constants, scale):
                run.violation("Phonopy.symmetrize_force_constants", "compact-ne-full" + ("-selfinv" if self_inv else ""),
                              "API symmetrisation differs between layouts by %.3g" % np.abs(fe - phf.force_constants).max(),
                              dict(cell=name, smat=smat.tolist(), pmat=pm, level=level))
            # the same through the public setter with other storage of the SAME values (Fortran order, a strided
            # view, float32, nested lists): the symmetrised force constants must not depend on it
            ref_full = np.array(phf.force_constants)
            ref_comp = np.array(phc.force_constants)
            for lay, arr0, ref in (("full", full0, ref_full), ("compact", fcc0, ref_comp)):
                big = np.zeros(arr0.shape[:1] + (2 * arr0.shape[1],) + arr0.shape[2:])
                big[:, ::2] = arr0
                variants = {"fortran": np.asfortranarray(arr0), "strided-view": big[:, ::2], "nested-list": arr0.tolist()}
                if float(np.abs(arr0.astype("float32").astype("double") - arr0).max()) == 0.0:
                    variants["float32"] = arr0.astype("float32")
                vname = sorted(variants)[(made + (0 if lay == "full" else 1)) % len(variants)]
                phv = gen.make_phonopy(cell, smat, pmat=pm)
                phv.force_constants = variants[vname]
                phv.symmetrize_force_constants(level=max(level, 1))
                got = np.array(phv.force_constants, dtype="double")
                if got.shape != ref.shape or not _close(got, ref, scale):
                    run.violation("Phonopy.symmetrize_force_constants", "storage-variant-api-" + vname,
                                  "%s force constants set as %s: symmetrised result differs from the C-ordered double input's by %.3g" % (lay, vname, np.abs(got - ref).max() if got.shape == ref.shape else float("nan")),
                                  dict(cell=name, smat=smat.tolist(), pmat=pm, level=level, layout=lay, variant=vname))
                run.count("oracle-api-storage-variant %s" % vname, section="oracle")
            # space-group symmetrisation is a projection
            for phx in (phf,):
                phx.symmetrize_force_constants_by_space_group()
                a = phx.force_constants.copy()
                phx.symmetrize_force_constants_by_space_group()
                if not _close(phx.force_constants, a, scale):
                    run.violation("Phonopy.symmetrize_force_constants_by_space_group", "not-idempotent",
                                  "group average applied twice differs by %.3g" % np.abs(phx.force_constants - a).max(),
                                  dict(cell=name, smat=smat.tolist(), pmat=pm))
            run.count("oracle-api", section="oracle")

    # ---------------- space-group average (set_tensor_symmetry_PJ) on exactly rational cells
    from fractions import Fraction

    from phonopy.harmonic.force_constants import _get_atom_indices_by_symmetry, set_tensor_symmetry_PJ
    from phonopy.structure.symmetry import Symmetry

    pj_cases = 30 if thorough else 4
    # cells whose fractional rotations are NOT signed permutation matrices come first (hexagonal,
    # primitive fcc, rhombohedral): there the Cartesian matrix and its transpose/inverse differ
    pj_first = ["hcp", "nacl_prim", "rhombo", "wurtzite", "zincblende_prim"]
    pj_names = ["sc", "cscl", "bct", "ortho_C", "perovskite", "bcc", "mono_C", "rutile"] + pj_first
    done_pj = 0
    tries = 0
    while done_pj < pj_cases and tries < 60:
        tries += 1
        if done_pj < 2 or rng.random() < 0.6:
            cname = pj_first[(run.seed + done_pj + tries) % len(pj_first)] if done_pj < 2 else rng.choice(pj_names)
            cell, _ = gen.make_cell(cname)
            name = cname
        else:
            cell = gen.random_cell(rng, natom=rng.randint(1, 3))
            name = "random"
        smat = rng.choice([np.diag([1, 1, 1]), np.diag([2, 1, 1]), np.diag([1, 1, 2]), np.array([[1, 1, 0], [0, 1, 0], [0, 0, 1]])])
        if done_pj == 1 or rng.random() < 0.25:
            rl = ["swap12", "negate3", "invert"][(run.seed + tries) % 3] if done_pj == 1 else rng.choice(sorted(gen.UNIMODULAR))
            cell, _qm, _sm = gen.relabelled_cell(cell, gen.UNIMODULAR[rl])
            smat = _sm(smat)
            name = "%s[%s]" % (name, rl)
            run.count("pj description=%s (volume %s)" % (rl, "negative" if cell.volume < 0 else "positive"))
        try:
            ph = gen.make_phonopy(cell, smat, pmat="P")
        except Exception:
            continue
        sc = ph.supercell
        sym = Symmetry(sc, symprec=1e-5)
        rots = sym.symmetry_operations["rotations"]
        trans = sym.symmetry_operations["translations"]
        N, n = len(rots), len(sc)
        if N > 64 or n > 12 or N < 2 or (n < 2 and done_pj < 2):
            continue
        L = sc.cell.T  # column vectors, as passed by the API
        mapa = _get_atom_indices_by_symmetry(L, sc.scaled_positions, rots, trans, 1e-5)
        Lf = [[Fraction(float(x)) for x in row] for row in L]

        def fmat_mul(A, B):
            return [[sum(A[i][k] * B[k][j] for k in range(3)) for j in range(3)] for i in range(3)]

        def finv(A):
            a, b, c_, d, e, f, g, h, i = [A[r][c] for r in range(3) for c in range(3)]
            det = a * (e * i - f * h) - b * (d * i - f * g) + c_ * (d * h - e * g)
            adj = [[e * i - f * h, c_ * h - b * i, b * f - c_ * e], [f * g - d * i, a * i - c_ * g, c_ * d - a * f], [d * h - e * g, b * g - a * h, a * e - b * d]]
            return [[x / det for x in row] for row in adj]

        Li = finv(Lf)
        Cs, Cis = [], []
        for r in rots:
            rf = [[Fraction(int(x)) for x in row] for row in r]
            sim = fmat_mul(fmat_mul(Lf, rf), Li)
            Cg = [[sim[c][r_] for c in range(3)] for r_ in range(3)]  # transpose
            Cs.append(Cg)
            Cis.append(finv(Cg))
        # group table: mul[g][h] = k with r_k = r_h r_g and perm_k = perm_h o perm_g
        key = {}
        for k in range(N):
            key[(tuple(rots[k].ravel()), tuple(mapa[k]))] = k
        mul = []
        okmul = True
        for g in range(N):
            for h in range(N):
                rr = rots[h] @ rots[g]
                pp = tuple(mapa[h][mapa[g]])
                k = key.get((tuple(rr.ravel()), pp))
                if k is None:
                    okmul = False
                    k = 0
                mul.append(k)
        fc0 = gen.rand_rational_array(rng, (n, n, 3, 3))
        fc = fc0.copy()
        set_tensor_symmetry_PJ(fc, L, sc.scaled_positions, sym)
        head = "%d %d %s %s %s" % (N, n, " ".join(str(int(x)) for x in mapa.ravel()),
                                   " ".join(q(x) for C_ in Cs for row in C_ for x in row),
                                   " ".join(q(x) for C_ in Cis for row in C_ for x in row))
        lines.append("pjwf " + head + " " + " ".join(map(str, mul)))
        meta.append(("pjwf", dict(cell=name, smat=smat.tolist(), N=N, n=n, closed=okmul), None, None, None))
        lines.append("pj " + head + " " + _flat(fc0))
        meta.append(("pj", dict(cell=name, smat=smat.tolist(), N=N, n=n), fc0, fc, (n, n, 3, 3)))
        run.case(("pj", name, smat.tolist(), N, n, fc0.tobytes()), nontrivial=N > 1)
        run.count("pj N=%d" % N)
        # oracle: projection laws on the implementation
        again = fc.copy()
        set_tensor_symmetry_PJ(again, L, sc.scaled_positions, sym)
        if not _close(again, fc):
            run.violation("set_tensor_symmetry_PJ", "not-idempotent", "group average applied twice differs by %.3g" % np.abs(again - fc).max(),
                          dict(lattice=sc.cell.tolist(), positions=sc.scaled_positions.tolist(), numbers=sc.numbers.tolist(), fc=fc0.tolist()))
        # output obeys Phi(g i, g j) = R_g Phi(i, j) R_g^T for every operation (independent evaluation)
        Linv = np.linalg.inv(L)
        worst = 0.0
        for g in range(N):
            Rg = L @ rots[g] @ Linv  # Cartesian rotation
            pg = mapa[g]  # mapa[g][a] is the image of atom a: positions[mapa[g][a]] = R positions[a] + t
            rot_fc = np.einsum("ka,ijab,lb->ijkl", Rg, fc, Rg)
            worst = max(worst, np.abs(fc[np.ix_(pg, pg)] - rot_fc).max())
        if worst > 1e-8 * max(1.0, np.abs(fc0).max()):
            run.violation("set_tensor_symmetry_PJ", "output-not-invariant", "averaged force constants violate Phi(gi,gj)=R Phi(i,j) R^T by %.3g" % worst,
                          dict(cell=name, lattice=sc.cell.tolist(), positions=sc.scaled_positions.tolist(), numbers=sc.numbers.tolist(), fc=fc0.tolist()))
        inv = gen.pair_fc(sc, cutoff=0.45 * gen.min_lattice_vector(sc.cell))
        inv2 = inv.copy()
        set_tensor_symmetry_PJ(inv2, L, sc.scaled_positions, sym)
        if not _close(inv2, inv):
            run.violation("set_tensor_symmetry_PJ", "changes-invariant-input", "space-group-invariant force constants changed by %.3g" % np.abs(inv2 - inv).max(),
                          dict(lattice=sc.cell.tolist(), positions=sc.scaled_positions.tolist(), numbers=sc.numbers.tolist()))
        run.count("oracle-pj", section="oracle")
        done_pj += 1

    # ---------------- large arrays, thread counts
    _large_cases(run, rng, F, thorough)

    # ---------------- correspondence with the Lean model
    out = common.lean_run_driver("C07", lines)
    if len(out) != len(lines):
        run.broke("correspondence", "driver answered %d lines for %d requests" % (len(out), len(lines)))
    ncmp = 0
    for (kind, info, inp, impl, shape), line in zip(meta, out):
        if kind == "pjwf":
            run.count("pj-group-certificates", section="correspondence")
            if line != "true":
                run.broke("correspondence", "operation list fails the closure certificate pjWf (%s)" % line, info)
            continue
        if kind == "wf":
            run.count("wf-certificates", section="correspondence")
            if line != "true":
                # a statement about the model's assumption, not about behaviour: the layout/symmetriser oracles
                # above are the failing-input search
                run.broke("correspondence", "table certificate CTables.wf = %s on the implementation's tables" % line, info)
            continue
        if kind == "mktables":
            run.count("computed-tables (get_nsym_list_and_s2pp vs mkTables)", section="correspondence")
            tk = line.split()
            s2pp_i, nsym_i = impl
            if tk[:2] != ["true", "true"]:
                run.broke("correspondence", "Primitive's arrays fail the translation-group certificate / tables undefined in the model (%s)" % " ".join(tk[:2]), info)
                continue
            got = np.array([int(x) for x in tk[2:]])
            n_ = len(s2pp_i)
            # canonical comparison: the translation recorded for atom i is compared as a permutation of the atoms,
            # not as a row number (theorem nsym_choice_immaterial: any matching row acts identically)
            perms_i = np.array(info["perms"])
            same_action = len(got) == 2 * n_ and all(0 <= a < len(perms_i) for a in nsym_i) and (perms_i[nsym_i] == perms_i[got[n_:]]).all()
            if len(got) != 2 * n_ or (got[:n_] != s2pp_i).any() or not same_action:
                run.broke("correspondence", "get_nsym_list_and_s2pp differs from the model's mkTables",
                          dict(info=info, impl_s2pp=s2pp_i.tolist(), impl_nsym=nsym_i.tolist(), model=got.tolist()))
            continue
        if kind == "mktables-malformed":
            run.count("computed-tables malformed stream", section="correspondence")
            tk = line.split()
            model_err = "returns" if (len(tk) > 1 and tk[1] == "true") else "raises"
            if model_err != impl:
                run.broke("correspondence", "get_nsym_list_and_s2pp %s on a table with a missing translation, the model %s" % (impl, model_err), info)
            continue
        model = _parse(line, shape)
        ncmp += 1
        run.count(kind, section="correspondence")
        if model is None:
            run.broke("correspondence", "model rejected input (%s)" % kind, info)
            continue
        if not _close(impl, model):
            d = float(np.abs(impl - model).max())
            run.broke("correspondence", "%s: implementation differs from model by %.3g" % (kind, d),
                      dict(info=info, input=None if inp is None else inp.tolist()))
    run.cov["correspondence"]["compared"] = ncmp
    run.sample(dict(kind="full", request=lines[0][:200] + " ..."))
