"""C05 — shortest-vector tables are the complete set of minimum-image vectors."""

import contextlib
import io
import itertools
import warnings
from fractions import Fraction as Fr

import numpy as np

from .. import common, gen
from ..common import q

TOL = 1e-9
SYMPREC = 1e-5
GAP = 1e-3  # generated cases keep distinct lengths at least this far apart (else the case is skipped)


def fmat(m):
    return [[Fr(x) for x in r] for r in m]


def fmul(a, b):
    return [[sum(Fr(a[i][k]) * Fr(b[k][j]) for k in range(len(b))) for j in range(len(b[0]))] for i in range(len(a))]


def ftr(a):
    return [list(r) for r in zip(*a)]


def ffloat(m):
    return np.array([[float(x) for x in r] for r in m], dtype="double")


def qs(xs):
    return " ".join(q(x) for x in xs)


def flat(m):
    return [x for r in m for x in r]


def ints(a):
    return " ".join(str(int(x)) for x in np.array(a).ravel())


def quiet(f, *a, **k):
    buf = io.StringIO()
    with warnings.catch_warnings():
        warnings.simplefilter("ignore")
        with contextlib.redirect_stdout(buf):
            return f(*a, **k)


# --------------------------------------------------------------------------
# lattices with exactly known (rational) Gram matrices
# --------------------------------------------------------------------------

H = Fr(1, 2)


def bravais(rng):
    """(name, basis rows as Fractions or None, Gram as Fractions)"""
    a = Fr(rng.choice([2, 3, 4, 5]), rng.choice([1, 2]))
    b = a * Fr(rng.choice([5, 6, 7, 9]), 4)
    c = a * Fr(rng.choice([3, 7, 11, 13]), 5)
    kind = rng.choice(["cP", "cI", "cF", "tP", "tI", "oP", "oC", "oI", "oF", "hP", "hR", "mP", "mC", "aP"])
    z = Fr(0)
    if kind == "cP":
        B = [[a, z, z], [z, a, z], [z, z, a]]
    elif kind == "cI":
        B = [[-a * H, a * H, a * H], [a * H, -a * H, a * H], [a * H, a * H, -a * H]]
    elif kind == "cF":
        B = [[z, a * H, a * H], [a * H, z, a * H], [a * H, a * H, z]]
    elif kind == "tP":
        B = [[a, z, z], [z, a, z], [z, z, c]]
    elif kind == "tI":
        B = [[-a * H, a * H, c * H], [a * H, -a * H, c * H], [a * H, a * H, -c * H]]
    elif kind == "oP":
        B = [[a, z, z], [z, b, z], [z, z, c]]
    elif kind == "oC":
        B = [[a * H, b * H, z], [-a * H, b * H, z], [z, z, c]]
    elif kind == "oI":
        B = [[-a * H, b * H, c * H], [a * H, -b * H, c * H], [a * H, b * H, -c * H]]
    elif kind == "oF":
        B = [[z, b * H, c * H], [a * H, z, c * H], [a * H, b * H, z]]
    elif kind == "mP":
        s = Fr(rng.choice([-3, -2, -1, 1]), 8) * c
        B = [[a, z, z], [z, b, z], [s, z, c]]
    elif kind == "mC":
        s = Fr(rng.choice([-3, -2, -1, 1]), 8) * c
        B = [[a * H, b * H, z], [-a * H, b * H, z], [s, z, c]]
    elif kind == "aP":
        B = [[a, z, z], [Fr(rng.randint(-3, 3), 8) * a, b, z], [Fr(rng.randint(-3, 3), 8) * a, Fr(rng.randint(-3, 3), 8) * b, c]]
    if kind == "hP":
        G = [[a * a, -a * a * H, z], [-a * a * H, a * a, z], [z, z, c * c]]
        return kind, None, G, (a, a, c)
    if kind == "hR":
        co = Fr(rng.choice([-1, 1, 2, 3, -2]), rng.choice([5, 7, 8]))
        G = [[a * a, a * a * co, a * a * co], [a * a * co, a * a, a * a * co], [a * a * co, a * a * co, a * a]]
        return kind, None, G, None
    return kind, B, fmul(B, ftr(B)), (a, a if kind[0] in "ct" else b, a if kind[0] == "c" else c)


def random_unimodular(rng, strength):
    U = [[1, 0, 0], [0, 1, 0], [0, 0, 1]]
    for _ in range(rng.randint(1, 4)):
        i, j = rng.sample(range(3), 2)
        k = rng.randint(-strength, strength)
        E = [[1 if r == c else 0 for c in range(3)] for r in range(3)]
        E[i][j] = k
        U = [[sum(E[r][m] * U[m][c] for m in range(3)) for c in range(3)] for r in range(3)]
    if rng.random() < 0.3:
        p = rng.sample(range(3), 3)
        U = [U[p[0]], U[p[1]], U[p[2]]]
    return U


def make_lattice(rng, thorough):
    """dict(name, G exact, basis float rows)"""
    r = rng.random()
    if r < 0.2:
        while True:
            B = [[Fr(rng.randint(-12, 12), 8) for _ in range(3)] for _ in range(3)]
            for i in range(3):
                B[i][i] += 3
            if abs(np.linalg.det(ffloat(B))) > 4:
                break
        kind, G, conv = "random", fmul(B, ftr(B)), None
    else:
        kind, B, G, conv = bravais(rng)
    tags = [kind]
    # needle / plate: multiply one or two axes
    r = rng.random()
    if r < 0.35:
        n = rng.choice([2, 3, 5, 8, 13, 21, 34, 50] if rng.random() < 0.5 else [2, 3, 4, 6])
        ax = rng.sample(range(3), rng.choice([1, 2]))
        D = [[(n if (i == j and i in ax) else (1 if i == j else 0)) for j in range(3)] for i in range(3)]
        G = fmul(fmul(D, G), ftr(D))
        B = fmul(D, B) if B is not None else None
        tags.append("needle%d" % n if len(ax) == 1 else "plate%d" % n)
    # shear before reduction
    if rng.random() < 0.5:
        U = random_unimodular(rng, rng.choice([1, 2, 3, 6]))
        G = fmul(fmul(U, G), ftr(U))
        B = fmul(U, B) if B is not None else None
        tags.append("sheared")
    Gf = ffloat(G)
    basis = ffloat(B) if B is not None else np.linalg.cholesky(Gf)
    return dict(name="+".join(tags), G=G, basis=np.array(basis, dtype="double", order="C"), B=B, conv=conv)


SPECIAL = [Fr(0), H, Fr(1, 4), Fr(3, 4), Fr(1, 3), Fr(2, 3), Fr(1, 8), Fr(1, 6), Fr(5, 6), Fr(-1, 2), Fr(3, 2), Fr(1)]


def finv3(m):
    a = m
    det = (a[0][0] * (a[1][1] * a[2][2] - a[1][2] * a[2][1]) + a[0][1] * (a[1][2] * a[2][0] - a[1][0] * a[2][2])
           + a[0][2] * (a[1][0] * a[2][1] - a[1][1] * a[2][0]))
    adj = [[a[1][1] * a[2][2] - a[1][2] * a[2][1], a[0][2] * a[2][1] - a[0][1] * a[2][2], a[0][1] * a[1][2] - a[0][2] * a[1][1]],
           [a[1][2] * a[2][0] - a[1][0] * a[2][2], a[0][0] * a[2][2] - a[0][2] * a[2][0], a[0][2] * a[1][0] - a[0][0] * a[1][2]],
           [a[1][0] * a[2][1] - a[1][1] * a[2][0], a[0][1] * a[2][0] - a[0][0] * a[2][1], a[0][0] * a[1][1] - a[0][1] * a[1][0]]]
    return [[Fr(x) / det for x in r] for r in adj]


CART = [Fr(0), H, Fr(1, 4), Fr(3, 4), Fr(1, 8), Fr(3, 8), Fr(-1, 4), Fr(1)]


def make_positions(rng, n, lat):
    """first position: anywhere; the others: special separations from it (Wigner-Seitz faces, edges, corners) or random"""
    p0 = [Fr(rng.randint(-16, 31), 16) for _ in range(3)] if rng.random() < 0.5 else [Fr(0)] * 3
    out = [p0]
    Binv = finv3(lat["B"]) if lat["B"] is not None and lat["conv"] is not None else None
    while len(out) < n:
        r = rng.random()
        if r < 0.3 and Binv is not None:
            # a special point of the conventional cell in Cartesian coordinates -> exact fractional coordinates
            c = [lat["conv"][k] * rng.choice(CART) for k in range(3)]
            d = [sum(c[k] * Binv[k][l] for k in range(3)) for l in range(3)]
        elif r < 0.55:
            d = [rng.choice([Fr(0), H, -H, Fr(3, 2)]) for _ in range(3)]  # half a lattice vector: on a Wigner-Seitz face
        elif r < 0.8:
            d = [rng.choice(SPECIAL) for _ in range(3)]
        else:
            d = [Fr(rng.randint(-16, 31), 16) for _ in range(3)]
        out.append([p0[k] + d[k] for k in range(3)])
    return out


# --------------------------------------------------------------------------
# independent oracle (floats): exhaustive image enumeration in a validated reduced basis
# --------------------------------------------------------------------------

def exhaustive_minimum_images(basis, delta, red=None):
    """All minimum-length images of the separations `delta` (n,3 fractional wrt `basis` rows).

    Enumerates every lattice translation n with |n_i| <= ceil(rho |b*_i|) + 1 in a reduced basis
    (any unimodular change of basis is admissible: it is checked to be one), rho = length of the
    image reduced into [-1/2,1/2]^3.  Returns list over separations of (vectors in `basis` coordinates,
    near_tie flag)."""
    if red is None:
        red = basis
    M = red @ np.linalg.inv(basis)  # red = M basis
    Mi = np.rint(M)
    assert np.abs(M - Mi).max() < 1e-6 and abs(abs(np.linalg.det(Mi)) - 1) < 1e-9, "reduced basis is not a unimodular transform"
    Minv = np.linalg.inv(Mi)
    bstar = np.linalg.inv(red).T  # rows: dual vectors... columns of inv(red)
    bs = np.sqrt((np.linalg.inv(red) ** 2).sum(axis=0))
    out = []
    for d in delta:
        x = d @ Minv  # coordinates in the reduced basis: d basis = x red
        x0 = x - np.rint(x)
        rho = np.linalg.norm(x0 @ red) + 1e-9
        R = [int(np.ceil(rho * bs[i])) + 1 for i in range(3)]
        rng_ = [np.arange(-R[i], R[i] + 1) for i in range(3)]
        n = np.array(np.meshgrid(*rng_, indexing="ij")).reshape(3, -1).T
        v = (x0[None, :] + n)
        L = np.sqrt(((v @ red) ** 2).sum(axis=1))
        m = L.min()
        sel = L - m < SYMPREC
        others = L[~sel]
        near = bool(others.size and others.min() - m < GAP) or bool((L[sel] - m).max() > 1e-7)
        # back to `basis` coordinates: v red = (v Mi) basis
        out.append((v[sel] @ Mi, near, float(m)))
    return out


def same_set(a, b, scale):
    a = np.array(a, dtype="double").reshape(-1, 3)
    b = np.array(b, dtype="double").reshape(-1, 3)
    if len(a) != len(b):
        return False
    used = set()
    for v in a:
        dist = np.abs(b - v).max(axis=1)
        js = [j for j in np.where(dist < 1e-6 * scale)[0] if j not in used]
        if not js:
            return False
        used.add(js[0])
    return True


def images_near_minimum(basis, d, red, cutoff=1e-2):
    """Brute-force reference for the tolerance clause: every lattice image of the separation `d` (fractional wrt
    `basis`) whose LENGTH exceeds the minimum length by less than `cutoff`, as (vector in `basis` coordinates, excess)."""
    M = np.rint(red @ np.linalg.inv(basis))
    Minv = np.linalg.inv(M)
    bs = np.sqrt((np.linalg.inv(red) ** 2).sum(axis=0))
    x = d @ Minv
    x0 = x - np.rint(x)
    rho = np.linalg.norm(x0 @ red) + cutoff + 1e-9
    R = [int(np.ceil(rho * bs[i])) + 1 for i in range(3)]
    n = np.array(np.meshgrid(*[np.arange(-R[i], R[i] + 1) for i in range(3)], indexing="ij")).reshape(3, -1).T
    v = x0[None, :] + n
    L = np.sqrt(((v @ red) ** 2).sum(axis=1))
    m = L.min()
    sel = L - m < cutoff
    return v[sel] @ M, L[sel] - m, float(m)


def exact_reduced(G, pos, sfr, tmi):
    """exact reduced Gram matrix and exact reduced positions matching the implementation's rint choices (or None)"""
    tmi = np.array(tmi, dtype=int)
    tm = np.rint(np.linalg.inv(tmi)).astype(int)
    Gred = fmul(fmul(tmi.tolist(), G), ftr(tmi.tolist()))
    out = []
    for p, fl in zip(pos, sfr):
        e = [sum(Fr(p[m]) * int(tm[m][l]) for m in range(3)) for l in range(3)]
        sh = [round(float(e[l]) - fl[l]) for l in range(3)]
        e = [e[l] - sh[l] for l in range(3)]
        if max(abs(float(e[l]) - fl[l]) for l in range(3)) > 1e-9:
            return None
        out.append(e)
    return Gred, out


def tie_lattice(rng):
    """lattices for the near-tolerance stream: cubic / tetragonal / orthorhombic / hexagonal, short (3-5) and long (20-50) axes,
    optionally needle multiples and unimodular shears; returns dict like make_lattice plus tie separations"""
    z = Fr(0)
    kind = rng.choice(["cP", "cP", "tP", "oP", "cI", "cF", "hP"])
    a = Fr(rng.choice([3, 4, 5, 20, 35, 50]))
    b = a * Fr(rng.choice([5, 7]), 4)
    c = a * Fr(rng.choice([3, 7]), 5)
    if kind == "hP":
        B = None
        G = [[a * a, -a * a * H, z], [-a * a * H, a * a, z], [z, z, c * c]]
        ties = [[H, z, z], [z, z, H], [Fr(1, 3), Fr(2, 3), z], [Fr(1, 3), Fr(2, 3), H], [H, z, H]]
    else:
        if kind == "cP":
            B = [[a, z, z], [z, a, z], [z, z, a]]
        elif kind == "tP":
            B = [[a, z, z], [z, a, z], [z, z, c]]
        elif kind == "oP":
            B = [[a, z, z], [z, b, z], [z, z, c]]
        elif kind == "cI":
            B = [[-a * H, a * H, a * H], [a * H, -a * H, a * H], [a * H, a * H, -a * H]]
        else:
            B = [[z, a * H, a * H], [a * H, z, a * H], [a * H, a * H, z]]
        G = fmul(B, ftr(B))
        ties = [[H, z, z], [H, H, z], [H, H, H], [z, H, H], [z, z, H]]
    tags = [kind, "a=%d" % a]
    U = None
    if rng.random() < 0.3:
        n = rng.choice([2, 5, 13, 50] if a <= 5 else [2, 3])
        ax = rng.randrange(3)
        D = [[(n if (i == j and i == ax) else (1 if i == j else 0)) for j in range(3)] for i in range(3)]
        G = fmul(fmul(D, G), ftr(D))
        B = fmul(D, B) if B is not None else None
        tags.append("needle%d" % n)
    if rng.random() < 0.4:
        U = random_unimodular(rng, rng.choice([1, 2, 3]))
        G = fmul(fmul(U, G), ftr(U))
        B = fmul(U, B) if B is not None else None
        # separations are half lattice vectors / special points: transform fractional coordinates x -> x U^-1
        Ui = finv3([[Fr(x) for x in r] for r in U])
        ties = [[sum(t[k] * Ui[k][l] for k in range(3)) for l in range(3)] for t in ties]
        tags.append("sheared")
    Gf = ffloat(G)
    basis = ffloat(B) if B is not None else np.linalg.cholesky(Gf)
    return dict(name="+".join(tags), G=G, basis=np.array(basis, dtype="double", order="C"), ties=ties)


_GOMP = None


def set_threads(k):
    """omp_set_num_threads on the OpenMP runtime the kernels are linked against (as c13/c01 do); returns omp_get_max_threads()"""
    global _GOMP
    if _GOMP is None:
        import ctypes

        _GOMP = ctypes.CDLL("libgomp.so.1")
    _GOMP.omp_set_num_threads(int(k))
    return int(_GOMP.omp_get_max_threads())


def brute_force_all_pairs(basis, pos_to, pos_from, red):
    """vectorised exhaustive minimum-image search for all pairs: returns (excess lengths (nto,nfrom,M), vectors in `basis`
    coordinates (nto,nfrom,M,3)) over the M lattice translations of a box that contains every image within 1e-2 of the minimum"""
    M = np.rint(red @ np.linalg.inv(basis))
    assert abs(abs(np.linalg.det(M)) - 1) < 1e-9
    Minv = np.linalg.inv(M)
    bs = np.sqrt((np.linalg.inv(red) ** 2).sum(axis=0))
    d = (pos_to[:, None, :] - pos_from[None, :, :]) @ Minv
    x0 = d - np.rint(d)
    rho = np.sqrt(((x0 @ red) ** 2).sum(axis=2)).max() + 1e-2
    R = [int(np.ceil(rho * bs[i])) + 1 for i in range(3)]
    n = np.array(np.meshgrid(*[np.arange(-R[i], R[i] + 1) for i in range(3)], indexing="ij")).reshape(3, -1).T
    v = x0[:, :, None, :] + n[None, None, :, :]
    L = np.sqrt(((v @ red) ** 2).sum(axis=3))
    return L - L.min(axis=2, keepdims=True), v @ M


def reduced_inputs(run, C, basis, pos_to, pos_from, model_window, sp=None, tol=SYMPREC):
    """Inputs of the model derived from PUBLIC entry points only: the reduced basis from cells.get_reduced_bases (the public function
    ShortestPairs itself calls), the integer change of basis, the positions folded with x - rint(x), and the model's own 65-point
    window.  Returns (lattice_points, supercell_fracs, primitive_fracs, trans_mat_inv, reduced_bases) like the former private hook.
    If the private hook `ShortestPairs._transform_cell_basis` still exists its values are compared as an optional refinement."""
    red = np.array(C.get_reduced_bases(basis, tolerance=tol))
    tm = np.rint(np.dot(basis, np.linalg.inv(red))).astype(int)
    tmi = np.rint(np.linalg.inv(tm)).astype(int)
    sfr = np.dot(pos_to, tm)
    sfr = sfr - np.rint(sfr)
    pfr = np.dot(pos_from, tm)
    pfr = pfr - np.rint(pfr)
    hook = getattr(sp, "_transform_cell_basis", None) if sp is not None else None
    if sp is None:
        pass
    elif hook is None:
        run.count("intermediate hook unavailable: ShortestPairs._transform_cell_basis (inputs derived from public get_reduced_bases)")
    else:
        try:
            lp, sfr_h, pfr_h, tmi_h, red_h = quiet(hook, "int64")
            same = (np.array(lp).shape == model_window.shape and (np.array(lp) == model_window).all() and np.abs(sfr_h - sfr).max() < 1e-12
                    and np.abs(pfr_h - pfr).max() < 1e-12 and (np.array(tmi_h) == tmi).all() and np.abs(np.array(red_h) - red).max() < 1e-12)
            run.count("intermediate hook agrees with the public derivation" if same else "intermediate hook DIFFERS from the public derivation")
        except Exception as e:  # a changed private signature is not the property's business
            run.count("intermediate hook unavailable: ShortestPairs._transform_cell_basis (%s)" % type(e).__name__)
    return model_window, sfr, pfr, tmi, red


def main(run):
    rng = run.rng
    common.setup_phonopy("omp")
    from phonopy.structure import cells as C
    from phonopy.structure.cells import ShortestPairs, dense_to_sparse_svecs, get_primitive, get_smallest_vectors, get_supercell, sparse_to_dense_svecs

    thorough = run.tier == "thorough"
    run.proof_step(leancheck=thorough)
    run.cov["rule"] = (
        "lattices with exactly rational Gram matrices: the 14 Bravais types (primitive bases of the centred ones), random rational bases, "
        "needle/plate multiples (aspect up to 50), unimodular shears before reduction; positions from {0,1/2,1/4,1/3,...} (faces, edges, "
        "corners of the Wigner-Seitz cell, 8-fold body-centre ties), random k/16 and positions outside [0,1). get_smallest_vectors "
        "(dense and sparse kernels) and Primitive.get_smallest_vectors are compared with the Lean model's implShortest on the "
        "implementation's own reduced basis (exact integer transform of the rational Gram matrix), reduced positions and lattice points, "
        "and with specShortest (minimum over ALL lattice images, box proved complete); independently with a float exhaustive enumeration. "
        "Description invariance: the same supercell relabelled by gen.UNIMODULAR (left-handed, sheared, cyclic) must give the same Cartesian vector sets and "
        "multiplicities, dense and sparse. Cases with distinct lengths closer than 1e-3 are skipped (tolerance edge). Non-trivial = some pair with multiplicity > 1 or a "
        "sheared/needle/plate lattice; distinct by (Gram matrix, positions).")
    run.cov["trusted_base"] = [
        "Lean 4.33 kernel; Mathlib v4.33; axioms per theorem in coverage.theorems",
        "hand-written model Model/ShortestPairs.lean tied to c/phonopy.c and cells.py by this correspondence run",
        "lengths: the model compares exact squared lengths in the Gram matrix; the kernels compare sqrt of float sums with symprec=1e-5; "
        "generated cases keep distinct lengths >= 1e-3 apart",
        "spglib niggli_reduce is an input: its result is checked to be a unimodular transform of the supercell basis",
    ]
    run.assumptions += ["window completeness for all reduced lattices (FullStatement_window) is not proved; it is tested case by case against specShortest",
                        "float rounding of positions and lengths is outside the model",
                        "tolerance clause: the model's pairShortestTol decides |r| - min|r| < symprec exactly (tolerance_rule_is_in_length) on the "
                        "search window; completeness over all images under the tolerance is carried by the brute-force oracle of the near-tolerance "
                        "stream, with a factor-10 margin on both sides of symprec"]
    run.cov["partial"] = ["FullStatement_window: completeness of the 65-point search window for EVERY Niggli-reduced lattice is unproved; "
                          "window_complete_of_certificate makes it a theorem for each lattice whose decidable certificate windowCert passes "
                          "(evaluated in Lean on the implementation's reduced Gram matrix for every generated lattice, counted in "
                          "coverage.correspondence), all separations at once; otherwise the per-pair comparison with specShortest decides"]

    lines, meta = [], []
    wout = common.lean_run_driver("C05", ["window"])
    model_window = np.array([int(x) for x in wout[0].split()]).reshape(-1, 3)
    if model_window.shape != (65, 3):
        run.broke("correspondence", "model window is not 65 points")

    nlat = 10000 if thorough else 800
    wcap = 20000 if thorough else 3000  # largest box (lattice points) for which the per-lattice window certificate is evaluated
    win_checked = False
    made = 0
    attempts = 0
    while made < nlat and attempts < 4 * nlat:
        attempts += 1
        lat = make_lattice(rng, thorough)
        G, basis = lat["G"], lat["basis"]
        if np.abs(basis @ basis.T - ffloat(G)).max() > 1e-9 * np.abs(ffloat(G)).max():
            continue
        nto = rng.randint(2, 4)
        pos = make_positions(rng, nto, lat)
        nfrom = rng.randint(1, min(2, nto))
        pos_to = np.array([[float(x) for x in p] for p in pos], dtype="double", order="C")
        pos_from = np.array(pos_to[:nfrom], dtype="double", order="C")
        # ---------------- implementation, both storage formats
        try:
            sp = quiet(ShortestPairs, basis, pos_to, pos_from, store_dense_svecs=True, symprec=SYMPREC)
        except AssertionError:
            # _transform_cell_basis asserts that float inv() of the integer change of basis is integral to 1e-8;
            # for extreme shears (entries of the change of basis in the hundreds) rounding alone breaks that.
            red0 = C.get_reduced_bases(basis, tolerance=SYMPREC)
            tm0 = np.rint(basis @ np.linalg.inv(red0))
            if np.abs(tm0).max() > 64:
                run.count("extreme shear (|change of basis| > 64): implementation's float-inverse assertion fires; rejected, not mis-built")
                continue
            run.violation("get_smallest_vectors(store_dense_svecs=True)", "valid-lattice-rejected",
                          "AssertionError while reducing the cell for a moderate change of basis (max entry %d)" % np.abs(tm0).max(),
                          dict(lattice=lat["name"], basis=basis.tolist(), positions=[[str(x) for x in p] for p in pos], n_from=nfrom))
            continue
        dsv, dmu = sp.shortest_vectors, sp.multiplicities
        ssv, smu = quiet(get_smallest_vectors, basis, pos_to, pos_from, store_dense_svecs=False, symprec=SYMPREC)
        lp, sfr, pfr, tmi, red = reduced_inputs(run, C, basis, pos_to, pos_from, model_window, sp if not win_checked else None)
        win_checked = True
        # ---------------- oracle 1 (floats, independent of the model): exhaustive enumeration of all images
        delta = (pos_to[:, None, :] - pos_from[None, :, :]).reshape(-1, 3)
        ex = exhaustive_minimum_images(basis, delta, red=np.array(red))
        if any(e[1] for e in ex):
            run.count("skipped: lengths closer than 1e-3 (tolerance edge)")
            continue
        made += 1
        scale = max(1.0, float(np.abs(delta).max()) + 3)
        case = dict(lattice=lat["name"], basis=basis.tolist(), gram=[[str(x) for x in r] for r in G], positions=[[str(x) for x in p] for p in pos], n_from=nfrom)
        maxmult = 0
        bad = False
        for k, (vecs, _, mlen) in enumerate(ex):
            i, j = divmod(k, nfrom)
            m, adr = int(dmu[i, j, 0]), int(dmu[i, j, 1])
            maxmult = max(maxmult, len(vecs))
            got = dsv[adr:adr + m]
            run.count("oracle-exhaustive-images", section="oracle")
            if not same_set(got, vecs, scale):
                Lg = np.sqrt(((got @ basis) ** 2).sum(axis=1)) if len(got) else np.array([np.inf])
                kind = ("too-long" if Lg.min() > mlen + 1e-6 else ("tie-missing" if len(got) < len(vecs) else ("duplicate-or-extra")))
                run.violation("get_smallest_vectors(store_dense_svecs=True)", "not-minimum-images-" + kind,
                              "pair (%d,%d): stored %d vectors of length %.6g, exhaustive enumeration finds %d of length %.6g" % (i, j, m, Lg.min(), len(vecs), mlen),
                              dict(case, pair=[i, j]))
                bad = True
            gots = ssv[i, j, :int(smu[i, j])]
            if int(smu[i, j]) != m or not same_set(gots, got, scale):
                run.violation("get_smallest_vectors(store_dense_svecs=False)", "dense-ne-sparse", "pair (%d,%d): sparse and dense tables differ" % (i, j), dict(case, pair=[i, j]))
                bad = True
        # conversions
        d2s_v, d2s_m = dense_to_sparse_svecs(dsv, dmu)
        s2d_v, s2d_m = sparse_to_dense_svecs(ssv, smu)
        run.count("oracle-dense-sparse-conversion", section="oracle")
        conv_ok = (d2s_m == smu).all() and (s2d_m[:, :, 0] == dmu[:, :, 0]).all()
        if conv_ok:
            for i in range(dmu.shape[0]):
                for j in range(dmu.shape[1]):
                    m, adr = int(dmu[i, j, 0]), int(dmu[i, j, 1])
                    a2 = int(s2d_m[i, j, 1])
                    # end effect: reading a pair through either format and either converter gives the same set of vectors
                    if not (same_set(d2s_v[i, j, :m], dsv[adr:adr + m], scale) and same_set(s2d_v[a2:a2 + m], ssv[i, j, :m], scale)):
                        conv_ok = False
        if not conv_ok:
            run.violation("dense_to_sparse_svecs/sparse_to_dense_svecs", "dense-ne-sparse", "a pair read through the converted table is not the set the other kernel stores", case)
        # a dense table is (vectors, [count, address]) — the address column is part of the format: the same sets stored in
        # another block order, or read through a sub-selection / permutation of the rows of `multi`, are still the same sets,
        # and the converter must read them through the addresses (seeded change r7-c05: converter assumed consecutive storage)
        run.count("oracle-dense-sparse-conversion-readdressed", section="oracle")
        npair = dmu.shape[0] * dmu.shape[1]
        order = list(range(npair)); rng.shuffle(order)
        p_sv = np.zeros_like(dsv); p_mu = np.array(dmu)
        a = 0
        for k in order:
            i, j = divmod(k, dmu.shape[1])
            m, adr = int(dmu[i, j, 0]), int(dmu[i, j, 1])
            p_sv[a:a + m] = dsv[adr:adr + m]; p_mu[i, j, 1] = a; a += m
        rows = list(range(dmu.shape[0])); rng.shuffle(rows); rows = rows[:max(1, len(rows) - 1)]
        readdr_ok = True
        for tag, tv, tm, rowmap in (("blocks stored in another order", p_sv, p_mu, list(range(dmu.shape[0]))),
                                    ("rows of multi sub-selected and permuted", dsv, np.array(dmu[rows], order="C"), rows)):
            try:
                r_v, r_m = dense_to_sparse_svecs(tv, tm)
            except Exception as exc:  # noqa: BLE001
                run.violation("dense_to_sparse_svecs", "dense-ne-sparse", "a valid dense table (%s) is rejected: %r" % (tag, exc), dict(case, readdressed=tag))
                readdr_ok = False
                continue
            for ii, i0 in enumerate(rowmap):
                for j in range(dmu.shape[1]):
                    m, adr = int(dmu[i0, j, 0]), int(dmu[i0, j, 1])
                    if int(r_m[ii, j]) != m or not same_set(r_v[ii, j, :m], dsv[adr:adr + m], scale):
                        readdr_ok = False
            # correspondence: the model's `denseToSparse` on this very table (exact binary rationals), all 27 slots per pair
            if made % 4 == 1 or thorough:
                lines.append("d2s %d %s %d %s" % (len(tv), " ".join("%d/%d" % Fr(float(x)).as_integer_ratio() for x in np.array(tv).ravel()),
                                                 tm.shape[0] * tm.shape[1], ints(tm)))
                meta.append(("d2s", dict(case, readdressed=tag), (np.array(r_v), np.array(r_m))))
            if not readdr_ok:
                run.violation("dense_to_sparse_svecs", "dense-ne-sparse", "the sparse table converted from a dense table with %s holds other sets than the dense table read through its addresses" % tag, dict(case, readdressed=tag, rows=rows, block_order=order))
                break
        # representation only (not part of the statement): addresses as running sum of multiplicities, unused sparse slots zero
        if (np.cumsum(np.r_[0, dmu[:, :, 0].ravel()[:-1]]) == dmu[:, :, 1].ravel()).all():
            run.count("observation: dense addresses are the running sum of multiplicities")
        else:
            run.count("observation: dense addresses are NOT the running sum of multiplicities (sets still read correctly)")
        nontriv = maxmult > 1 or "sheared" in lat["name"] or "needle" in lat["name"] or "plate" in lat["name"]
        run.case((tuple(map(tuple, G)), tuple(map(tuple, pos)), nfrom), nontrivial=nontriv)
        run.count("lattice " + lat["name"].split("+")[0])
        for t in lat["name"].split("+")[1:]:
            run.count("modifier " + ("needle" if t.startswith("needle") else "plate" if t.startswith("plate") else t))
        run.count("max multiplicity %d" % maxmult)
        run.sample(dict(case, max_multiplicity=maxmult))
        # ---------------- model input: exact reduced Gram matrix, exact reduced positions
        tmi = np.array(tmi, dtype=int)
        tm = np.rint(np.linalg.inv(tmi)).astype(int)
        if abs(int(round(np.linalg.det(tmi)))) != 1 or np.abs(np.array(red) - tmi @ basis).max() > 1e-6 * np.abs(basis).max():
            run.broke("correspondence", "niggli_reduce did not return a unimodular transform of the supercell basis", case)
            continue
        Gred = fmul(fmul(tmi.tolist(), G), ftr(tmi.tolist()))
        exact_to = []
        ok = True
        for p, fl in zip(pos, sfr):
            e = [sum(Fr(p[m]) * int(tm[m][l]) for m in range(3)) for l in range(3)]
            sh = [round(float(e[l]) - fl[l]) for l in range(3)]
            e = [e[l] - sh[l] for l in range(3)]
            if max(abs(float(e[l]) - fl[l]) for l in range(3)) > 1e-9:
                ok = False
            exact_to.append(e)
        if not ok:
            run.broke("correspondence", "reduced positions of the implementation are not the exact reduced positions", case)
            continue
        exact_from = exact_to[:nfrom]
        if np.abs(np.array(pfr) - np.array(sfr)[:nfrom]).max() > 0:
            run.broke("correspondence", "primitive_fracs differ from the corresponding supercell_fracs", case)
        T = tmi.T  # what the Python layer hands to the kernel as trans_mat
        lines.append("pd " + qs(flat(Gred)))
        meta.append(("pd", case, None))
        if made % 5 == 0:  # the per-lattice certificate costs ~0.1-0.3 s in the interpreted driver
            lines.append("wincert %d %s" % (wcap, qs(flat(Gred))))
            meta.append(("wincert", case, None))
        lines.append("svecs %s %s %d %s %d %d %s %s" % (qs(flat(Gred)), ints(T), len(lp), ints(lp), nto, nfrom, qs(flat(exact_to)), qs(flat(exact_from))))
        meta.append(("svecs", case, (dsv, dmu, ssv, smu, scale)))
        # completeness oracle through the model's specShortest: every pair of the first `nspec` lattices, one pair afterwards
        pairs_for_spec = range(nto * nfrom) if (made % 3 == 0 or maxmult > 1) else [rng.randrange(nto * nfrom)]
        for k in pairs_for_spec:
            i, j = divmod(k, nfrom)
            d = [exact_to[i][l] - exact_from[j][l] for l in range(3)]
            lines.append("spec %s %s" % (qs(flat(Gred)), qs(d)))
            m, adr = int(dmu[i, j, 0]), int(dmu[i, j, 1])
            meta.append(("spec", dict(case, pair=[i, j]), (dsv[adr:adr + m], d, T, scale)))

    # ------------------------------------------------------------ near-tolerance stream (the clause "within the symmetry tolerance")
    # Tie configurations (2-, 3-, 4-, 8-fold) displaced so that the tied lengths split by at most symprec/10 (all images MUST be
    # stored) or by at least 10*symprec (the longer ones MUST NOT). Reference: brute-force enumeration with the criterion
    # |r| - min|r| < symprec in LENGTH. Images in the grey zone (symprec/10, 10*symprec) make the case undecided (skipped), so a
    # harmless change of the constant cannot alarm.
    INSIDE, OUTSIDE = SYMPREC / 10, SYMPREC * 10
    ntol = 1500 if thorough else 240
    done_tol = 0
    tries = 0
    while done_tol < ntol and tries < 6 * ntol:
        tries += 1
        lat = tie_lattice(rng)
        G, basis = lat["G"], lat["basis"]
        if np.abs(basis @ basis.T - ffloat(G)).max() > 1e-9 * np.abs(ffloat(G)).max():
            continue
        p0 = [Fr(rng.randint(0, 15), 16) for _ in range(3)] if rng.random() < 0.5 else [Fr(0)] * 3
        tie = rng.choice(lat["ties"])
        delta = rng.choice([1e-9, 1e-8, 1e-7, 1e-6, 1e-4, 1e-3])
        inside = delta <= 1e-6
        u = np.array([rng.gauss(0, 1) for _ in range(3)])
        u /= np.linalg.norm(u)
        # Cartesian displacement: half of delta for the must-store class (tied lengths then split by at most delta),
        # 2*delta for the must-not class (a generic direction splits them by a sizeable fraction of it)
        disp = (delta / 2 if inside else 2 * delta) * u @ np.linalg.inv(basis)
        eps = [Fr(float(x)) for x in disp]
        pos = [p0, [p0[k] + tie[k] + eps[k] for k in range(3)]]
        pos_to = np.array([[float(x) for x in p] for p in pos], dtype="double", order="C")
        pos_from = np.array(pos_to[:1], dtype="double", order="C")
        try:
            sp = quiet(ShortestPairs, basis, pos_to, pos_from, store_dense_svecs=True, symprec=SYMPREC)
        except AssertionError:
            continue
        dsv, dmu = sp.shortest_vectors, sp.multiplicities
        ssv, smu = quiet(get_smallest_vectors, basis, pos_to, pos_from, store_dense_svecs=False, symprec=SYMPREC)
        lp, sfr, pfr, tmi, red = reduced_inputs(run, C, basis, pos_to, pos_from, model_window)
        vecs, excess, mlen = images_near_minimum(basis, pos_to[1] - pos_to[0], np.array(red))
        if ((excess > INSIDE) & (excess < OUTSIDE)).any():
            run.count("near-tolerance: undecided (an image in the grey zone symprec/10 .. 10*symprec), skipped")
            continue
        must = vecs[excess <= INSIDE]
        near_in = int(((excess > 1e-12) & (excess <= INSIDE)).sum())
        near_out = int(((excess >= OUTSIDE)).sum())
        if inside and (near_in == 0 or len(must) < 2):
            continue
        if not inside and (near_out == 0 or len(vecs) < 2):
            continue
        done_tol += 1
        case = dict(lattice=lat["name"], basis=basis.tolist(), gram=[[str(x) for x in r] for r in G], positions=[[str(x) for x in p] for p in pos],
                    displacement=delta, expected_multiplicity=len(must), min_length=mlen, excess_lengths=[float(x) for x in excess])
        run.case(("near-tol", tuple(map(tuple, G)), tuple(map(tuple, pos))), nontrivial=True)
        run.count("near-tolerance %s delta=%g" % ("inside (must store)" if inside else "outside (must not store)", delta))
        run.count("near-tolerance expected multiplicity %d" % len(must))
        run.count("near-tolerance min length %s" % ("< 10" if mlen < 10 else ">= 10"))
        run.count("oracle-near-tolerance", section="oracle")
        scale = max(1.0, float(np.abs(vecs).max()) + 3)
        m, adr = int(dmu[1, 0, 0]), int(dmu[1, 0, 1])
        for site, got in (("get_smallest_vectors(store_dense_svecs=True)", dsv[adr:adr + m]),
                          ("get_smallest_vectors(store_dense_svecs=False)", ssv[1, 0, :int(smu[1, 0])])):
            if not same_set(got, must, scale):
                kl = "near-tie-missing" if len(got) < len(must) else "non-tie-stored"
                run.violation(site, kl, "separation displaced by %g from a tie configuration (%d images within 1e-2 of the minimum): stored %d vectors, "
                              "%d images are within symprec/10 of the minimum length %.6g (next excess %.3g)" % (delta, len(vecs), len(got), len(must), mlen,
                                                                               float(excess[excess > INSIDE].min()) if (excess > INSIDE).any() else float("nan")), case)
        # correspondence: the model's tolerance rule (exact, in length) on the implementation's reduced basis
        er = exact_reduced(G, pos, sfr, tmi)
        if er is None or abs(int(round(np.linalg.det(np.array(tmi))))) != 1:
            run.count("near-tolerance: exact reduction not recoverable (model skipped)")
            continue
        Gred, exact_to = er
        lines.append("svecstol %s %s %s %d %s %d %d %s %s" % (q(Fr(1, 100000)), qs(flat(Gred)), ints(np.array(tmi).T), len(lp), ints(lp), 2, 1,
                                                              qs(flat(exact_to)), qs(flat(exact_to[:1]))))
        meta.append(("svecstol", case, (dsv, dmu, scale)))
    run.cov["near_tolerance"] = ("tie configurations displaced by 1e-9..1e-6 (tied lengths within symprec/10: all must be stored) and 1e-4..1e-3 "
                                 "(excess >= 10*symprec: must not be stored); reference = brute-force enumeration with |r| - min|r| < symprec; "
                                 "cases with an image between symprec/10 and 10*symprec are skipped, so the check is insensitive to a change of "
                                 "the constant by less than a factor 10 but not to a change of the criterion (e.g. squared lengths)")

    # ------------------------------------------------------------ large calls (> 20000 pairs), 8 and 1 OpenMP threads
    # One call with ~170 x 170 positions through the public ShortestPairs / get_smallest_vectors path, dense and sparse, repeated
    # (thread races are not deterministic), compared pair by pair with a vectorised brute-force enumeration of all lattice images.
    # The Lean model is not evaluated at this size (the same kernels are compared with it on the small cases above).
    if common._STATE.get("variant") != "omp":
        run.broke("harness", "the OpenMP build of the kernels is not the active variant")
    Bl = np.array([[21.0, 0.0, 0.0], [3.0, 19.0, 0.0], [-2.5, 4.0, 24.0]])
    nbig = 168 + rng.randrange(6)
    half = [[(k >> 2 & 1) / 2.0, (k >> 1 & 1) / 2.0, (k & 1) / 2.0] for k in range(8)]
    pbig = np.array(half + [[rng.randint(0, 63) / 64.0 for _ in range(3)] for _ in range(nbig - 8)], dtype="double", order="C")
    redl = np.array(C.get_reduced_bases(Bl, tolerance=SYMPREC))
    excess, vall = brute_force_all_pairs(Bl, pbig, pbig, redl)
    sel = excess < SYMPREC
    grey = ((excess > SYMPREC / 10) & (excess < SYMPREC * 10)).any(axis=2)
    mexp = sel.sum(axis=2)
    run.cov["large_call"] = ("%d x %d = %d pairs in one call (threshold of interest: > 20000), sheared 21x19x24 cell, 8 half-grid points (ties up to 8) + random "
                             "k/64 positions; OpenMP threads 8 (3 repetitions) and 1; reference = vectorised numpy enumeration over %d lattice translations; "
                             "the Lean model is not evaluated at this size" % (nbig, nbig, nbig * nbig, excess.shape[2]))
    for threads, reps in ((8, 3), (1, 1)):
        got = set_threads(threads)
        if got != threads:
            run.broke("harness", "omp_set_num_threads(%d) not seen by the OpenMP library (omp_get_max_threads() = %d)" % (threads, got))
        for rep in range(reps):
            dsv, dmu = quiet(get_smallest_vectors, Bl, pbig, pbig, store_dense_svecs=True, symprec=SYMPREC)
            ssv, smu = quiet(get_smallest_vectors, Bl, pbig, pbig, store_dense_svecs=False, symprec=SYMPREC)
            run.case(("large", nbig, threads, rep), nontrivial=True)
            run.count("large call threads=%d" % threads)
            run.count("oracle-large-call-pairs", n=int((~grey).sum()) * 2, section="oracle")
            case = dict(basis=Bl.tolist(), n_positions=nbig, positions_seeded=True, threads=threads, repetition=rep, pairs=nbig * nbig)
            for name, mu_, getv in (("True", dmu[:, :, 0], lambda i, j: dsv[int(dmu[i, j, 1]):int(dmu[i, j, 1]) + int(dmu[i, j, 0])]),
                                    ("False", smu, lambda i, j: ssv[i, j, :int(smu[i, j])])):
                wrong = (np.array(mu_) != mexp) & ~grey
                nwrong = int(wrong.sum())
                first = None
                if nwrong:
                    first = [int(x) for x in np.argwhere(wrong)[0]]
                else:
                    # vectors: every pair (single images vectorised, ties pair by pair)
                    single = (mexp == 1) & ~grey
                    ii, jj = np.nonzero(single)
                    want1 = vall[ii, jj, sel[ii, jj].argmax(axis=1)]
                    got1 = dsv[dmu[ii, jj, 1]] if name == "True" else ssv[ii, jj, 0]
                    bad1 = np.abs(got1 - want1).max(axis=1) > 3e-5
                    nwrong += int(bad1.sum())
                    if bad1.any():
                        first = [int(ii[bad1][0]), int(jj[bad1][0])]
                    for i, j in np.argwhere((mexp > 1) & ~grey):
                        if not same_set(getv(i, j), vall[i, j][sel[i, j]], 30.0):
                            nwrong += 1
                            first = first or [int(i), int(j)]
                if nwrong:
                    i, j = first
                    run.violation("get_smallest_vectors(store_dense_svecs=%s)" % name, "not-minimum-images-large-call",
                                  "%d of %d pairs wrong in one call with %d OpenMP threads (first: pair (%d,%d) stores %d vectors, exhaustive "
                                  "enumeration finds %d minimum images)" % (nwrong, nbig * nbig, threads, i, j, int(np.array(mu_)[i, j]), int(mexp[i, j])),
                                  dict(case, pair=[i, j]))
            ok_ds = (smu == dmu[:, :, 0]).all()
            if ok_ds:
                for i, j in np.argwhere(mexp > 1):
                    m, adr = int(dmu[i, j, 0]), int(dmu[i, j, 1])
                    if not same_set(dsv[adr:adr + m], ssv[i, j, :m], 30.0):
                        ok_ds = False
                        break
            if not ok_ds:
                run.violation("get_smallest_vectors(store_dense_svecs=False)", "dense-ne-sparse-large-call",
                              "dense and sparse tables of one large call (%d threads) do not describe the same sets" % threads, case)
    set_threads(int(__import__("os").environ.get("OMP_NUM_THREADS", "4")))

    # ------------------------------------------------------------ description invariance (relabelled lattice vectors)
    # The same supercell and positions described with a'_i = sum_j M_ij a_j (gen.UNIMODULAR: left-handed for det -1, sheared,
    # cyclic), positions x' = x M^-1 in the same atom order: the Cartesian shortest-vector SETS and the multiplicities of every
    # pair must be the same, dense and sparse; the exhaustive-image oracle is also run on the relabelled description.
    tags = [rng.choice(["swap12", "negate3", "invert"]), rng.choice(["shear", "cyclic"]), rng.choice(list(gen.UNIMODULAR))] + (
        [rng.choice(list(gen.UNIMODULAR)) for _ in range(20)] if thorough else [])
    for tag in tags:
        for _try in range(20):
            lat = make_lattice(rng, thorough)
            basis = lat["basis"]
            pos = make_positions(rng, rng.randint(2, 4), lat)
            p_to = np.array([[float(x) for x in p] for p in pos], dtype="double", order="C")
            p_from = np.array(p_to[:1], dtype="double", order="C")
            red0 = np.array(C.get_reduced_bases(basis, tolerance=SYMPREC))
            ex = exhaustive_minimum_images(basis, (p_to[:, None, :] - p_from[None, :, :]).reshape(-1, 3), red=red0)
            if not any(e[1] for e in ex):
                break
        else:
            continue
        M = np.array(gen.UNIMODULAR[tag], dtype=int)
        Minv = np.rint(np.linalg.inv(M)).astype(int)
        basis2 = np.array(M @ basis, dtype="double", order="C")
        q_to = np.array(p_to @ Minv, dtype="double", order="C")
        q_from = np.array(q_to[:1], dtype="double", order="C")
        case = dict(lattice=lat["name"], basis=basis.tolist(), relabelling=tag, M=M.tolist(), positions=[[str(x) for x in p] for p in pos])
        run.case(("relabel", tag, tuple(map(tuple, lat["G"])), tuple(map(tuple, pos))), nontrivial=True)
        run.count("relabelled description %s" % tag)
        try:
            res = {}
            for dense in (True, False):
                res[("a", dense)] = quiet(get_smallest_vectors, basis, p_to, p_from, store_dense_svecs=dense, symprec=SYMPREC)
                res[("b", dense)] = quiet(get_smallest_vectors, basis2, q_to, q_from, store_dense_svecs=dense, symprec=SYMPREC)
        except AssertionError:
            run.count("relabelled description: extreme change of basis, implementation asserts (skipped)")
            continue
        red2 = np.array(C.get_reduced_bases(basis2, tolerance=SYMPREC))
        ex2 = exhaustive_minimum_images(basis2, (q_to[:, None, :] - q_from[None, :, :]).reshape(-1, 3), red=red2)
        scale = 30.0
        for k in range(len(p_to)):
            run.count("oracle-description-invariance", section="oracle")
            sets = {}
            for key, (sv, mu) in res.items():
                B = basis if key[0] == "a" else basis2
                if key[1]:
                    m, adr = int(mu[k, 0, 0]), int(mu[k, 0, 1])
                    sets[key] = sv[adr:adr + m] @ B
                else:
                    sets[key] = sv[k, 0, :int(mu[k, 0])] @ B
            want = ex2[k][0] @ basis2
            for key in sets:
                if key != ("a", True) and not same_set(sets[key], sets[("a", True)], scale):
                    run.violation("get_smallest_vectors(store_dense_svecs=%s)" % key[1], "description-dependent",
                                  "pair (%d,0): %d Cartesian shortest vectors in the %s description, %d in the original one, or different sets"
                                  % (k, len(sets[key]), "relabelled" if key[0] == "b" else "original (sparse)", len(sets[("a", True)])), dict(case, pair=[k, 0]))
                    break
            if not same_set(sets[("b", True)], want, scale):
                run.violation("get_smallest_vectors(store_dense_svecs=True)", "not-minimum-images-relabelled",
                              "pair (%d,0) of the relabelled (%s) description: stored vectors are not the exhaustive minimum images" % (k, tag), dict(case, pair=[k, 0]))

    # ------------------------------------------------------------ Primitive path with NON-DEFAULT symmetry tolerance
    # Two-sublattice cells whose second atom is displaced from a Wigner-Seitz corner/edge/face of the first, so that the tied image
    # lengths split by delta; Primitive(..., symprec=s) and Phonopy(..., symprec=s).primitive must store every image within s of the
    # minimum (delta <= s/10) and none beyond (delta >= 10 s) - the tolerance of the OBJECT, not the default 1e-5. Reference:
    # exhaustive enumeration with |r| - min|r| < s (pairs with an image between s/10 and 10 s are skipped), and the model's
    # tolerance rule (svecstol) with tol = s on the public reduced basis.
    from phonopy import Phonopy
    from phonopy.structure.atoms import PhonopyAtoms as _PA
    from phonopy.structure.cells import Primitive as _Prim

    sp_cases = [(1e-3, 1e-4), (1e-2, 1e-3), (1e-2, 1e-4), (1e-7, 1e-6), (1e-3, 1e-2)] + ([(1e-2, 1e-1), (1e-7, 1e-8), (1e-3, 3e-5)] if thorough else [])
    for s_tol, dlt in sp_cases:
        a = Fr(rng.choice([3, 4, 5]))
        cc = a * rng.choice([Fr(1), Fr(5, 4), Fr(3, 2)])
        Bx = [[a, Fr(0), Fr(0)], [Fr(0), a, Fr(0)], [Fr(0), Fr(0), cc]]
        basisu = ffloat(Bx)
        spot = rng.choice([[H, H, H], [H, H, Fr(0)], [H, Fr(0), Fr(0)], [Fr(0), H, H]])
        u = np.array([rng.gauss(0, 1) for _ in range(3)])
        u /= np.linalg.norm(u)
        eps = [Fr(float(x)) for x in (dlt / 2) * u @ np.linalg.inv(basisu)]
        upos = [[Fr(0)] * 3, [spot[k] + eps[k] for k in range(3)]]
        ucell = _PA(cell=basisu, symbols=["Cs", "Cl"], scaled_positions=np.array([[float(x) for x in p] for p in upos]))
        smat = rng.choice([np.eye(3, dtype=int), np.diag([2, 1, 1]), np.diag([2, 2, 1]), np.diag([2, 2, 2])])
        try:
            sc = quiet(get_supercell, ucell, smat, symprec=s_tol)
            objs = []
            for dense in (True, False):
                objs.append(("Primitive(symprec=%g).get_smallest_vectors" % s_tol, dense, quiet(_Prim, sc, np.linalg.inv(smat), symprec=s_tol, store_dense_svecs=dense)))
            ph = quiet(Phonopy, ucell, supercell_matrix=smat, primitive_matrix="P", symprec=s_tol, log_level=0)
            objs.append(("Phonopy(symprec=%g).primitive.get_smallest_vectors" % s_tol, True, ph.primitive))
            sc_api = ph.supercell
        except Exception as e:
            run.violation("Primitive(symprec=%g)" % s_tol, "valid-cell-rejected-symprec", "%s: %s" % (type(e).__name__, str(e)[:120]),
                          dict(basis=basisu.tolist(), positions=[[str(x) for x in p] for p in upos], supercell_matrix=smat.tolist(), symprec=s_tol))
            continue
        case = dict(basis=basisu.tolist(), positions=[[str(x) for x in p] for p in upos], supercell_matrix=smat.tolist(), symprec=s_tol, displacement=dlt)
        run.case(("prim-symprec", s_tol, dlt, tuple(map(tuple, upos)), smat.tolist()), nontrivial=True)
        run.count("Primitive path symprec=%g, tie split %g (%s)" % (s_tol, dlt, "must store" if dlt < s_tol else "must not store"))
        for site, dense, pr in objs:
            scx = sc_api if site.startswith("Phonopy") else sc
            p2s = np.array(pr.p2s_map)
            redx = np.array(C.get_reduced_bases(scx.cell, tolerance=s_tol))
            excess, vall = brute_force_all_pairs(scx.cell, scx.scaled_positions, scx.scaled_positions[p2s], redx)
            sel = excess < s_tol
            grey = ((excess > s_tol / 10) & (excess < s_tol * 10)).any(axis=2)
            sv, mu = pr.get_smallest_vectors()
            if not dense:
                sv, mu = sparse_to_dense_svecs(sv, mu)
            tmat = np.rint(scx.cell @ np.linalg.inv(pr.cell))
            nbad = 0
            first = None
            for i, j in np.argwhere(~grey):
                run.count("oracle-primitive-symprec", section="oracle")
                m, adr = int(mu[i, j, 0]), int(mu[i, j, 1])
                if not same_set(sv[adr:adr + m], vall[i, j][sel[i, j]] @ tmat, 30.0):
                    nbad += 1
                    first = first or (int(i), int(j), m, int(sel[i, j].sum()))
            if nbad:
                i, j, m, mw = first
                run.violation(site, "tolerance-not-honoured" + ("-tie-missing" if m < mw else "-non-tie-stored"),
                              "%d pairs wrong; pair (%d,%d) stores %d vectors, %d images lie within symprec=%g of the minimum length "
                              "(tied lengths split by about %g)" % (nbad, i, j, m, mw, s_tol, dlt), dict(case, dense=dense, pair=[i, j]))
        # the model's tolerance rule with tol = s on the first Primitive object (dense)
        pr = objs[0][2]
        p2s = np.array(pr.p2s_map)
        Gx = fmul(fmul(ftr([[int(x) for x in r] for r in smat]), fmul(Bx, ftr(Bx))), [[int(x) for x in r] for r in smat])
        Minv_s = np.linalg.inv(smat)
        px = []
        for k in range(len(sc)):
            # exact supercell positions: the implementation's float position is (lp + x_u) S^-T folded into [0,1)
            v = sc.scaled_positions[k]
            best = None
            for uu in range(2):
                for lpt in itertools.product(range(0, 3), repeat=3):
                    cand = [sum((Fr(lpt[m_]) + upos[uu][m_]) * Fr(int(round(Minv_s[l, m_] * 8)), 8) for m_ in range(3)) for l in range(3)]
                    cand = [x - (x.numerator // x.denominator) for x in cand]
                    if max(abs(float(cand[l]) - v[l]) for l in range(3)) < 1e-9:
                        best = cand
            px.append(best)
        if any(x is None for x in px):
            run.count("Primitive symprec stream: exact positions not recoverable (model skipped)")
            continue
        lp, sfr, pfr, tmi, redb = reduced_inputs(run, C, sc.cell, sc.scaled_positions, sc.scaled_positions[p2s], model_window, tol=s_tol)
        er = exact_reduced(Gx, px, sfr, tmi)
        if er is None:
            run.count("Primitive symprec stream: exact reduction not recoverable (model skipped)")
            continue
        Gred, exact_to = er
        tmat = np.rint(sc.cell @ np.linalg.inv(pr.cell)).astype(int)
        Ttot = tmat.T @ np.array(tmi).T
        sv, mu = pr.get_smallest_vectors()
        lines.append("svecstol %s %s %s %d %s %d %d %s %s" % (q(Fr(s_tol).limit_denominator(10 ** 9)), qs(flat(Gred)), ints(Ttot), len(lp), ints(lp), len(exact_to), len(p2s),
                                                              qs(flat(exact_to)), qs(flat([exact_to[k] for k in p2s]))))
        meta.append(("svecstol", dict(case, path="Primitive"), (sv, mu, 30.0)))


    # the same through Primitive.get_smallest_vectors(): relabelled supercell (same atom order) and primitive matrix M^-T P M^T
    from phonopy.structure.atoms import PhonopyAtoms
    from phonopy.structure.cells import get_primitive_matrix_by_centring as _pmc

    for tag in tags[:2] if not thorough else tags[:8]:
        name = rng.choice(["nacl", "bcc", "fcc", "hcp", "ortho_C", "cscl"])
        cell, cen = gen.make_cell(name)
        smat = rng.choice([np.diag([2, 1, 1]), np.array([[1, 1, 0], [0, 1, 0], [0, 0, 2]]), np.eye(3, dtype=int)])
        sc = quiet(get_supercell, cell, smat)
        pmat = np.linalg.inv(smat) @ _pmc(gen.PROTOTYPES[name][3])
        M = np.array(gen.UNIMODULAR[tag], dtype=int)
        Minv = np.rint(np.linalg.inv(M)).astype(int)
        sc2 = PhonopyAtoms(cell=M @ sc.cell, symbols=sc.symbols, scaled_positions=sc.scaled_positions @ Minv, masses=sc.masses)
        pmat2 = Minv.T @ pmat @ M.T
        red = np.array(C.get_reduced_bases(sc.cell, tolerance=SYMPREC))
        for dense in (True, False):
            try:
                pa = quiet(get_primitive, sc, pmat, store_dense_svecs=dense)
                pb = quiet(get_primitive, sc2, pmat2, store_dense_svecs=dense)
            except Exception as e:
                run.violation("get_primitive", "description-dependent", "relabelled (%s) supercell/primitive pair is rejected or the original one is: %s: %s"
                              % (tag, type(e).__name__, str(e)[:100]), dict(cell=name, supercell_matrix=smat.tolist(), relabelling=tag))
                break
            run.case(("relabel-prim", name, smat.tolist(), tag, dense), nontrivial=True)
            run.count("relabelled Primitive.get_smallest_vectors %s" % tag)
            if list(pa.p2s_map) != list(pb.p2s_map):
                run.count("relabelled Primitive: different representatives chosen (vector comparison not applicable)")
                continue
            (sva, mua), (svb, mub) = pa.get_smallest_vectors(), pb.get_smallest_vectors()
            if not dense:
                sva, mua = sparse_to_dense_svecs(sva, mua)
                svb, mub = sparse_to_dense_svecs(svb, mub)
            p2s = np.array(pa.p2s_map)
            ex = exhaustive_minimum_images(sc.cell, (sc.scaled_positions[:, None, :] - sc.scaled_positions[p2s][None, :, :]).reshape(-1, 3), red=red)
            for i in range(len(sc)):
                for j in range(len(p2s)):
                    if ex[i * len(p2s) + j][1]:
                        continue
                    run.count("oracle-description-invariance", section="oracle")
                    a = sva[int(mua[i, j, 1]):int(mua[i, j, 1]) + int(mua[i, j, 0])] @ pa.cell
                    b = svb[int(mub[i, j, 1]):int(mub[i, j, 1]) + int(mub[i, j, 0])] @ pb.cell
                    if not same_set(a, b, 30.0):
                        run.violation("Primitive.get_smallest_vectors", "description-dependent",
                                      "pair (%d,%d): %d Cartesian shortest vectors in the original description, %d in the relabelled (%s) one, or different sets"
                                      % (i, j, len(a), len(b), tag), dict(cell=name, supercell_matrix=smat.tolist(), relabelling=tag, dense=dense, pair=[i, j]))
                        break
                else:
                    continue
                break

    # ------------------------------------------------------------ Primitive.get_smallest_vectors
    names = ["sc", "cscl", "nacl_prim", "bcc", "fcc", "hcp", "zincblende_prim", "bct", "ortho_C", "mono_P", "triclinic", "rhombo", "nacl", "diamond", "wurtzite"]
    nprim = 200 if thorough else 40
    for _ in range(nprim):
        name = rng.choice(names)
        cell, cen = gen.make_cell(name)
        smat = rng.choice(gen.supercell_matrices(rng, max_det=4 if not thorough else 8, count=10))
        if len(cell) * int(round(np.linalg.det(smat))) > 40:
            continue
        pm = gen.PROTOTYPES[name][3]
        from phonopy.structure.cells import get_primitive_matrix_by_centring

        sc = quiet(get_supercell, cell, smat)
        pmat = np.linalg.inv(smat) @ get_primitive_matrix_by_centring(pm)
        for dense in (True, False):
            try:
                pr = quiet(get_primitive, sc, pmat, store_dense_svecs=dense)
            except Exception:
                run.count("primitive rejected")
                break
            sv, mu = pr.get_smallest_vectors()
            if not dense:
                sv, mu = sparse_to_dense_svecs(sv, mu)
            p2s = np.array(pr.p2s_map)
            delta = (sc.scaled_positions[:, None, :] - sc.scaled_positions[p2s][None, :, :]).reshape(-1, 3)
            red = C.get_reduced_bases(sc.cell, tolerance=SYMPREC)
            ex = exhaustive_minimum_images(sc.cell, delta, red=np.array(red))
            tmat = np.rint(sc.cell @ np.linalg.inv(pr.cell))
            run.case(("prim", name, smat.tolist(), dense), nontrivial=True)
            run.count("Primitive.get_smallest_vectors " + ("dense" if dense else "sparse"))
            anynear = False
            for k, (vecs, near, mlen) in enumerate(ex):
                if near:
                    anynear = True
                    run.count("skipped pair: lengths closer than 1e-3 (tolerance edge)")
                    continue
                i, j = divmod(k, len(p2s))
                m, adr = int(mu[i, j, 0]), int(mu[i, j, 1])
                run.count("oracle-exhaustive-images", section="oracle")
                if not same_set(sv[adr:adr + m], vecs @ tmat, 10.0):
                    run.violation("Primitive.get_smallest_vectors", "not-minimum-images",
                                  "pair (%d,%d): stored %d vectors, exhaustive enumeration finds %d of length %.6g" % (i, j, m, len(vecs), mlen),
                                  dict(cell=name, supercell_matrix=smat.tolist(), dense=dense, pair=[i, j]))
                    break
            # correspondence with the model (exact Gram matrix and positions recovered from the prototype)
            if anynear or not dense:
                continue
            # exact geometry: unit-cell Gram matrix snapped to 9 decimals (equal entries stay equal, zeros stay zero),
            # supercell Gram matrix = S^T G S exactly; the implementation's float lattice differs from it by < 1e-8
            Gf = sc.cell @ sc.cell.T
            Gu = [[Fr(repr(round(float(x), 9))) for x in r] for r in (cell.cell @ cell.cell.T)]
            Sx = [[int(x) for x in r] for r in smat]
            Gx = fmul(fmul(ftr(Sx), Gu), Sx)
            px = [[Fr(float(x)).limit_denominator(1200) for x in r] for r in sc.scaled_positions]
            if np.abs(ffloat(Gx) - Gf).max() > 1e-7 * np.abs(Gf).max() or np.abs(ffloat(px) - sc.scaled_positions).max() > 1e-12:
                run.count("Primitive path: Gram matrix/positions not recoverable as small rationals (model skipped)")
                continue
            lp, sfr, pfr, tmi, redb = reduced_inputs(run, C, sc.cell, sc.scaled_positions, sc.scaled_positions[p2s], model_window)
            tmi = np.array(tmi, dtype=int)
            tm = np.rint(np.linalg.inv(tmi)).astype(int)
            Gred = fmul(fmul(tmi.tolist(), Gx), ftr(tmi.tolist()))
            exact_to = []
            okp = True
            for pp, fl in zip(px, sfr):
                e = [sum(Fr(pp[m]) * int(tm[m][l]) for m in range(3)) for l in range(3)]
                sh = [round(float(e[l]) - fl[l]) for l in range(3)]
                e = [e[l] - sh[l] for l in range(3)]
                okp = okp and max(abs(float(e[l]) - fl[l]) for l in range(3)) < 1e-9
                exact_to.append(e)
            if not okp:
                run.count("Primitive path: reduced positions not recoverable (model skipped)")
                continue
            exact_from = [exact_to[k] for k in p2s]
            Ttot = (tmat.T.astype(int)) @ tmi.T
            info = dict(cell=name, supercell_matrix=smat.tolist(), path="Primitive.get_smallest_vectors")
            lines.append("pd " + qs(flat(Gred)))
            meta.append(("pd", info, None))
            lines.append("wincert %d %s" % (wcap, qs(flat(Gred))))
            meta.append(("wincert", info, None))
            lines.append("svecs %s %s %d %s %d %d %s %s" % (qs(flat(Gred)), ints(Ttot), len(lp), ints(lp), len(exact_to), len(exact_from),
                                                           qs(flat(exact_to)), qs(flat(exact_from))))
            smu0 = np.array(mu[:, :, 0], dtype="intc")
            ssv0, _ = dense_to_sparse_svecs(sv, mu)
            meta.append(("svecs", info, (sv, mu, ssv0, smu0, 10.0)))
            run.count("Primitive.get_smallest_vectors vs model")

    # ------------------------------------------------------------ the model
    out = common.lean_run_driver("C05", lines)
    if len(out) != len(lines):
        run.broke("correspondence", "driver answered %d lines for %d requests" % (len(out), len(lines)))
        return
    ncmp = 0
    for (kind, case, impl), o in zip(meta, out):
        if o == "bad-op":
            run.broke("correspondence", "model rejected request (%s)" % kind, str(case)[:300])
            continue
        ncmp += 1
        run.count(kind, section="correspondence")
        if kind == "window":
            pass
        elif kind == "pd":
            if o != "1":
                run.broke("correspondence", "reduced Gram matrix fails the isSymm/isPD certificate", case)
        elif kind == "svecs":
            dsv, dmu, ssv, smu, scale = impl
            tk = o.split()
            nv = int(tk[0])
            npair = dmu.shape[0] * dmu.shape[1]
            multi = np.array([int(x) for x in tk[1:1 + 2 * npair]]).reshape(dmu.shape)
            flag = tk[1 + 2 * npair]
            vec = np.array([float(Fr(x)) for x in tk[2 + 2 * npair:]]).reshape(-1, 3)
            if nv != len(dsv) or (multi[:, :, 0] != dmu[:, :, 0]).any() or (smu != dmu[:, :, 0]).any():
                run.broke("correspondence", "multiplicities differ from the model", dict(case, impl=dmu[:, :, 0].tolist(), sparse=np.array(smu).tolist(), model=multi[:, :, 0].tolist()))
                continue
            if flag != "same":
                run.broke("correspondence", "model: dense and sparse results are '%s'" % flag, case)
            # per pair, as sets (the order inside a pair and the address layout are representation, not statement)
            okd = oks = True
            for i in range(dmu.shape[0]):
                for j in range(dmu.shape[1]):
                    m, adr = int(dmu[i, j, 0]), int(dmu[i, j, 1])
                    ma = int(multi[i, j, 1])
                    want = vec[ma:ma + m]
                    if not same_set(dsv[adr:adr + m], want, scale * 1e-3):
                        okd = False
                    if not same_set(ssv[i, j, :m], want, scale * 1e-3):
                        oks = False
            if not okd:
                run.broke("correspondence", "dense shortest vectors differ from the model", case)
            if not oks:
                run.broke("correspondence", "sparse kernel differs from the model", case)
        elif kind == "d2s":
            r_v, r_m = impl
            tk = o.split()
            if tk[0] == "notwf":
                run.broke("correspondence", "model: the re-addressed dense table handed to dense_to_sparse_svecs is not well-formed", case)
                continue
            if tk[0] != "1":
                run.broke("correspondence", "model: sparseToDense (denseToSparse d) does not read like d (contradicts dense_sparse_roundtrip_any_table)", case)
            npair_ = r_m.shape[0] * r_m.shape[1]
            if len(tk) != 1 + npair_ * 82:
                run.broke("correspondence", "d2s: model answered %d tokens for %d pairs" % (len(tk), npair_), case)
                continue
            body = np.array(tk[1:], dtype=object).reshape(npair_, 82)
            mm_ = np.array([int(x) for x in body[:, 0]]).reshape(r_m.shape)
            vv_ = np.array([float(Fr(x)) for x in body[:, 1:].ravel()]).reshape(r_v.shape)
            if (mm_ != r_m).any() or not np.array_equal(vv_, r_v):
                run.broke("correspondence", "dense_to_sparse_svecs differs from the model's denseToSparse on a re-addressed dense table (%s)" % case.get("readdressed"), case)
        elif kind == "wincert":
            tk = o.split()
            run.count("reduced basis passes wellReduced" if tk[-1] == "1" else "reduced basis does NOT pass wellReduced", section="correspondence")
            if tk[0] == "1":
                run.count("window certificate passes: completeness is a theorem for this lattice, all separations", section="correspondence")
            elif tk[0] == "skip":
                run.count("window certificate not evaluated (box above the tier cap)", section="correspondence")
            else:
                run.count("window certificate inconclusive (per-pair specShortest comparison decides)", section="correspondence")
                run.sample(dict(kind="window certificate inconclusive", case=case), limit=8)
        elif kind == "svecstol":
            dsv, dmu, scale = impl
            tk = o.split()
            npair = dmu.shape[0] * dmu.shape[1]
            counts = [int(x) for x in tk[:npair]]
            vec = np.array([float(Fr(x)) for x in tk[npair:]]).reshape(-1, 3)
            if counts != [int(x) for x in dmu[:, :, 0].ravel()]:
                run.broke("correspondence", "near-tolerance: multiplicities %s differ from the model's tolerance rule %s" % (dmu[:, :, 0].ravel().tolist(), counts), case)
            else:
                k0 = 0
                for i in range(dmu.shape[0]):
                    for j in range(dmu.shape[1]):
                        m, adr = int(dmu[i, j, 0]), int(dmu[i, j, 1])
                        if not same_set(dsv[adr:adr + m], vec[k0:k0 + m], scale * 1e-3):
                            run.broke("correspondence", "near-tolerance: stored vectors of pair (%d,%d) differ from the model's tolerance rule" % (i, j), case)
                        k0 += m
        elif kind == "spec":
            got, d, T, scale = impl
            tk = o.split()
            if tk[0] == "notpd":
                run.broke("correspondence", "spec: Gram matrix not positive definite", case)
                continue
            cnt = int(tk[0])
            run.count("spec box points", n=int(tk[1]), section="correspondence")
            pts = np.array([int(x) for x in tk[2:]], dtype=float).reshape(-1, 3)
            dd = np.array([float(x) for x in d])
            want = (pts + dd) @ np.array(T, dtype=float).T  # T.mulVec v == v @ T.T
            run.count("oracle-specShortest (all images, proved box)", section="oracle")
            if cnt != len(got) or not same_set(got, want, scale):
                run.broke("correspondence", "implShortest (implementation) differs from specShortest: window incomplete or wrong", case)
                run.violation("get_smallest_vectors(store_dense_svecs=True)", "not-minimum-images-spec",
                              "stored %d vectors; the minimum over all lattice images (Lean specShortest) has %d" % (len(got), cnt), case)
    run.cov["correspondence"]["compared"] = ncmp
