"""C04 — supercell and primitive cell are exact re-tilings with consistent index maps."""

import contextlib
import io
import itertools
import warnings
from fractions import Fraction as Fr

import numpy as np

from .. import common, gen
from ..common import q

TOL = 1e-9
DTOL = 1e-6  # distances (the code's symprec is 1e-5; generated atoms are >= 1e-2 apart)

CENTRING = {
    "P": [[1, 0, 0], [0, 1, 0], [0, 0, 1]],
    "F": [[0, Fr(1, 2), Fr(1, 2)], [Fr(1, 2), 0, Fr(1, 2)], [Fr(1, 2), Fr(1, 2), 0]],
    "I": [[Fr(-1, 2), Fr(1, 2), Fr(1, 2)], [Fr(1, 2), Fr(-1, 2), Fr(1, 2)], [Fr(1, 2), Fr(1, 2), Fr(-1, 2)]],
    "A": [[1, 0, 0], [0, Fr(1, 2), Fr(-1, 2)], [0, Fr(1, 2), Fr(1, 2)]],
    "C": [[Fr(1, 2), Fr(1, 2), 0], [Fr(-1, 2), Fr(1, 2), 0], [0, 0, 1]],
    "R": [[Fr(2, 3), Fr(-1, 3), Fr(-1, 3)], [Fr(1, 3), Fr(1, 3), Fr(-2, 3)], [Fr(1, 3), Fr(1, 3), Fr(1, 3)]],
}


# --------------------------------------------------------------------------
# exact 3x3 helpers (Fractions)
# --------------------------------------------------------------------------

def fdet(m):
    return (m[0][0] * (m[1][1] * m[2][2] - m[1][2] * m[2][1]) + m[0][1] * (m[1][2] * m[2][0] - m[1][0] * m[2][2])
            + m[0][2] * (m[1][0] * m[2][1] - m[1][1] * m[2][0]))


def finv(m):
    d = Fr(fdet(m))
    a = m
    adj = [[a[1][1] * a[2][2] - a[1][2] * a[2][1], a[0][2] * a[2][1] - a[0][1] * a[2][2], a[0][1] * a[1][2] - a[0][2] * a[1][1]],
           [a[1][2] * a[2][0] - a[1][0] * a[2][2], a[0][0] * a[2][2] - a[0][2] * a[2][0], a[0][2] * a[1][0] - a[0][0] * a[1][2]],
           [a[1][0] * a[2][1] - a[1][1] * a[2][0], a[0][1] * a[2][0] - a[0][0] * a[2][1], a[0][0] * a[1][1] - a[0][1] * a[1][0]]]
    return [[Fr(x) / d for x in r] for r in adj]


def fmul(a, b):
    return [[sum(Fr(a[i][k]) * Fr(b[k][j]) for k in range(3)) for j in range(3)] for i in range(3)]


def ffloat(m):
    return np.array([[float(x) for x in r] for r in m], dtype="double")


def qs(xs):
    return " ".join(q(x) for x in xs)


def flat(m):
    return [x for r in m for x in r]


# --------------------------------------------------------------------------
# cells with exactly known (rational) positions
# --------------------------------------------------------------------------

def rational_cell(name, lat, symbols, pos, masses=None, magmoms=None, centring="P", labelled=False):
    from phonopy.structure.atoms import PhonopyAtoms

    orig = pos
    pos = [[Fr(x).limit_denominator(1200) if not isinstance(x, Fr) else x for x in p] for p in pos]
    assert all(abs(float(x) - float(y)) < 1e-12 for p, o in zip(pos, orig) for x, y in zip(p, o)), "prototype position is not a small rational"
    atoms = PhonopyAtoms(cell=np.array(lat, dtype="double"), symbols=list(symbols),
                         scaled_positions=np.array([[float(x) for x in p] for p in pos], dtype="double"),
                         masses=masses, magnetic_moments=magmoms)
    return dict(name=name, atoms=atoms, pos=pos, centring=centring, labelled=labelled)


def fixed_cells():
    out = []
    out.append(rational_cell("tric3", [[3.0, 0.25, 0], [0.5, 3.5, 0.125], [-0.375, 0.75, 4.0]], ["H", "He", "H"],
                             [[Fr(1, 16), Fr(1, 8), Fr(3, 16)], [Fr(7, 16), Fr(9, 16), Fr(5, 16)], [Fr(13, 16), Fr(3, 8), Fr(-5, 16)]],
                             masses=[1.0, 4.5, 2.0]))
    out.append(rational_cell("tric2mag", [[2.5, 0, 0.5], [-0.25, 3.0, 0], [0.125, -0.5, 3.5]], ["Fe", "Fe"],
                             [[Fr(0), Fr(0), Fr(0)], [Fr(1, 2), Fr(7, 16), Fr(9, 8)]], magmoms=[1.0, -1.0]))
    # extended symbols: index-labelled species of one element are different species (Cr1 != Cr2)
    cub = [[3.0, 0, 0], [0, 3.0, 0], [0, 0, 3.0]]
    body = [[0, 0, 0], [Fr(1, 2), Fr(1, 2), Fr(1, 2)]]
    out.append(rational_cell("lab_cr12", cub, ["Cr1", "Cr2"], body, masses=[52.0, 52.0], labelled=True))
    out.append(rational_cell("lab_cl_cl1", cub, ["Cl", "Cl1"], body, masses=[35.45, 35.45], labelled=True))
    out.append(rational_cell("lab_fe12_mag", cub, ["Fe1", "Fe2"], body, masses=[55.845, 55.845], magmoms=[1.0, -1.0], labelled=True))
    out.append(rational_cell("lab_cr12_dm", [[3.0, 0, 0], [0, 3.0, 0], [0, 0, 4.0]], ["Cr1", "Cr2"], body, masses=[52.0, 53.0], labelled=True))
    out.append(rational_cell("lab_cu_fcc", [[4.0, 0, 0], [0, 4.0, 0], [0, 0, 4.0]], ["Cu1", "Cu1", "Cu2", "Cu2"],
                             [[0, 0, 0], [0, Fr(1, 2), Fr(1, 2)], [Fr(1, 2), 0, Fr(1, 2)], [Fr(1, 2), Fr(1, 2), 0]], masses=[63.5] * 4, labelled=True))
    for nm in ["fcc", "bcc", "nacl_interleaved", "ortho_C", "ortho_A", "rhombo_hex", "diamond", "bct", "mono_C", "hcp", "cscl", "sc", "nacl"]:
        lat, sym, pos, cen = gen.PROTOTYPES[nm]
        out.append(rational_cell(nm, lat, sym, pos, centring=cen))
    return {c["name"]: c for c in out}


def random_rational_cell(rng, k):
    while True:
        lat = np.array([[rng.randint(-8, 8) / 8.0 for _ in range(3)] for _ in range(3)]) + np.diag([3.0, 3.5, 4.0])
        if abs(np.linalg.det(lat)) > 8:
            break
    natom = rng.randint(1, 4)
    pos = []
    while len(pos) < natom:
        p = [Fr(rng.randint(-8, 23), 16) for _ in range(3)]
        if all(max(abs(((a - b + Fr(1, 2)) % 1) - Fr(1, 2)) for a, b in zip(p, o)) >= Fr(1, 8) for o in pos):
            pos.append(p)
    pool = ["H", "O", "Si"]
    nsp = rng.randint(1, min(3, natom))
    syms = [pool[i % nsp] for i in range(natom)]
    rng.shuffle(syms)
    masses = [rng.choice([1.0, 2.0, 16.0, 28.5]) for _ in range(natom)] if rng.random() < 0.5 else None
    return rational_cell("rand%d" % k, lat, syms, pos, masses=masses)


# --------------------------------------------------------------------------
# supercell matrices
# --------------------------------------------------------------------------

def all_matrices(entries, detlo, dethi, absdet=False):
    out = []
    for e in itertools.product(entries, repeat=9):
        d = (e[0] * (e[4] * e[8] - e[5] * e[7]) + e[1] * (e[5] * e[6] - e[3] * e[8]) + e[2] * (e[3] * e[7] - e[4] * e[6]))
        dd = abs(d) if absdet else d
        if detlo <= dd <= dethi:
            out.append(np.array(e, dtype=int).reshape(3, 3))
    return out


# --------------------------------------------------------------------------
# the implementation, quietly
# --------------------------------------------------------------------------

def quiet(f, *a, **k):
    buf = io.StringIO()
    with warnings.catch_warnings():
        warnings.simplefilter("ignore")
        with contextlib.redirect_stdout(buf):
            return f(*a, **k)


def try_impl(f, *a, **k):
    """(result, None) or (None, exception)"""
    try:
        return quiet(f, *a, **k), None
    except (RuntimeError, ValueError, TypeError, AssertionError, np.linalg.LinAlgError, IndexError, ZeroDivisionError) as e:
        return None, e


# --------------------------------------------------------------------------
# property oracle on the implementation's objects (independent of the Lean model)
# --------------------------------------------------------------------------

def _attr_equal(a, b, i, j):
    if a.symbols[i] != b.symbols[j]:
        return "species"
    if (a.masses is None) != (b.masses is None) or (a.masses is not None and abs(a.masses[i] - b.masses[j]) > 1e-12):
        return "mass"
    ma, mb = a.magnetic_moments, b.magnetic_moments
    if (ma is None) != (mb is None) or (ma is not None and np.abs(np.array(ma[i]) - np.array(mb[j])).max() > 1e-12):
        return "magnetic moment"
    return None


def oracle_supercell(cell, S, sc):
    """Returns list of (class, text) failures of the tiling statement."""
    fails = []
    L = cell.cell
    S = np.array(S, dtype=int)
    det = int(round(np.linalg.det(S)))
    nu = len(cell)
    want = S.T @ L
    if np.abs(sc.cell - want).max() > 1e-8 * max(1.0, np.abs(want).max()):
        fails.append(("lattice-not-StL", "supercell lattice differs from S^T L by %.3g" % np.abs(sc.cell - want).max()))
    ns = len(sc)
    if ns != abs(det) * nu:
        fails.append(("atom-count", "%d atoms, expected |det S| * n = %d" % (ns, abs(det) * nu)))
        return fails
    N = ns // nu
    s2u = np.array(sc.s2u_map)
    u2s = np.array(sc.u2s_map)
    u2u = {int(k): int(v) for k, v in sc.u2u_map.items()}
    if len(u2s) != nu or len(set(int(x) for x in u2s)) != nu or u2u != {int(u2s[u]): u for u in range(nu)} or any(not 0 <= int(x) < ns for x in u2s):
        fails.append(("maps", "u2u_map is not the inverse of an injective u2s_map"))
        return fails
    if len(s2u) != ns or any(int(x) not in u2u for x in s2u):
        fails.append(("maps", "s2u_map has entries that are not unit-cell representatives"))
        return fails
    if any(s2u[u2s[u]] != u2s[u] for u in range(nu)):
        fails.append(("maps", "s2u(u2s u) != u2s u"))
    cart = sc.scaled_positions @ sc.cell
    ucart = cell.scaled_positions @ L
    Linv = np.linalg.inv(L)
    counts = [0] * nu
    for k in range(ns):
        u = u2u[int(s2u[k])]
        counts[u] += 1
        why = _attr_equal(sc, cell, k, u)
        if why:
            fails.append(("attribute", "supercell atom %d has a different %s than its unit-cell atom %d" % (k, why, u)))
            break
        v = (cart[k] - ucart[u]) @ Linv
        if np.abs(v - np.rint(v)).max() > DTOL:
            fails.append(("not-a-lattice-image", "supercell atom %d is not unit-cell atom %d plus a lattice vector (off by %.3g)" % (k, u, np.abs(v - np.rint(v)).max())))
            break
    if any(c != abs(det) for c in counts):
        fails.append(("image-count", "images per unit-cell atom %s, expected %d" % (counts, abs(det))))
    sp = sc.scaled_positions
    d = sp[:, None, :] - sp[None, :, :]
    d -= np.rint(d)
    dist = np.sqrt(((d @ sc.cell) ** 2).sum(axis=2))
    dist[np.arange(ns), np.arange(ns)] = 1.0
    if dist.min() < 1e-4:
        i, j = np.unravel_index(np.argmin(dist), dist.shape)
        fails.append(("duplicate", "supercell atoms %d and %d coincide modulo the supercell lattice" % (i, j)))
    return fails


def oracle_same_atoms(cell, S, a, b):
    """classic and SNF supercells: same multiset of (species, mass, moment, position mod S^T L)"""
    if len(a) != len(b):
        return [("classic-ne-snf", "classic has %d atoms, SNF %d" % (len(a), len(b)))]
    M = np.array(S, dtype=int).T @ cell.cell
    Minv = np.linalg.inv(M)
    ca = a.scaled_positions @ a.cell
    cb = b.scaled_positions @ b.cell
    used = set()
    for i in range(len(a)):
        d = (cb - ca[i]) @ Minv
        d -= np.rint(d)
        dist = np.sqrt(((d @ M) ** 2).sum(axis=1))
        js = [j for j in np.where(dist < 1e-4)[0] if j not in used and _attr_equal(a, b, i, j) is None]
        if len(js) != 1:
            return [("classic-ne-snf", "classic atom %d has %d partners in the SNF supercell (modulo S^T L)" % (i, len(js)))]
        used.add(js[0])
    return []


def oracle_primitive(sc, pmat, prim, full_closure=True):
    """sc: supercell (PhonopyAtoms), pmat: primitive axes relative to sc (float 3x3), prim: Primitive."""
    fails = []
    pmat = np.array(pmat, dtype="double")
    want = pmat.T @ sc.cell
    if np.abs(prim.cell - want).max() > 1e-8 * max(1.0, np.abs(want).max()):
        fails.append(("prim-lattice", "primitive lattice is not pmat^T * supercell lattice"))
    nt = int(round(1.0 / np.linalg.det(pmat)))
    ns, npa = len(sc), len(prim)
    if nt < 1 or ns != nt * npa:
        fails.append(("prim-count", "supercell %d atoms, primitive %d, index %d" % (ns, npa, nt)))
        return fails
    p2s = [int(x) for x in prim.p2s_map]
    s2p = [int(x) for x in prim.s2p_map]
    p2p = {int(k): int(v) for k, v in prim.p2p_map.items()}
    if p2p != {p2s[j]: j for j in range(npa)} or len(set(p2s)) != npa:
        fails.append(("prim-maps", "p2p_map is not the inverse of p2s_map"))
        return fails
    if len(s2p) != ns or any(x not in p2p for x in s2p) or any(s2p[p2s[j]] != p2s[j] for j in range(npa)):
        fails.append(("prim-maps", "s2p_map inconsistent with p2s_map"))
        return fails
    cart = sc.scaled_positions @ sc.cell
    pinv = np.linalg.inv(prim.cell)
    pcart = prim.scaled_positions @ prim.cell
    sub = {}
    for k in range(ns):
        r = s2p[k]
        sub.setdefault(r, []).append(k)
        why = _attr_equal(sc, sc, k, r) or _attr_equal(sc, prim, k, p2p[r])
        if why:
            fails.append(("prim-attribute", "supercell atom %d and its primitive atom differ in %s" % (k, why)))
            break
        v = (cart[k] - cart[r]) @ pinv
        if np.abs(v - np.rint(v)).max() > DTOL:
            fails.append(("prim-not-a-lattice-image", "supercell atom %d is not primitive atom %d plus a primitive lattice vector" % (k, r)))
            break
    for j in range(npa):
        v = (pcart[j] - cart[p2s[j]]) @ pinv
        if np.abs(v - np.rint(v)).max() > DTOL:
            fails.append(("prim-position", "primitive atom %d is not at the position of supercell atom %d" % (j, p2s[j])))
            break
    if any(len(v) != nt for v in sub.values()) or len(sub) != npa:
        fails.append(("prim-sublattice", "sublattice sizes %s, expected %d each" % ([len(v) for v in sub.values()], nt)))
        return fails
    perms = np.array(prim.atomic_permutations, dtype=int)
    if perms.shape != (nt, ns):
        fails.append(("perm-shape", "atomic_permutations has shape %s, expected (%d, %d)" % (perms.shape, nt, ns)))
        return fails
    rows = [tuple(int(x) for x in r) for r in perms]
    if any(sorted(r) != list(range(ns)) for r in rows):
        fails.append(("perm-not-permutation", "a row of atomic_permutations is not a permutation"))
        return fails
    rowset = set(rows)
    if len(rowset) != nt or tuple(range(ns)) not in rowset:
        fails.append(("perm-group", "translations are not distinct or the identity is missing"))
    for a in (rows if full_closure else rows[:6]):
        for b in (rows if full_closure else rows[:24]):
            if tuple(a[b[i]] for i in range(ns)) not in rowset:
                fails.append(("perm-group", "translation permutations are not closed under composition"))
                break
        else:
            continue
        break
    for r in rows:
        if any(_attr_equal(sc, sc, i, r[i]) for i in range(ns)):
            fails.append(("perm-species", "a stored translation permutation maps an atom onto an atom of a different species/mass/moment"))
            break
    sp = sc.scaled_positions
    for r in rows:
        d = sp[list(r)] - sp
        d -= d[0]
        d -= np.rint(d)
        if np.sqrt(((d @ sc.cell) ** 2).sum(axis=1)).max() > 1e-4:
            fails.append(("perm-not-translation", "a stored permutation is not a rigid translation of the supercell"))
            break
        t = (sp[r[0]] - sp[0]) @ sc.cell @ pinv
        if np.abs(t - np.rint(t)).max() > DTOL:
            fails.append(("perm-not-translation", "a stored translation is not a primitive lattice vector"))
            break
    for j in range(npa):
        img = [r[p2s[j]] for r in rows]
        if sorted(img) != sorted(sub[p2s[j]]):
            fails.append(("perm-not-simply-transitive", "translations do not act simply transitively on the sublattice of primitive atom %d" % j))
            break
    return fails


# --------------------------------------------------------------------------
# model wire format
# --------------------------------------------------------------------------

def line_supercell(c, S, old):
    return "supercell %d %s %s %d %s" % (1 if old else 0, qs(c["atoms"].cell.ravel()), " ".join(str(int(x)) for x in np.array(S).ravel()),
                                           len(c["pos"]), qs(x for p in c["pos"] for x in p))


def parse_supercell(line, nu):
    tk = line.split()
    if tk[0] != "ok":
        return dict(err=tk[1] if len(tk) > 1 else line)
    N, ns = int(tk[1]), int(tk[2])
    k = 3
    lat = np.array([float(Fr(x)) for x in tk[k:k + 9]]).reshape(3, 3)
    k += 9
    s2u = [int(x) for x in tk[k:k + ns]]
    k += ns
    u2s = [int(x) for x in tk[k:k + nu]]
    k += nu
    us, lps, pos = [], [], []
    for _ in range(ns):
        us.append(int(tk[k]))
        lps.append([int(x) for x in tk[k + 1:k + 4]])
        pos.append([Fr(x) for x in tk[k + 4:k + 7]])
        k += 7
    return dict(err=None, N=N, ns=ns, lattice=lat, s2u=s2u, u2s=u2s, u=us, lp=lps, pos=pos)


def line_primitive(spos, symnums, pm):
    return "primitive %d %s %s %s" % (len(spos), qs(x for p in spos for x in p), " ".join(map(str, symnums)), qs(flat(pm)))


def parse_primitive(line, ns):
    tk = line.split()
    if tk[0] != "ok":
        return dict(err=tk[1] if len(tk) > 1 else line)
    npa = int(tk[1])
    k = 2
    p2s = [int(x) for x in tk[k:k + npa]]
    k += npa
    s2p = [int(x) for x in tk[k:k + ns]]
    k += ns
    k += ns  # mapping table (internal)
    nt = int(tk[k])
    k += 1
    perms = [[int(x) for x in tk[k + t * ns:k + (t + 1) * ns]] for t in range(nt)]
    k += nt * ns
    pos = [[Fr(x) for x in tk[k + 3 * j:k + 3 * j + 3]] for j in range(npa)]
    return dict(err=None, p2s=p2s, s2p=s2p, perms=perms, pos=pos)


def posdiff(impl, model):
    m = np.array([[float(x) for x in p] for p in model], dtype="double")
    d = np.array(impl, dtype="double") - m
    d -= np.rint(d)
    return float(np.abs(d).max()) if d.size else 0.0


# --------------------------------------------------------------------------
# main
# --------------------------------------------------------------------------

def main(run):
    rng = run.rng
    common.setup_phonopy("omp")
    from phonopy import Phonopy
    from phonopy.structure.cells import get_primitive, get_supercell
    from phonopy.structure.snf import SNF3x3, Xgcd

    thorough = run.tier == "thorough"
    run.proof_step(leancheck=thorough)
    run.cov["rule"] = (
        "supercell matrices: every integer matrix with entries in {-1,0,1} and det 1..4 (quick; 5904 matrices, exhaustive) plus a seeded "
        "sample of those with entries in {-1,0,1,2}, |det| <= 8 and of random matrices with entries in [-5,5], |det| <= 12; thorough: ALL 192144 matrices with entries in {-1,0,1,2} and 1 <= |det| <= 8 "
        "through SNF3x3 and all 96072 with det 1..8 through both supercell constructions; each with the classic and "
        "the Smith-normal-form construction on cells with rational positions (denominators 16 for generated cells, <= 300 for prototypes; prototypes of all centrings and random "
        "triclinic cells with interleaved species, custom masses, magnetic moments, positions outside [0,1), index-labelled species of one "
        "element such as Cr1/Cr2 with equal and different masses); primitive matrices "
        "P/F/I/A/C/R/auto. Compared exactly with the Lean model: SNF D,P,Q, xgcd triples, index maps, permutations; positions as "
        "rationals (|d| <= 1e-9 modulo 1). The tiling statement itself is evaluated on every implementation result. "
        "Description invariance: left-handed / sheared / cyclically relabelled descriptions of centred prototypes (gen.UNIMODULAR) with pmat auto, "
        "centring letter and explicit matrix must tile and hold the same atoms. Symmetry tolerance: symprec in {1e-2,1e-3,1e-5,1e-7} on ideal cells whose supercell holds 54..256 primitive cells (must be built and tile). "
        "Non-trivial = supercell matrix not diagonal (or primitive index > 1 for primitive cases); distinct by (cell, matrix, route).")
    run.cov["trusted_base"] = [
        "Lean 4.33 kernel; Mathlib v4.33; axioms per theorem in coverage.theorems",
        "hand-written models Model/SNF.lean, Model/Supercell.lean tied to structure/snf.py and structure/cells.py by this correspondence run",
        "symprec comparisons are modelled by exact equality modulo 1; generated atoms are >= 1e-2 apart",
        "numpy int32/int64 arithmetic of snf.py is modelled over unbounded integers (no intermediate overflow for the matrices used)",
        "spglib supplies the transformation matrix for primitive_matrix='auto' (an input to the model)",
    ]
    run.assumptions += ["floating-point rounding of positions is outside the model (comparison modulo 1 with 1e-9)",
                        "Primitive shortest vectors are property C05, not checked here"]

    cells = fixed_cells()
    lines, meta = [], []

    # ------------------------------------------------------------ Xgcd, SNF3x3
    quick_mats = all_matrices((-1, 0, 1), 1, 4)
    snf_mats = list(quick_mats)
    big = []
    if thorough:
        big = all_matrices((-1, 0, 1, 2), 1, 8, absdet=True)  # bounded-exhaustive: 192144 matrices
        snf_mats = list(big)  # contains the quick set
    else:
        for _ in range(1500):
            while True:
                m = np.array([[rng.choice((-1, 0, 1, 2)) for _ in range(3)] for _ in range(3)])
                if 1 <= abs(int(round(np.linalg.det(m)))) <= 8:
                    break
            snf_mats.append(m)
    for _ in range(3000 if thorough else 300):
        while True:
            m = np.array([[rng.randint(-9, 9) for _ in range(3)] for _ in range(3)])
            if int(round(np.linalg.det(m))) != 0:
                break
        snf_mats.append(m)
    snf_mats.append(np.array([[-6, -4, -8], [0, 4, -8], [-4, 4, -1]]))  # corpus: D = diag(2,1,212), no divisibility chain
    for m in snf_mats:
        s = SNF3x3(m)
        quiet(s.run)
        lines.append("snf " + " ".join(str(int(x)) for x in m.ravel()))
        meta.append(("snf", m, (s.D, s.P, s.Q)))
        run.count("snf-matrices")
        # oracle on the implementation: D = P A Q, unimodular, diagonal, divisibility chain, product = |det|
        D, P, Q = (np.array(x, dtype=object) for x in (s.D, s.P, s.Q))
        A = np.array(m, dtype=object)
        d = [int(D[i, i]) for i in range(3)]
        okk = ((P.dot(A).dot(Q) == D).all() and all(D[i, j] == 0 for i in range(3) for j in range(3) if i != j)
               and fdet(P.tolist()) == 1 and abs(fdet(Q.tolist())) == 1 and all(x > 0 for x in d)
               and d[0] * d[1] * d[2] == abs(fdet(A.tolist())))
        chain = all(x > 0 for x in d) and d[1] % d[0] == 0 and d[2] % d[1] == 0
        meta[-1] = ("snf", m, (s.D, s.P, s.Q, chain))
        # the textbook chain d0|d1|d2 is not promised by SNF3x3 (docstring) and not needed by the supercell: only counted
        run.count("snf: divisibility chain d0|d1|d2 holds" if chain else "snf: divisibility chain d0|d1|d2 does NOT hold")
        run.count("oracle-snf", section="oracle")
        if not okk:
            # a statement about the mechanism (not the property's public end effect): the tiling oracle below decides
            run.broke("correspondence", "D,P,Q returned by SNF3x3 are not what its docstring promises (D = PAQ diagonal positive, unimodular P, Q)",
                      dict(A=m.tolist(), D=s.D.tolist(), P=s.P.tolist(), Q=s.Q.tolist()))
    for m in [np.zeros((3, 3), dtype=int), np.array([[0, 1, 1], [0, 2, 1], [0, 1, 3]]), np.array([[1, 2, 3], [2, 4, 6], [0, 0, 0]])]:
        # first column zero -> "Determinant is 0."; other singular matrices are outside the property (det != 0)
        s = SNF3x3(m)
        _, exc = try_impl(s.run)
        if (m[:, 0] == 0).all() and (m[0] == 0).all():
            lines.append("snf " + " ".join(str(int(x)) for x in m.ravel()))
            meta.append(("snf-reject", m, exc))
    nx = 3000 if thorough else 600
    for _ in range(nx):
        a = rng.randint(-60, 60) if rng.random() < 0.8 else rng.randint(-10 ** 6, 10 ** 6)
        b = rng.randint(-60, 60) if rng.random() < 0.8 else rng.randint(-10 ** 6, 10 ** 6)
        if b == 0:
            continue
        r, s_, t = (int(x) for x in quiet(Xgcd([a, b]).run))
        lines.append("xgcd %d %d" % (a, b))
        meta.append(("xgcd", (a, b), (r, s_, t)))
        run.count("xgcd-pairs")
        run.count("oracle-xgcd", section="oracle")
        if r != a * s_ + b * t or r == 0 or a % r or b % r or abs(r) != np.gcd(a, b):
            run.broke("correspondence", "Xgcd: r,s,t = %d,%d,%d is not a Bezout triple of (%d,%d)" % (r, s_, t, a, b), dict(a=a, b=b))

    # ------------------------------------------------------------ centring tables
    from phonopy.structure.cells import get_primitive_matrix_by_centring

    for cen in ("P", "F", "I", "A", "C", "R", "X"):
        lines.append("centring " + cen)
        meta.append(("centring", cen, get_primitive_matrix_by_centring(cen)))

    # ------------------------------------------------------------ supercells
    def do_supercell(c, S, with_model, prim=None, api=False):
        """both routes on one (cell, matrix); prim: centring letter / 'auto' / explicit matrix (relative to the unit cell)"""
        cell = c["atoms"]
        S = np.array(S, dtype=int)
        det = int(round(np.linalg.det(S)))
        scs = {}
        for old in (True, False):
            site = "get_supercell(is_old_style=%s)" % old
            sc, exc = try_impl(get_supercell, cell, S, is_old_style=old)
            run.case((c["name"], S.tolist(), old), nontrivial=bool((np.diag(np.diagonal(S)) != S).any()))
            run.count("cell %s" % c["name"])
            run.count("det=%d" % det)
            run.count("route classic" if old else "route snf")
            case = dict(cell=c["name"], lattice=cell.cell.tolist(), symbols=cell.symbols, positions=[[str(x) for x in p] for p in c["pos"]],
                        supercell_matrix=S.tolist(), is_old_style=old)
            if det > 0:
                run.count("oracle-tiling", section="oracle")
                if exc is not None:
                    kl = "tileable-input-rejected" + ("-negative-diagonal" if (not old and (np.diag(np.diagonal(S)) == S).all()) else "")
                    run.violation(site, kl, "a supercell matrix with det %d > 0 is rejected: %s: %s" % (det, type(exc).__name__, exc), case)
                else:
                    bad = oracle_supercell(cell, S, sc)
                    for kl, what in bad:
                        run.violation(site, kl, what, case)
                    scs[old] = sc
                    if with_model and not bad:
                        lines.append("stables %d %d %d %s %s" % (len(cell), len(sc), len(sc) // len(cell), " ".join(str(int(x)) for x in sc.s2u_map),
                                                                " ".join(str(int(x)) for x in sc.u2s_map)))
                        meta.append(("stables", dict(cell=c["name"], S=S.tolist(), old=old), None))
            else:
                # cannot be tiled with positive orientation (or singular): rejected, or - if built - correct
                run.count("oracle-reject", section="oracle")
                if exc is None and sc is not None and len(sc) > 0:
                    bad = oracle_supercell(cell, S, sc)
                    if bad:
                        run.violation(site, "untileable-input-misbuilt", "det %d: not rejected and %s" % (det, bad[0][1]), case)
                    else:
                        run.count("det<=0 built correctly")
                else:
                    run.count("det<=0 rejected")
            if with_model:
                lines.append(line_supercell(c, S, old))
                meta.append(("supercell", dict(cell=c["name"], S=S.tolist(), old=old, nu=len(cell)), (sc, exc)))
        if True in scs and False in scs:
            run.count("oracle-classic-eq-snf", section="oracle")
            for kl, what in oracle_same_atoms(cell, S, scs[True], scs[False]):
                run.violation("get_supercell(is_old_style=False)", kl, what,
                              dict(cell=c["name"], lattice=cell.cell.tolist(), positions=[[str(x) for x in p] for p in c["pos"]], supercell_matrix=S.tolist()))
        # certificate: lattice points of the implementation's atoms are a complete residue system (evaluated in Lean)
        if with_model and det > 0 and scs:
            s = SNF3x3(S)
            quiet(s.run)
            Pi = np.rint(np.linalg.inv(s.P)).astype(int)
            Qi = np.rint(np.linalg.inv(s.Q)).astype(int)
            lines.append("framecheck %s" % " ".join(" ".join(str(int(x)) for x in np.array(M).ravel()) for M in (S, s.D, s.P, Pi, s.Q, Qi)))
            meta.append(("framecheck", dict(S=S.tolist()), None))
            for old, sc in scs.items():
                if len(sc) != det * len(cell):
                    continue
                v = (sc.scaled_positions[:det] @ (S.T @ cell.cell) - cell.scaled_positions[0] @ cell.cell) @ np.linalg.inv(cell.cell)
                pts = np.rint(v).astype(int)
                lines.append("crs %s %s %s %s %s %s %d %s" % tuple(
                    [" ".join(str(int(x)) for x in np.array(M).ravel()) for M in (S, s.D, s.P, Pi, s.Q, Qi)] + [det, " ".join(str(int(x)) for x in pts.ravel())]))
                meta.append(("crs", dict(cell=c["name"], S=S.tolist(), old=old), None))
        # primitive
        if prim is not None and True in scs:
            do_primitive(c, S, scs, prim, with_model, api)
        return scs

    def do_primitive(c, S, scs, prim, with_model, api):
        cell = c["atoms"]
        Sinv = finv(S.tolist())
        auto = False
        if isinstance(prim, str) and prim == "auto":
            from phonopy.structure.cells import guess_primitive_matrix

            pmf, exc = try_impl(guess_primitive_matrix, cell)
            if exc is not None:
                run.count("auto-unavailable")
                return
            pmu = [[Fr(float(x)).limit_denominator(48) for x in r] for r in pmf]
            if np.abs(ffloat(pmu) - pmf).max() > 1e-9:
                run.count("auto-not-rational")
                return
            auto = True
        elif isinstance(prim, str):
            pmu = [[Fr(x) for x in r] for r in CENTRING[prim]]
        else:
            pmu = [[Fr(x) for x in r] for r in prim]
        pm = fmul(Sinv, pmu)  # relative to the supercell
        consistent = auto or not isinstance(prim, str) or prim == c["centring"] or prim == "P"
        if c.get("labelled"):
            # labels make the cell primitive: anything that folds labelled atoms together must be rejected
            consistent = (isinstance(prim, str) and prim == "P")
        for old, sc in scs.items():
            site = "get_primitive"
            pr, exc = try_impl(get_primitive, sc, ffloat(pm))
            tag = "auto" if auto else (prim if isinstance(prim, str) else "explicit")
            run.case((c["name"], S.tolist(), old, "prim", tag), nontrivial=fdet(pmu) != 1)
            run.count("primitive %s" % tag)
            case = dict(cell=c["name"], supercell_matrix=S.tolist(), is_old_style=old, primitive_matrix=[[str(x) for x in r] for r in pmu])
            run.count("oracle-primitive", section="oracle")
            if exc is not None:
                if consistent:
                    run.violation(site, "tileable-primitive-rejected", "primitive matrix %s consistent with the crystal is rejected: %s: %s" % (tag, type(exc).__name__, exc), case)
                else:
                    run.count("inconsistent primitive matrix rejected")
            else:
                bad = oracle_primitive(sc, ffloat(pm), pr)
                if not consistent and not bad:
                    run.count("inconsistent primitive matrix happened to tile")
                for kl, what in bad:
                    run.violation(site, kl if consistent else "untileable-primitive-misbuilt", what, case)
            if with_model and exc is None and len(sc) == len(pr) * len(pr.atomic_permutations):
                lines.append("ptables %d %d %d %s %s %s" % (len(pr), len(sc), len(pr.atomic_permutations), " ".join(str(int(x)) for x in pr.p2s_map),
                                                           " ".join(str(int(x)) for x in pr.s2p_map), " ".join(str(int(x)) for x in np.array(pr.atomic_permutations).ravel())))
                meta.append(("ptables", dict(cell=c["name"], S=S.tolist(), old=old, tag=tag, consistent=consistent), None))
            if with_model:
                meta.append(("primitive-pending", dict(cell=c["name"], S=S.tolist(), old=old, pm=pm, tag=tag), (sc, pr, exc)))
                lines.append(None)  # filled in once the model's exact supercell positions are known
        if api:
            for snf in (False, True):
                pmarg = "auto" if auto else (prim if isinstance(prim, str) else ffloat(pmu))
                ph, exc = try_impl(Phonopy, cell, supercell_matrix=S, primitive_matrix=pmarg, use_SNF_supercell=snf, log_level=0)
                run.count("oracle-api", section="oracle")
                case = dict(cell=c["name"], supercell_matrix=S.tolist(), use_SNF_supercell=snf, primitive_matrix=str(pmarg))
                if exc is not None:
                    if consistent:
                        run.violation("Phonopy.__init__", "tileable-input-rejected", "%s: %s" % (type(exc).__name__, exc), case)
                    continue
                for kl, what in oracle_supercell(cell, S, ph.supercell):
                    run.violation("Phonopy.supercell(use_SNF_supercell=%s)" % snf, kl, what, case)
                pmr = np.linalg.inv(S) @ (np.eye(3) if ph.primitive_matrix is None else ph.primitive_matrix)
                bad = oracle_primitive(ph.supercell, pmr, ph.primitive)
                for kl, what in bad:
                    run.violation("Phonopy.primitive", kl if consistent else "untileable-primitive-misbuilt", what, case)

    # (a) exhaustive small matrices on two cells, both routes; model on the first cell
    rcells = [random_rational_cell(rng, k) for k in range(6 if thorough else 2)]
    mats = list(quick_mats)
    for m in mats:
        do_supercell(cells["tric3"], m, with_model=True)
    for m in (mats if thorough else mats[rng.randrange(4)::4]):  # second cell: every fourth matrix in quick, all in thorough
        do_supercell(rcells[0], m, with_model=False)
    if thorough:
        # bounded-exhaustive: every matrix with entries in {-1,0,1,2} and det 1..8, both routes, tiling oracle
        nneg = 0
        for m in big:
            d = int(round(np.linalg.det(m)))
            if d > 0 and (np.abs(m) > 1).any():
                do_supercell(cells["tric2mag"], m, with_model=False)
            elif d < 0 and nneg < 3000 and rng.random() < 0.05:
                nneg += 1
                do_supercell(cells["tric2mag"], m, with_model=False)
    # (b) sampled larger matrices
    nbig = 6000 if thorough else 250
    pool = [cells[n] for n in ("tric3", "tric2mag", "cscl", "hcp", "nacl_interleaved")] + rcells
    for _ in range(nbig):
        while True:
            m = np.array([[rng.choice((-1, 0, 1, 2)) for _ in range(3)] for _ in range(3)])
            d = int(round(np.linalg.det(m)))
            if 1 <= abs(d) <= 8:
                break
        c = rng.choice(pool)
        if abs(d) * len(c["atoms"]) > 64:
            continue
        do_supercell(c, m, with_model=True)
    # wider entries: random matrices with entries in [-3,3] (and a few up to 5), |det| <= 12
    for _ in range(1500 if thorough else 150):
        lim = 3 if rng.random() < 0.8 else 5
        m = np.array([[rng.randint(-lim, lim) for _ in range(3)] for _ in range(3)])
        d = int(round(np.linalg.det(m)))
        c = rng.choice(pool)
        if d == 0 or abs(d) > 12 or abs(d) * len(c["atoms"]) > 64:
            continue
        run.count("wide-entry matrices")
        do_supercell(c, m, with_model=True)
    # diagonal, negative-entry and malformed stream
    for dg in [(1, 1, 1), (2, 1, 1), (1, 2, 3), (2, 2, 2), (-1, -1, 1), (-1, 1, -1), (1, -2, -1), (-1, 1, 1), (-2, -1, -1)]:
        do_supercell(cells["tric3"], np.diag(dg), with_model=True)
    for m in ([[1, 1, 0], [0, 1, 0], [1, 1, 0]], [[0, 0, 0], [0, 1, 0], [0, 0, 1]], [[1, 2, 3], [2, 4, 6], [1, 0, 1]], [[0, 1, 0], [1, 0, 0], [0, 0, 1]]):
        do_supercell(cells["tric3"], np.array(m), with_model=False)
    # (c) primitive cells: every centring with consistent and inconsistent crystals
    prim_cases = [("fcc", "F"), ("nacl", "F"), ("diamond", "F"), ("nacl_interleaved", "F"), ("bcc", "I"), ("bct", "I"), ("ortho_C", "C"), ("mono_C", "C"),
                  ("ortho_A", "A"), ("rhombo_hex", "R"), ("hcp", "P"), ("cscl", "P"), ("tric3", "P"), ("tric2mag", "P")]
    wrong = [("sc", "F"), ("sc", "I"), ("cscl", "I"), ("hcp", "C"), ("fcc", "I"), ("bcc", "F"), ("ortho_C", "A"), ("tric3", "R")]
    nprim = 8 if thorough else 4
    k = 0
    for name, cen in prim_cases:
        c = cells[name]
        smats = [np.eye(3, dtype=int), np.diag([2, 1, 1])] + gen.supercell_matrices(rng, max_det=4 if not thorough else 6, count=nprim)
        for S in smats:
            if int(round(np.linalg.det(S))) * len(c["atoms"]) > (48 if not thorough else 96):
                continue
            k += 1
            do_supercell(c, S, with_model=True, prim=cen, api=(k % 4 == 0))
            if cen != "P" and k % 3 == 0:
                do_supercell(c, S, with_model=False, prim="auto", api=(k % 6 == 0))
    for name, cen in wrong:
        c = cells[name]
        for S in [np.eye(3, dtype=int), np.diag([2, 2, 1]), np.array([[1, 1, 0], [0, 1, 0], [0, 0, 2]])]:
            do_supercell(c, S, with_model=True, prim=cen)
    # near-tolerance stream: positions off by 1e-7 (symprec is 1e-5) - only "rejected or correct" is asserted, no model comparison
    from phonopy.structure.atoms import PhonopyAtoms

    for name, cen in prim_cases[:8] if not thorough else prim_cases:
        c = cells[name]
        a0 = c["atoms"]
        noisy = PhonopyAtoms(cell=a0.cell, symbols=a0.symbols,
                             scaled_positions=a0.scaled_positions + np.array([[rng.uniform(-1e-7, 1e-7) for _ in range(3)] for _ in range(len(a0))]))
        for S in (np.diag([2, 1, 1]), np.array([[1, 1, 0], [0, 1, 0], [0, 0, 1]])):
            for old in (True, False):
                sc, exc = try_impl(get_supercell, noisy, S, is_old_style=old)
                run.count("near-tolerance stream")
                run.count("oracle-near-tolerance", section="oracle")
                case = dict(cell=name, noise="1e-7", supercell_matrix=S.tolist(), is_old_style=old)
                if exc is not None:
                    continue
                for kl, what in oracle_supercell(noisy, S, sc):
                    run.violation("get_supercell(is_old_style=%s)" % old, kl + "-near-tolerance", what, case)
                pmf = np.linalg.inv(S) @ ffloat(CENTRING[cen])
                pr, exc = try_impl(get_primitive, sc, pmf)
                if exc is None:
                    for kl, what in oracle_primitive(sc, pmf, pr):
                        run.violation("get_primitive", kl + "-near-tolerance", what, case)
    # labelled species of one element x primitive matrices that would merge them: rejected, or every map entry keeps the symbol
    for name in ("lab_cr12", "lab_cl_cl1", "lab_fe12_mag", "lab_cr12_dm", "lab_cu_fcc"):
        c = cells[name]
        prims = ["I", "P", "auto", CENTRING["I"]] if name != "lab_cu_fcc" else ["F", "I", "P", "auto", CENTRING["F"], CENTRING["C"]]
        for S in [np.eye(3, dtype=int), np.diag([2, 1, 1]), np.array([[1, 1, 0], [0, 1, 0], [0, 0, 2]]), np.array([[0, 1, 1], [1, 0, 1], [1, 1, 0]])]:
            for pmx in prims:
                if pmx == "auto" and c["atoms"].magnetic_moments is not None:
                    continue
                run.count("labelled-species cases")
                do_supercell(c, S, with_model=True, prim=pmx, api=(isinstance(pmx, str) and pmx != "auto"))
    # description invariance: the same crystal with relabelled lattice vectors a'_i = sum_j M_ij a_j (left-handed for det M = -1,
    # non-reduced for the shear), supercell matrix S' = M^-T S M^T of the same supercell lattice. Every description must tile
    # (supercell, primitive cell, index maps, classic = SNF) and both descriptions must hold the same atoms modulo the supercell lattice.
    def relabelled_rational(c, tag, M):
        M = np.array(M, dtype=int)
        Minv = np.rint(np.linalg.inv(M)).astype(int)
        a0 = c["atoms"]
        pos = [[sum(Fr(p[k]) * int(Minv[k][l]) for k in range(3)) for l in range(3)] for p in c["pos"]]
        pos = [[x - (x.numerator // x.denominator) for x in p] for p in pos]
        keep = tag in ("swap12", "negate3", "invert") or (tag == "cyclic" and c["centring"] in ("F", "I", "P"))
        return rational_cell(c["name"] + "@" + tag, M @ a0.cell, a0.symbols, pos, masses=None if a0.masses is None else list(a0.masses),
                             magmoms=a0.magnetic_moments, centring=c["centring"] if keep else "none"), M, Minv

    lefts = ["swap12", "negate3", "invert"]
    relab = [rng.choice(lefts), rng.choice(lefts), rng.choice(["shear", "cyclic"])] + ([rng.choice(list(gen.UNIMODULAR))] if thorough else [])
    rel_protos = ["nacl", "bcc", "mono_C", "fcc", "ortho_C", "bct"]
    rng.shuffle(rel_protos)
    for tag, name in zip(relab, rel_protos):
        c = cells[name]
        c2, M, Minv = relabelled_rational(c, tag, gen.UNIMODULAR[tag])
        cen = c["centring"]
        for S in (np.eye(3, dtype=int), np.array([[1, 1, 0], [0, 1, 0], [0, 0, 2]])):
            S2 = Minv.T @ S @ M.T
            if int(round(np.linalg.det(S))) * len(c["atoms"]) > 48:
                continue
            Pexp = fmul(fmul(Minv.T.tolist(), CENTRING[cen]), M.T.tolist())  # same primitive lattice, positive determinant
            prims = ["auto", Pexp] + ([cen] if c2["centring"] == cen else [])
            for pmx in prims:
                run.count("relabelled description %s" % tag)
                run.count("relabelled primitive %s" % (pmx if isinstance(pmx, str) else "explicit"))
                scs2 = do_supercell(c2, S2, with_model=True, prim=pmx, api=(pmx == "auto"))
            scs1 = {}
            for old in (True, False):
                sc1, exc1 = try_impl(get_supercell, c["atoms"], S, is_old_style=old)
                if exc1 is None:
                    scs1[old] = sc1
            for old in (True, False):
                if old in scs1 and old in scs2:
                    a, b = scs1[old], scs2[old]
                    run.count("oracle-description-invariance", section="oracle")
                    T = b.cell @ np.linalg.inv(a.cell)
                    bad = []
                    if np.abs(T - np.rint(T)).max() > 1e-8 or abs(abs(np.linalg.det(np.rint(T))) - 1) > 1e-8:
                        bad.append(("relabelled-lattice-differs", "the supercells of the two descriptions span different lattices"))
                    elif len(a) != len(b):
                        bad.append(("relabelled-atoms-differ", "%d vs %d atoms" % (len(a), len(b))))
                    else:
                        Lm = a.cell
                        Li = np.linalg.inv(Lm)
                        ca, cb = a.scaled_positions @ a.cell, b.scaled_positions @ b.cell
                        used = set()
                        for i in range(len(a)):
                            d = (cb - ca[i]) @ Li
                            d -= np.rint(d)
                            js = [j for j in np.where(np.sqrt(((d @ Lm) ** 2).sum(axis=1)) < 1e-4)[0] if j not in used and _attr_equal(a, b, i, j) is None]
                            if len(js) != 1:
                                bad.append(("relabelled-atoms-differ", "atom %d of the original description has %d partners in the relabelled one" % (i, len(js))))
                                break
                            used.add(js[0])
                    for kl, what in bad:
                        run.violation("get_supercell(is_old_style=%s)" % old, kl, what,
                                      dict(cell=name, relabelling=tag, M=M.tolist(), supercell_matrix=S.tolist(), relabelled_supercell_matrix=S2.tolist()))
    # symmetry-tolerance dimension: ideal (exactly rational) positions, supercells holding many primitive cells, symprec from
    # 1e-2 to 1e-7. A tileable ideal input must be BUILT and tile for every such symprec (noise is ~1e-16).
    tol_cases = [("fcc", "F", 3), ("bcc", "I", 3), ("sc", "P", 5), ("fcc", "auto", 3), ("bcc", "I", 4)] + ([("fcc", "F", 4)] if thorough or rng.random() < 0.5 else [("cscl", "P", 4)])
    for name, cen, n in tol_cases:
        c = cells[name]
        S = np.diag([n, n, n])
        for sp in (1e-2, 1e-3, 1e-5, 1e-7):
            old = rng.random() < 0.7
            sc, exc = try_impl(get_supercell, c["atoms"], S, is_old_style=old, symprec=sp)
            run.count("symprec stream symprec=%g" % sp)
            run.count("oracle-symprec", section="oracle")
            case = dict(cell=name, supercell_matrix=S.tolist(), is_old_style=old, primitive_matrix=cen, symprec=sp)
            run.case((name, n, cen, sp, old, "symprec"), nontrivial=True)
            if exc is not None:
                run.violation("get_supercell(is_old_style=%s)" % old, "tileable-input-rejected-symprec", "ideal cell, symprec=%g: %s: %s" % (sp, type(exc).__name__, exc), case)
                continue
            bad = oracle_supercell(c["atoms"], S, sc)
            for kl, what in bad:
                run.violation("get_supercell(is_old_style=%s)" % old, kl + "-symprec", what, case)
            if cen == "auto":
                from phonopy.structure.cells import guess_primitive_matrix

                pmu = quiet(guess_primitive_matrix, c["atoms"], symprec=sp)
            else:
                pmu = ffloat(CENTRING[cen])
            pmf = np.linalg.inv(S) @ pmu
            pr, exc = try_impl(get_primitive, sc, pmf, symprec=sp)
            if exc is not None:
                run.violation("get_primitive", "tileable-input-rejected-symprec",
                              "ideal %s %dx%dx%d, primitive matrix %s (supercell-relative determinant %.3g), symprec=%g: %s: %s"
                              % (name, n, n, n, cen, np.linalg.det(pmf), sp, type(exc).__name__, str(exc)[:120]), case)
                continue
            for kl, what in oracle_primitive(sc, pmf, pr, full_closure=len(sc) <= 64):
                run.violation("get_primitive", kl + "-symprec", what, case)
        if n == 3 and cen != "auto":
            for sp in (1e-2, 1e-7):
                ph, exc = try_impl(Phonopy, c["atoms"], supercell_matrix=S, primitive_matrix=cen, symprec=sp, log_level=0)
                run.count("oracle-symprec", section="oracle")
                case = dict(cell=name, supercell_matrix=S.tolist(), primitive_matrix=cen, symprec=sp, api="Phonopy")
                if exc is not None:
                    run.violation("Phonopy.__init__", "tileable-input-rejected-symprec", "ideal cell, symprec=%g: %s: %s" % (sp, type(exc).__name__, str(exc)[:120]), case)
                    continue
                pmr = np.linalg.inv(S) @ (np.eye(3) if ph.primitive_matrix is None else ph.primitive_matrix)
                for kl, what in oracle_supercell(c["atoms"], S, ph.supercell) + oracle_primitive(ph.supercell, pmr, ph.primitive, full_closure=False):
                    run.violation("Phonopy.primitive", kl + "-symprec", what, case)
    # explicit primitive matrices: unit cell = supercell of a smaller cell
    for S0 in ([[2, 0, 0], [0, 1, 0], [0, 0, 1]], [[1, 1, 0], [-1, 1, 0], [0, 0, 1]], [[1, 0, 1], [0, 2, 0], [0, 1, 1]]):
        base = cells["tric3"]
        sc0 = quiet(get_supercell, base["atoms"], np.array(S0))
        out0 = common.lean_run_driver("C04", [line_supercell(base, S0, True)])
        ps = parse_supercell(out0[0], len(base["atoms"]))
        if ps["err"] is None and len(sc0) == ps["ns"]:
            big = rational_cell("tric3x" + "".join(str(x) for r in S0 for x in r), sc0.cell, sc0.symbols, ps["pos"], masses=list(sc0.masses))
            do_supercell(big, np.diag([1, 1, 2]), with_model=True, prim=finv(S0))
            do_supercell(big, np.array([[1, 0, 0], [1, 1, 0], [0, 0, 1]]), with_model=True, prim=finv(S0))

    # ------------------------------------------------------------ run the model (two rounds: supercells first)
    idx1 = [i for i, l in enumerate(lines) if l is not None]
    out1 = common.lean_run_driver("C04", [lines[i] for i in idx1])
    if len(out1) != len(idx1):
        run.broke("correspondence", "driver answered %d lines for %d requests" % (len(out1), len(idx1)))
        return
    answers = {i: o for i, o in zip(idx1, out1)}
    ncmp = 0
    model_sc = {}
    for i in idx1:
        kind, info, impl = meta[i]
        o = answers[i]
        if o == "bad-op":
            run.broke("correspondence", "model rejected request (%s)" % kind, str(info)[:300])
            continue
        ncmp += 1
        run.count(kind, section="correspondence")
        if kind == "snf":
            tk = o.split()
            D, P, Q, chain = impl
            if tk[0] != "ok":
                run.broke("correspondence", "SNF3x3: model raises, implementation returns", dict(A=info.tolist()))
                continue
            v = [int(x) for x in tk[1:28]]
            if v != [int(x) for x in list(D.ravel()) + list(P.ravel()) + list(Q.ravel())]:
                run.broke("correspondence", "SNF3x3: D,P,Q differ from the model", dict(A=info.tolist(), impl=[D.tolist(), P.tolist(), Q.tolist()], model=v))
            if tk[28:31] != ["1", "1", "1"] or tk[32] != "1":
                run.broke("correspondence", "SNF model flags finished/xok/finOk/isSNF = %s %s" % (tk[28:31], tk[32]), dict(A=info.tolist()))
            if (tk[33] == "1") != chain:
                run.broke("correspondence", "SNF model and implementation disagree on the divisibility chain", dict(A=info.tolist()))
        elif kind == "snf-reject":
            if (o.split()[0] == "err") != (impl is not None):
                run.broke("correspondence", "SNF3x3 rejection differs from the model", dict(A=info.tolist(), model=o, impl=repr(impl)))
        elif kind == "xgcd":
            tk = o.split()
            if tuple(int(x) for x in tk[:3]) != impl or tk[3] != "1":
                run.broke("correspondence", "Xgcd differs from the model", dict(ab=info, impl=impl, model=o))
        elif kind == "crs":
            run.count("crs-certificates", section="correspondence")
            if o != "1":
                run.broke("correspondence", "isCompleteResidueSystem = false on the implementation's lattice points", info)
                run.violation("get_supercell(is_old_style=%s)" % info["old"], "not-a-complete-residue-system",
                              "lattice points of the images of atom 0 are not a complete irredundant system of Z^3/SZ^3", info)
        elif kind == "centring":
            if (o == "none") != (impl is None):
                run.broke("correspondence", "get_primitive_matrix_by_centring(%r): model %s, implementation %r" % (info, o, impl))
            elif impl is not None:
                mm = np.array([float(Fr(x)) for x in o.split()]).reshape(3, 3)
                if np.abs(mm - impl).max() > 1e-15 or abs(np.linalg.det(impl) * round(1 / np.linalg.det(impl)) - 1) > 1e-12:
                    run.broke("correspondence", "get_primitive_matrix_by_centring(%r) differs from the model's table" % info, dict(impl=impl.tolist(), model=o))
        elif kind == "framecheck":
            run.count("frame-certificates", section="correspondence")
            if o != "1":
                run.broke("correspondence", "frameComplete = false: the surrounding frame of the classic route misses a residue class", info)
        elif kind == "stables":
            run.count("table-certificates", section="correspondence")
            if o != "1":
                # the certificate fixes the index layout u2s[u] = u*N (representation); the end effect is checked by oracle_supercell
                run.broke("correspondence", "STables.wf = false on the implementation's s2u/u2s maps", info)
        elif kind == "ptables":
            run.count("table-certificates", section="correspondence")
            if o != "11" and info["consistent"]:
                run.broke("correspondence", "PTables.wf/wfSmall = %s on the implementation's p2s/s2p/atomic_permutations" % o, info)
                run.violation("get_primitive", "perm-group", "primitive tables fail the well-formedness certificate", info)
        elif kind == "supercell":
            sc, exc = impl
            ps = parse_supercell(o, info["nu"])
            model_sc[(info["cell"], str(info["S"]), info["old"])] = ps
            if (ps["err"] is not None) != (exc is not None or sc is None or len(sc) == 0):
                run.broke("correspondence", "get_supercell: model %s, implementation %s" % (ps["err"] or "builds", "raises %r" % exc if exc is not None else "builds"), info)
                continue
            if ps["err"] is not None:
                run.count("supercell both reject", section="correspondence")
                continue
            if ps["ns"] != len(sc) or ps["s2u"] != [int(x) for x in sc.s2u_map] or ps["u2s"] != [int(x) for x in sc.u2s_map]:
                run.broke("correspondence", "get_supercell: atom count / s2u / u2s differ from the model", info)
                continue
            if np.abs(ps["lattice"] - sc.cell).max() > TOL * max(1.0, np.abs(sc.cell).max()):
                run.broke("correspondence", "get_supercell: lattice differs from the model's S^T L by %.3g" % np.abs(ps["lattice"] - sc.cell).max(), info)
            dd = posdiff(sc.scaled_positions, ps["pos"])
            if dd > TOL:
                run.broke("correspondence", "get_supercell: positions differ from the model by %.3g (mod 1)" % dd, info)
    # second round: primitive cells on the model's exact supercell positions
    lines2, meta2 = [], []
    for i, l in enumerate(lines):
        if l is not None:
            continue
        kind, info, (sc, pr, exc) = meta[i]
        ps = model_sc.get((info["cell"], str(info["S"]), info["old"]))
        if ps is None or ps["err"] is not None or ps["ns"] != len(sc) or posdiff(sc.scaled_positions, ps["pos"]) > TOL:
            run.count("primitive skipped (supercell mismatch)", section="correspondence")
            continue
        symid = {}
        nums = [symid.setdefault(x, len(symid)) for x in sc.symbols]  # extended symbols ('Cr1' != 'Cr2'), as the code compares them
        # species, mass and moment together decide `symbols` only through the symbol: the code compares symbols
        lines2.append(line_primitive(ps["pos"], nums, info["pm"]))
        meta2.append((info, sc, pr, exc))
    out2 = common.lean_run_driver("C04", lines2) if lines2 else []
    if len(out2) != len(lines2):
        run.broke("correspondence", "driver answered %d lines for %d requests (primitive)" % (len(out2), len(lines2)))
        return
    for (info, sc, pr, exc), o in zip(meta2, out2):
        ncmp += 1
        run.count("primitive", section="correspondence")
        info = dict(cell=info["cell"], S=info["S"], old=info["old"], tag=info["tag"], pm=[[str(x) for x in r] for r in info["pm"]])
        if o == "bad-op":
            run.broke("correspondence", "model rejected request (primitive)", info)
            continue
        pp = parse_primitive(o, len(sc))
        if (pp["err"] is not None) != (exc is not None):
            run.broke("correspondence", "get_primitive: model %s, implementation %s" % (pp["err"] or "builds", "raises %r" % exc if exc is not None else "builds"), info)
            continue
        if pp["err"] is not None:
            run.count("primitive both reject", section="correspondence")
            continue
        if pp["p2s"] != [int(x) for x in pr.p2s_map] or pp["s2p"] != [int(x) for x in pr.s2p_map]:
            run.broke("correspondence", "get_primitive: p2s/s2p differ from the model", info)
            continue
        if pp["perms"] != [[int(x) for x in r] for r in pr.atomic_permutations]:
            run.broke("correspondence", "get_primitive: atomic_permutations differ from the model", info)
        dd = posdiff(pr.scaled_positions, pp["pos"])
        if dd > TOL:
            run.broke("correspondence", "get_primitive: positions differ from the model by %.3g (mod 1)" % dd, info)
    run.cov["correspondence"]["compared"] = ncmp
    run.cov["exhaustive"] = False
    run.cov["exhaustive_part"] = ("all %d integer matrices with entries in {-1,0,1} and det 1..4, both routes (a second cell on every fourth in quick, all in thorough)" % len(quick_mats)
                                  + ("; all %d matrices with entries in {-1,0,1,2}, 1<=|det|<=8 (SNF3x3), det 1..8 (supercells)" % len(big) if thorough else ""))
    run.cov["partial"] = [
        "FullStatement_snf_flags: that the two ignored _first()/_second() results inside _finalize are always True (finOk) is not a theorem; "
        "snf_result (diagonal, positive, product = |det|, unimodular) is conditional on finished/xok/finOk, which the run checks on every "
        "matrix; termination (snf_terminates) and xok for divisors <= 1000 (xgcd_terminates) are theorems",
        "trim_exact for the classic route (the sequential overlap removal keeps one atom per class) is carried by the residue-system "
        "certificate evaluated on the implementation's atoms; completeness of the frame itself is a theorem (frame_complete)",
        "the textbook divisibility chain is false for this algorithm (snf_divisibility_chain_counterexample) and not needed",
    ]
    run.sample(dict(kind="supercell", request=next(l for l in lines if l and l.startswith("supercell"))[:300]))
    run.sample(dict(kind="snf", request=lines[0]))
    if lines2:
        run.sample(dict(kind="primitive", request=lines2[0][:300] + " ..."))
