"""C12 — group velocities and Grueneisen parameters are true derivatives of the spectrum."""

import os
import re
import warnings
from fractions import Fraction

import numpy as np

from .. import common, gen
from ..common import q as Q

TOL = 1e-9          # model vs implementation
TOL_NUM = 2e-6      # numerical derivative (Richardson, 3 levels) vs analytic derivative, relative to scale
GAP = 0.05          # THz: modes closer than this to another band are skipped in the frequency-gradient oracle
FMIN = 0.05         # THz: modes below this are skipped there as well

SITE_C = "DerivativeOfDynamicalMatrix.run(lang='C')"
SITE_PY = "DerivativeOfDynamicalMatrix.run(lang='Py')"

CELLS = ["sc1", "cscl", "nacl_prim", "zincblende_prim", "hcp", "tri1", "triclinic", "mono_P", "rhombo", "bct"]


def make_cell(name):
    from phonopy.structure.atoms import PhonopyAtoms

    if name == "sc1":
        return PhonopyAtoms(cell=np.diag([3.0, 3.0, 3.0]), symbols=["Cu"], scaled_positions=[[0, 0, 0]])
    if name == "tri1":
        return PhonopyAtoms(cell=np.array([[3.0, 0, 0], [0.3, 3.1, 0], [0.2, -0.4, 2.9]]), symbols=["Si"],
                            scaled_positions=[[0, 0, 0]])
    return gen.make_cell(name)[0]


def _flat(a):
    return " ".join(Q(x) for x in np.asarray(a, dtype="double").ravel())


def _c_strip(src):
    src = re.sub(r"/\*.*?\*/", " ", src, flags=re.S)
    return re.sub(r"//[^\n]*", " ", src)


def _c_functions(src):
    """name -> (parameter list text, body text) of every function DEFINED in a C file (comments removed)."""
    out = {}
    for m in re.finditer(r"\b(\w+)\s*\(([^;{}()]*(?:\([^()]*\)[^;{}()]*)*)\)\s*\{", src):
        name = m.group(1)
        if name in ("if", "for", "while", "switch"):
            continue
        depth, i = 1, m.end()
        while i < len(src) and depth:
            depth += {"{": 1, "}": -1}.get(src[i], 0)
            i += 1
        out[name] = (m.group(2), src[m.end():i - 1])
    return out


def _param_names(params):
    names = []
    for part in params.split(","):
        ids = re.findall(r"[A-Za-z_]\w*", re.sub(r"\[[^\]]*\]", "", part))
        if ids:
            names.append(ids[-1])
    return names


_FOR = re.compile(r"for\s*\(\s*(\w+)\s*=\s*([^;]+?)\s*;\s*(\w+)\s*<\s*([^;]+?)\s*;\s*(\w+)\s*\+\+\s*\)\s*\{")


def _find_hermitisation(body, consts, env):
    """Look in `body` for  for(d<3){ [alias = base + off(d);] for(j = js; j < 3 np){ for(k = ks; k < 3 np){ six updates }}}.
    Identifiers are arbitrary (alpha-renaming), loop-invariant constants and a pointer alias may be hoisted, the addresses are
    checked as integer functions of (direction, j, k, num_patom) on random points.  Returns (jsIsDir, kFromJ) or None."""
    import random as _r

    for m1 in _FOR.finditer(body):
        d, s1, _, b1, _ = m1.groups()
        if s1 != "0" or b1.strip() != "3":
            continue
        rest = body[m1.end():]
        m2 = _FOR.search(rest)
        if not m2:
            continue
        hoist = rest[:m2.start()]
        j, s2, _, b2, _ = m2.groups()
        rest2 = rest[m2.end():]
        m3 = _FOR.match(rest2.lstrip())
        if not m3:
            continue
        k, s3, _, b3, _ = m3.groups()
        inner = rest2.lstrip()[m3.end():]
        stm = [x.strip() for x in inner.split("}")[0].split(";") if x.strip()]
        if len(stm) not in (8, 10):
            continue
        # alias hoisted between the direction loop and the row loop:  alias = base + offset(d)
        hoisted = {}
        for h in [x.strip() for x in hoist.split(";") if x.strip()]:
            mh = re.match(r"(\w+)\s*=\s*(.+)$", h)
            if not mh:
                hoisted = None
                break
            hoisted[mh.group(1)] = mh.group(2)
        if hoisted is None:
            continue
        ma, mt = re.match(r"(\w+)\s*=\s*(.+)$", stm[0]), re.match(r"(\w+)\s*=\s*(.+)$", stm[1])
        if not (ma and mt):
            continue
        A, AT = ma.group(1), mt.group(1)
        upd = [re.sub(r"\s+", "", x) for x in stm[2:]]
        mm = re.search(r"(\w+)\[%s\]\[0\]" % A, "".join(upd))
        if not mm:
            continue
        M = mm.group(1)

        def canon(x, R=None, I=None):
            x = x.replace("%s[%s]" % (M, AT), "M[\x00]").replace("%s[%s]" % (M, A), "M[A]").replace("\x00", "AT")
            if R:
                x = re.sub(r"\b%s\b" % R, "R", x)
                x = re.sub(r"\b%s\b" % I, "I", x)
            return x

        body_ok = False
        if len(upd) == 6:
            # in place: the read/write order of `hermStep` (load both, average, store (j,k) then its conjugate at (k,j))
            body_ok = [canon(x) for x in upd] == ["M[A][0]+=M[AT][0]", "M[A][0]/=2", "M[A][1]-=M[AT][1]", "M[A][1]/=2",
                                                  "M[AT][0]=M[A][0]", "M[AT][1]=-M[A][1]"]
        elif len(upd) == 8:
            # local scalars: load both entries, average, store both - the same state transformer `hermStep` (for j = k both forms
            # leave (re, -0) resp. (re, +-0): equal in exact arithmetic)
            mr, mi_ = re.match(r"(\w+)=", upd[0]), re.match(r"(\w+)=", upd[2])
            if mr and mi_:
                cu = [canon(x, mr.group(1), mi_.group(1)) for x in upd]
                body_ok = cu[:4] == ["R=M[A][0]+M[AT][0]", "R/=2", "I=M[A][1]-M[AT][1]", "I/=2"] and \
                    sorted(cu[4:]) == sorted(["M[A][0]=R", "M[A][1]=I", "M[AT][0]=R", "M[AT][1]=-I"])
        if not body_ok:
            continue
        if M in hoisted:  # pointer alias hoisted out of the row loop:  alias = base + offset(direction)
            mal = re.match(r"(\w+)\s*\+\s*(.+)$", hoisted[M])
            if not mal:
                continue
            base, off = mal.group(1), mal.group(2)
        else:
            base, off = M, "0"
        consts = dict(consts)
        consts.update({k_: v_ for k_, v_ in hoisted.items() if k_ != M})  # loop-invariant integers (may depend on the direction)
        if env.get(base, base) != "OUT":
            continue

        def ev(expr, vals):
            e = expr
            for _ in range(4):
                for cn, cv in consts.items():
                    e = re.sub(r"\b%s\b" % cn, "(" + cv + ")", e)
            return eval(e, {"__builtins__": {}}, vals)

        ok = True
        try:
            for _ in range(60):
                npv = _r.randint(1, 7)
                vals = {env.get("NP", "num_patom"): npv, d: _r.randint(0, 2)}
                nb_ = 3 * npv
                vals[j], vals[k] = _r.randrange(nb_), _r.randrange(nb_)
                if ev(b2, vals) != nb_ or ev(b3, vals) != nb_:
                    ok = False
                    break
                o = ev(off, vals)
                if o + ev(ma.group(2), vals) != vals[d] * nb_ * nb_ + vals[j] * nb_ + vals[k] or \
                        o + ev(mt.group(2), vals) != vals[d] * nb_ * nb_ + vals[k] * nb_ + vals[j]:
                    ok = False
                    break
        except Exception:
            ok = False
        if not ok:
            continue
        if s2 not in (d, "0") or s3 not in ("0", j):
            continue
        return (1 if s2 == d else 0, 1 if s3 == j else 0)
    return None


def parse_loop_spec():
    """Translator: loop bounds of the Hermitisation of `ddm_get_derivative_dynmat_at_q` as they stand in the source.
    The loop is looked for in the body of the PUBLIC entry point and, through its call graph, in the static helpers it calls with
    the output array (a single-use helper is treated as inlined); names of statics, locals and hoisted constants do not matter."""
    src = _c_strip(open(os.path.join(common.REPO, "c", "derivative_dynmat.c")).read())
    funcs = _c_functions(src)
    if "ddm_get_derivative_dynmat_at_q" not in funcs:
        return None, "public entry point ddm_get_derivative_dynmat_at_q not found"
    params, body = funcs["ddm_get_derivative_dynmat_at_q"]
    pn = _param_names(params)
    if len(pn) < 2:
        return None, "unexpected signature of ddm_get_derivative_dynmat_at_q"
    out_name, np_name = pn[0], pn[1]

    def consts_of(text):
        """loop-invariant integers: `const int64_t x = e;` and locals assigned exactly once by a plain `x = e;` whose right-hand
        side is integer arithmetic over identifiers (single static assignment: the definition can be substituted)."""
        out = {m.group(1): m.group(2) for m in re.finditer(r"const\s+int64_t\s+(\w+)\s*=\s*([^;]+);", text)}
        flat = re.sub(r"for\s*\([^)]*\)", " ", text)
        for m in re.finditer(r"(?<![\w\]\.])(\w+)\s*=\s*([\w\s\*\+\-/\(\)]+);", flat):
            nm = m.group(1)
            nwrites = len(re.findall(r"(?<![\w\]\.])%s\s*(?:[\+\-\*/]?=(?!=)|\+\+|--)" % nm, text))
            if nwrites == 1 and nm not in out and not re.match(r"\d", nm):
                out[nm] = m.group(2).strip()
        return out

    found = []
    r0 = _find_hermitisation(body, consts_of(body), {out_name: "OUT", "NP": np_name})
    if r0 is not None:
        found.append(r0)
    for m in re.finditer(r"\b(\w+)\s*\(([^;{}]*?)\)\s*;", body):
        callee = m.group(1)
        if callee not in funcs or callee == "ddm_get_derivative_dynmat_at_q":
            continue
        args = [x.strip() for x in m.group(2).split(",")]
        cp, cb = funcs[callee]
        cpn = _param_names(cp)
        if len(cpn) != len(args) or out_name not in args:
            continue
        env = {cpn[args.index(out_name)]: "OUT"}
        if np_name in args:
            env["NP"] = cpn[args.index(np_name)]
        else:
            continue
        r1 = _find_hermitisation(cb, consts_of(cb), env)
        if r1 is not None:
            found.append(r1)
    if len(found) != 1:
        return None, ("Hermitisation loop of ddm_get_derivative_dynmat_at_q: %d candidates found in the entry point and the static helpers "
                      "it calls with the output array; the model covers exactly one triple loop of the known body" % len(found))
    return found[0], None


def tables(ph):
    """p2s/s2p maps and the dense shortest-vector tables, from the public attributes of the primitive cell."""
    from phonopy.structure.cells import sparse_to_dense_svecs

    prim = ph.primitive
    svecs, multi = prim.get_smallest_vectors()
    if not prim.store_dense_svecs:
        svecs, multi = sparse_to_dense_svecs(svecs, multi)
    return (np.array(prim.p2s_map, dtype=int), np.array(prim.s2p_map, dtype=int), np.array(multi, dtype=int),
            np.array(svecs, dtype="double"))


def phases(qpt, svecs):
    """cos/sin(2 pi q.svec) with the summation order of the C code."""
    c = np.zeros(len(svecs))
    s = np.zeros(len(svecs))
    PI = 3.14159265358979323846
    for l, v in enumerate(svecs):
        ph = 0.0
        for m in range(3):
            ph += qpt[m] * v[m]
        c[l] = np.cos(ph * 2 * PI)
        s[l] = np.sin(ph * 2 * PI)
    return c, s


def request_ddmall(spec, ph, ddm, fc, qpt, nac):
    """None when the private index tables of the object are not accessible (reported as 'model inputs unavailable')."""
    try:
        return _request_ddmall(spec, ph, ddm, fc, qpt, nac)
    except AttributeError:
        return None


def _request_ddmall(spec, ph, ddm, fc, qpt, nac):
    p2s, s2p, multi, svecs = tables(ph)
    npa, ns, nv = len(p2s), len(s2p), len(svecs)
    m = ph.primitive.masses
    ms = np.array([[np.sqrt(m[i] * m[j]) for j in range(npa)] for i in range(npa)])
    c, s = phases(qpt, svecs)
    lat = np.array(ph.primitive.cell.T, dtype="double", order="C")
    parts = ["ddmall", str(spec[0]), str(spec[1]), str(npa), str(ns), str(nv),
             " ".join(map(str, p2s)), " ".join(map(str, s2p)), " ".join(map(str, multi.reshape(-1))),
             _flat(fc), _flat(ms), _flat(c), _flat(s), _flat(svecs), _flat(lat), Q(2 * 3.14159265358979323846)]
    if nac is None:
        parts.append("0")
    else:
        born, eps, qc, factor = nac
        parts += ["1", _flat(born), _flat(eps), _flat(qc), Q(factor)]
    return " ".join(parts)


def parse_ddmall(line, d):
    if line == "bad-op":
        return None
    v = np.array([float(Fraction(t)) for t in line.split()])
    n3 = 3 * d * d * 2
    out = {}
    for idx, key in enumerate(("C", "Cclosed", "Py")):
        blk = v[idx * n3:(idx + 1) * n3].reshape(3, d, d, 2)
        out[key] = blk[..., 0] + 1j * blk[..., 1]
    blk = v[3 * n3:].reshape(d, d, 2)
    out["D"] = blk[..., 0] + 1j * blk[..., 1]
    return out


def numeric_dD(dm, qpt, lat, h=4e-4):
    """Richardson-extrapolated (3 levels) central differences of the implementation's own D(q), Cartesian directions."""
    def D(qq):
        dm.run(qq)
        return dm.dynamical_matrix.copy()

    out = []
    for a in range(3):
        e = np.zeros(3)
        e[a] = 1.0
        dq = lat @ e

        def cd(hh):
            return (D(qpt + hh * dq) - D(qpt - hh * dq)) / (2 * hh)

        a0, a1, a2 = cd(h), cd(h / 2), cd(h / 4)
        b0, b1 = (4 * a1 - a0) / 3, (4 * a2 - a1) / 3
        out.append((16 * b1 - b0) / 15)
    return np.array(out)



def indep_gruneisen(phs, vols, qpt, q_direction=None):
    """-(V/2 lambda) eig(<e| (D+ - D-)/(V+ - V-) |e>) on every (numerically) degenerate subspace of D0(q); None if a gap is ambiguous.
    Built from DynamicalMatrix.run per q only (no GruneisenBase.set_qpoints); `q_direction` is the q->0 direction used at Gamma with NAC."""
    mats = []
    for p in phs:
        dm = p.dynamical_matrix
        if q_direction is not None:
            dm.run(qpt, q_direction=q_direction)
        else:
            dm.run(qpt)
        mats.append(dm.dynamical_matrix.copy())
    lam, E = np.linalg.eigh(mats[0])
    dD = mats[1] - mats[2]
    gaps = np.diff(lam)
    if ((gaps > 0.9e-4) & (gaps < 1.1e-4)).any():  # grouping tolerance of rotate_eigenvectors is 1e-4 on the eigenvalues
        return None, lam
    sets, cur = [], [0]
    for i in range(1, len(lam)):
        if lam[i] - lam[i - 1] < 1e-4:
            cur.append(i)
        else:
            sets.append(cur)
            cur = [i]
    sets.append(cur)
    ds = (vols[1] - vols[2]) / vols[0]
    out = np.zeros(len(lam))
    for st in sets:
        sub = E[:, st].conj().T @ dD @ E[:, st]
        ev = np.linalg.eigvalsh((sub + sub.conj().T) / 2)
        out[st] = -ev / ds / lam[st] / 2
    return out, lam



def _cflat(a):
    a = np.asarray(a, dtype=complex).ravel()
    return " ".join("%s %s" % (Q(z.real), Q(z.imag)) for z in a)


GV_CUTOFF = 1e-4                                          # documented default of GroupVelocity(cutoff_frequency=...)
GV_DIR0 = np.array([1.0, 2.0, 3.0]) / np.linalg.norm([1.0, 2.0, 3.0])  # auxiliary direction that splits degenerate sets


def fd_derivatives(ph, qpt, h):
    """(D(q + dq) - D(q - dq)) / h / 2 for the auxiliary direction and the three Cartesian axes, dq = cell . (direction * h):
    the definition of the finite-difference option, from DynamicalMatrix.run only. Returns (4 arrays, list of (Dp, Dm))."""
    dm = ph.dynamical_matrix
    cellm = np.array(ph.primitive.cell, dtype="double")
    out, pairs = [], []
    for dvec in [GV_DIR0] + [np.eye(3)[a_] for a_ in range(3)]:
        dq = np.dot(cellm, dvec * h)
        dm.run(qpt - dq)
        Dm_ = dm.dynamical_matrix.copy()
        dm.run(qpt + dq)
        Dp_ = dm.dynamical_matrix.copy()
        out.append((Dp_ - Dm_) / h / 2)
        pairs.append((Dp_, Dm_))
    return out, pairs


def gv_pipeline_requests(ph, qpt, with_symmetry, q_length=None):
    """Request for the model of the whole group-velocity pipeline at one q, built from PUBLIC data only: DynamicalMatrix.run,
    DerivativeOfDynamicalMatrix (analytic) or finite differences of D (q_length), numpy's eigh, the primitive cell and the
    reciprocal operations of the primitive symmetry.  The implementation side is GroupVelocity(...).run([q])."""
    from phonopy.phonon.degeneracy import degenerate_sets
    from phonopy.phonon.group_velocity import GroupVelocity

    sym = ph.primitive_symmetry if with_symmetry else None
    factor = ph.unit_conversion_factor
    gvo = GroupVelocity(ph.dynamical_matrix, q_length=q_length, symmetry=sym, frequency_factor_to_THz=factor, cutoff_frequency=GV_CUTOFF)
    gvo.run([qpt])
    gv_impl = gvo.group_velocities[0].copy()
    dm = ph.dynamical_matrix
    if q_length is None:
        from phonopy.harmonic.derivative_dynmat import DerivativeOfDynamicalMatrix as DerivativeOfDynamicalMatrixPublic

        dobj = DerivativeOfDynamicalMatrixPublic(dm)
        dobj.run(qpt)
        ddm3 = dobj.d_dynamical_matrix.copy()
        ddm0 = sum(GV_DIR0[j_] * ddm3[j_] for j_ in range(3))
    else:
        fds, _ = fd_derivatives(ph, qpt, q_length)
        ddm0, ddm3 = fds[0], np.array(fds[1:])
    dm.run(qpt)
    eigvals, eigvecs = np.linalg.eigh(dm.dynamical_matrix)
    eigvals = eigvals.real
    freqs = np.sqrt(abs(eigvals)) * np.sign(eigvals) * factor
    deg = degenerate_sets(freqs)
    d = len(freqs)
    us, hyp = [], 0.0
    for st in deg:
        es = eigvecs[:, st]
        P = np.dot(es.T.conj(), np.dot(ddm0, es))
        mu, U = np.linalg.eigh(P)
        us.append(U)
        Ph = (P + P.conj().T) / 2
        hyp = max(hyp, np.abs(U.conj().T @ U - np.eye(len(st))).max(), np.abs(Ph @ U - U * mu).max() / max(1.0, np.abs(P).max()))
    # the model groups the bands itself from the frequency array (degenerate_sets(freqs), tolerance 1e-4 THz);
    # the harness only supplies one eigh result per set of that grouping
    parts = ["gvfull", str(d), _flat(freqs), Q(1e-4), str(len(deg)), " ".join(str(len(st)) for st in deg),
             " ".join(_cflat(U) for U in us), _cflat(eigvecs), _cflat(ddm3), Q(factor), Q(GV_CUTOFF)]
    cert = None
    nsel = 0
    if with_symmetry:
        ops = np.array(sym.reciprocal_operations, dtype=int)
        B = np.array(np.linalg.inv(ph.primitive.cell), dtype="double")
        Binv = np.linalg.inv(B)
        from phonopy.harmonic.dynamical_matrix import DynamicalMatrixNAC as _DMNAC

        # the point whose site symmetry is used: D(q) with NAC is not periodic in G, so q itself; q - rint(q) without NAC
        qbz = np.array(qpt, dtype="double") if isinstance(ph.dynamical_matrix, _DMNAC) else qpt - np.rint(qpt)
        tol = sym.tolerance
        lg = [r for r in ops if (np.abs(qbz - np.dot(r, qbz)) < tol).all()]
        nsel = len(lg)
        parts += ["1", str(len(ops)), " ".join(map(str, ops.ravel())), _flat(B), _flat(Binv), _flat(qbz), Q(tol)]
        tab = []
        for rs in lg:
            for rt in lg:
                pr = rs @ rt
                u = [k for k, ru in enumerate(lg) if (ru == pr).all()]
                tab.append(u[0] if u else len(lg))
        cert = "lgcert %d %s %s" % (len(lg), " ".join(map(str, np.array(lg).ravel())), " ".join(map(str, tab)))
    else:
        parts.append("0")
    return " ".join(parts), gv_impl, cert, nsel, hyp, [len(st) for st in deg]


def pick_smat(rng, k, max_det=8):
    """Supercell matrix; every other call a non-symmetric one (S != S^T)."""
    mats = gen.supercell_matrices(rng, max_det=max_det, count=20)
    if k % 2 == 1:
        ns_ = [m for m in mats if (np.array(m) != np.array(m).T).any()]
        if ns_:
            return rng.choice(ns_)
    return rng.choice(mats)



def nac_factor_phys(ph, unit_factor):
    """`unit_conversion * 4 pi / |V|` with the PHYSICAL (absolute) volume of the primitive cell, from the cell matrix."""
    return unit_factor * 4.0 * np.pi / abs(np.linalg.det(np.array(ph.primitive.cell, dtype="double")))


def atom_map(cell_a, cell_b):
    """perm with cell_b atom perm[i] at the Cartesian position of cell_a atom i modulo the (common) lattice."""
    la = np.array(cell_a.cell, dtype="double")
    fa = np.array(cell_a.scaled_positions)
    fb = (np.array(cell_b.scaled_positions) @ np.array(cell_b.cell, dtype="double")) @ np.linalg.inv(la)
    perm = []
    for i in range(len(fa)):
        d = fb - fa[i]
        d -= np.rint(d)
        k = int(np.argmin(np.abs(d).max(axis=1)))
        if np.abs(d[k]).max() > 1e-6 or cell_a.symbols[i] != cell_b.symbols[k]:
            raise RuntimeError("relabelled cell: atom %d has no partner" % i)
        perm.append(k)
    if sorted(perm) != list(range(len(fa))):
        raise RuntimeError("relabelled cell: atom map is not a permutation")
    return np.array(perm)


def rand_q(rng, kind):
    if kind == "gamma":
        return np.zeros(3)
    if kind == "boundary":
        return np.array([rng.choice([0.5, 0.0, -0.5, 0.25]) for _ in range(3)])
    if kind == "outside":
        return np.array([rng.randint(-24, 24) / 16.0 for _ in range(3)])
    return np.array([rng.uniform(-0.5, 0.5) for _ in range(3)])


def make_fc(rng, ph, kind):
    n = len(ph.supercell)
    if kind == "pair":
        return gen.pair_fc(ph.supercell, 4.5)
    if kind == "random":
        return gen.rand_rational_array(rng, (n, n, 3, 3))
    fc = gen.pair_fc(ph.supercell, 4.5)
    return fc + gen.rand_rational_array(rng, (n, n, 3, 3), den=64, lim=8)


def rand_nac(rng, npa):
    born = np.zeros((npa, 3, 3))
    for i in range(npa):
        born[i] = np.eye(3) * rng.choice([1.0, -1.0, 2.0, 0.5]) + np.array(
            [[rng.randint(-4, 4) / 16.0 for _ in range(3)] for _ in range(3)])
    e = np.array([[rng.randint(-4, 4) / 16.0 for _ in range(3)] for _ in range(3)])
    eps = np.eye(3) * rng.choice([2.0, 3.5, 5.0]) + (e + e.T) / 2  # symmetric, positive definite (diagonally dominant)
    return {"born": born, "dielectric": eps, "factor": 14.399652, "method": "wang"}


def is_perm_symmetric(fc, tol=1e-12):
    return np.abs(fc - fc.transpose(1, 0, 3, 2)).max() <= tol * max(1.0, np.abs(fc).max())


def main(run):
    rng = run.rng
    common.setup_phonopy("omp")
    warnings.simplefilter("ignore")
    from phonopy import Phonopy
    from phonopy.api_gruneisen import PhonopyGruneisen
    from phonopy.harmonic.derivative_dynmat import DerivativeOfDynamicalMatrix
    from phonopy.harmonic.dynamical_matrix import DynamicalMatrixNAC

    thorough = run.tier == "thorough"
    run.proof_step(leancheck=thorough)
    spec, err = parse_loop_spec()
    spec_ok = spec is not None
    if not spec_ok:
        # one entry is enough: the loop-dependent model output (lang='C') is NOT compared below - there is no model of the loop;
        # the float-side oracles (numerical derivative, C vs Py) decide
        run.broke("proof", "translator(c/derivative_dynmat.c): " + err)
        spec = (0, 1)
    run.cov["loop_spec_from_source"] = {"j_starts_at_direction_index": bool(spec[0]), "k_starts_at_j": bool(spec[1])}
    as_written = spec == (1, 0)
    run.cov["rule"] = (
        "derivative of the dynamical matrix: prototype crystals (1-3 atoms/primitive cell) x supercell matrices (<= 12 atoms quick, "
        "<= 24 thorough) x force constants {pair potential (all symmetries), random rational (no symmetry), pair + random} x q "
        "{random, zone boundary, outside first zone, Gamma} x {no NAC, Wang NAC with random Born/dielectric}; implementation "
        "(lang='C', lang='Py', DynamicalMatrix.run) vs Lean model at exact rationals (all entries, 1e-9*scale). Non-trivial = q != 0 "
        "and the supercell has images (ns > np). Oracle: 3-level Richardson central differences (h=4e-4 1/Angstrom) of the "
        "implementation's own D(q) vs analytic derivative (%g*scale); group velocities vs central differences of the reported "
        "frequencies for modes with f > %g THz and band gap > %g THz, plus designated long-wavelength points (|q| = 0.002, 0.004, 0.008 r.l.u. on rocksalt, bct, hcp; modes farther than 1.2e-4 THz from every other band and above the 1e-4 THz cutoff, adaptive step); PhonopyGruneisen on uniformly scaled force constants vs "
        "closed form, and mesh symmetry on/off moments. Description invariance: per run 2 (thorough 4) relabellings of the lattice vectors (gen.UNIMODULAR, at least one det -1 = left-handed, with and without Wang NAC): derivative oracle and model correspondence on the relabelled description (physical volume |det| in the NAC factor), frequencies, Cartesian group velocities of non-degenerate bands and mode Grueneisen parameters at the same Cartesian q equal between descriptions. Sequences: DynamicalMatrix(Wang) + DerivativeOfDynamicalMatrix + GroupVelocity evaluated, the dynamical matrix mutated through its public nac_params setter, the SAME objects evaluated again and compared with the numerical derivative of the current D(q), lang='Py', freshly built objects and the model fed with the current parameters." % (TOL_NUM, FMIN, GAP))
    run.cov["trusted_base"] = [
        "Lean 4.33 kernel; Mathlib v4.33; axioms per theorem in coverage.theorems",
        "hand-written models Model/DerivDynMat.lean, Model/Gruneisen.lean tied to c/derivative_dynmat.c, derivative_dynmat.py, "
        "c/dynmat.c, gruneisen/core.py, group_velocity.py by this correspondence run; the Hermitisation loop bounds are read from "
        "the C source text on every run (regex translator, fails loudly on an unknown shape)",
        "nanobind replaced by harness/nbstub (c/_phonopy.cpp itself is compiled unchanged)",
        "cos/sin/sqrt/eigh are parameters of the model: the harness passes the floats (libm via numpy) as exact rationals",
        "float rounding outside the model: comparison tolerance 1e-9*max|entry|",
    ]
    run.assumptions += [
        "IEEE rounding of the C/Python code is not modelled",
        "existence of a continuous normalised eigenvector branch through a simple eigenvalue is a hypothesis of gv_eq_grad_freq_of_branch_partial (Hellmann-Feynman itself is proved)",
        "the dielectric tensor is symmetric (the Python path differentiates q.eps.q as 2 eps q)",
        "Gonze-Lee NAC group velocities use finite differences inside phonopy itself and are not covered",
        "spglib supplies the primitive/supercell index tables; shortest-vector tables are C05's business",
    ]

    lines, meta = [], []
    max_ns = 24 if thorough else 12
    ncases = 320 if thorough else 20
    made = attempts = 0
    f15_hits = 0
    while made < ncases and attempts < 20 * ncases:
        attempts += 1
        name = rng.choice(CELLS)
        cell = make_cell(name)
        smat = pick_smat(rng, attempts)
        ns = len(cell) * int(round(np.linalg.det(smat)))
        if ns > max_ns or ns < 2:
            continue
        fckind = rng.choice(["pair", "random", "pair+random"])
        qkind = rng.choice(["random", "random", "random", "boundary", "outside", "gamma"])
        with_nac = rng.random() < 0.4
        nacp = rand_nac(rng, len(cell)) if with_nac else None
        try:
            ph = Phonopy(cell, supercell_matrix=smat, primitive_matrix="P", log_level=0, is_symmetry=not with_nac)
        except Exception:
            run.count("constructor-rejected")
            continue
        if nacp is not None:
            ph.nac_params = nacp
        fc = make_fc(rng, ph, fckind)
        ph.force_constants = fc.copy()
        dm = ph.dynamical_matrix
        qpt = rand_q(rng, qkind)
        ddm = DerivativeOfDynamicalMatrix(dm)
        ddm.run(qpt, lang="C")
        dC = ddm.d_dynamical_matrix.copy()
        ddm.run(qpt, lang="Py")
        dP = ddm.d_dynamical_matrix.copy()
        dm.run(qpt)
        D = dm.dynamical_matrix.copy()
        npa = len(ph.primitive)
        d = 3 * npa
        reclat = np.array(np.linalg.inv(ph.primitive.cell), dtype="double", order="C")
        nac = None
        if isinstance(dm, DynamicalMatrixNAC) and np.linalg.norm(reclat @ qpt) >= 1e-5:
            nac = (np.array(dm.born), np.array(dm.dielectric_constant), reclat @ qpt, nac_factor_phys(ph, nacp["factor"]) * npa / len(ph.supercell))
        info = dict(cell=name, smat=np.array(smat).tolist(), fc=fckind, q=qpt.tolist(), nac=with_nac)
        lines.append(request_ddmall(spec, ph, ddm, np.array(dm.force_constants), qpt, nac))
        meta.append(("ddmall", info, d, dict(C=dC, Py=dP, D=D)))
        sym = is_perm_symmetric(fc)
        nontrivial = ns > npa and np.abs(qpt).max() > 0
        run.case(("ddm", name, np.array(smat).tolist(), fckind, qpt.tolist(), with_nac, fc.tobytes()), nontrivial=nontrivial)
        run.count("cell %s" % name)
        run.count("supercell matrix %s" % ("non-symmetric" if (np.array(smat) != np.array(smat).T).any() else "symmetric"))
        run.count("fc %s" % fckind)
        run.count("q %s" % qkind)
        run.count("nac" if with_nac else "no-nac")
        run.sample(dict(info, n_patom=npa, n_satom=ns, n_svecs=len(tables(ph)[3])))
        made += 1

        # ---------------- oracle on the implementation: analytic derivative == derivative of D(q)
        scale = max(1e-3, np.abs(dP).max(), np.abs(dC).max())
        if with_nac and np.linalg.norm(reclat @ qpt) < 1e-2:
            run.count("oracle-skip: NAC term is non-analytic at Gamma", section="oracle")
        else:
            num = numeric_dD(dm, qpt, ph.primitive.cell)
            for lang, A, site in (("C", dC, SITE_C), ("Py", dP, SITE_PY)):
                err = np.abs(num - A).max()
                run.count("oracle-dD-numeric-%s" % lang, section="oracle")
                if err > TOL_NUM * scale:
                    klass = "fc-permutation-symmetric" if sym else "fc-not-permutation-symmetric"
                    where = np.argwhere(np.abs(num - A) > TOL_NUM * scale).tolist()[:8]
                    if lang == "C" and not sym:
                        f15_hits += 1
                    run.violation(site, klass,
                                  "analytic dD/dq differs from the Richardson-extrapolated central difference of the implementation's "
                                  "own D(q) by %.3g (scale %.3g) at [direction,row,col] %s" % (err, scale, where),
                                  dict(info, fc_array=fc.tolist(), nac_params=None if nacp is None else {k: np.array(v).tolist() if k != "method" else v for k, v in nacp.items()}))
        # compiled and Python paths agree
        run.count("oracle-C-vs-Py", section="oracle")
        if np.abs(dC - dP).max() > TOL * scale:
            klass = "fc-permutation-symmetric" if sym else "fc-not-permutation-symmetric"
            run.violation(SITE_C, klass, "compiled and Python derivative differ by %.3g (scale %.3g); C result Hermitian to %.3g" % (
                np.abs(dC - dP).max(), scale, max(np.abs(x - x.conj().T).max() for x in dC)),
                dict(info, fc_array=fc.tolist()))

    # ---------------- group velocities: analytic = gradient of the reported frequencies
    ngv = 80 if thorough else 6
    gv_lines, gv_meta = [], []
    done = tries = 0
    while done < ngv and tries < 10 * ngv:
        tries += 1
        name = rng.choice(CELLS)
        cell = make_cell(name)
        smat = pick_smat(rng, tries)
        ns = len(cell) * int(round(np.linalg.det(smat)))
        if ns > 32 or ns < 2:
            continue
        with_nac = rng.random() < 0.3
        try:
            ph = Phonopy(cell, supercell_matrix=smat, primitive_matrix="P", log_level=0)
        except Exception:
            continue
        if with_nac:
            ph.nac_params = rand_nac(rng, len(cell))
        ph.force_constants = gen.pair_fc(ph.supercell, 4.5)
        if tries % 3 == 0:  # outside the first cell: components in +-[0.5, 2.5]
            qpt = np.array([rng.uniform(0.5, 2.5) * rng.choice([1, -1]) for _ in range(3)])
            run.count("gv q outside the first cell")
        else:
            qpt = np.array([rng.uniform(-0.5, 0.5) for _ in range(3)])
        reclat = np.linalg.inv(ph.primitive.cell)
        if np.linalg.norm(reclat @ qpt) < 0.02:
            continue
        ph.run_qpoints([qpt], with_group_velocities=True, with_eigenvectors=True)
        qd = ph.get_qpoints_dict()
        f0, gv, ev = qd["frequencies"][0], qd["group_velocities"][0], qd["eigenvectors"][0]
        h = 1e-4
        lat = ph.primitive.cell
        grad = np.zeros_like(gv)
        for a in range(3):
            e = np.zeros(3)
            e[a] = 1
            dq = lat @ e

            def fr(hh):
                ph.run_qpoints([qpt + hh * dq])
                return ph.get_qpoints_dict()["frequencies"][0]

            c1 = (fr(h) - fr(-h)) / (2 * h)
            c2 = (fr(h / 2) - fr(-h / 2)) / h
            grad[:, a] = (4 * c2 - c1) / 3
        info = dict(cell=name, smat=np.array(smat).tolist(), q=qpt.tolist(), nac=with_nac)
        nmode = 0
        for nu in range(len(f0)):
            gaps = np.abs(np.delete(f0, nu) - f0[nu]) if len(f0) > 1 else np.array([1e9])
            if f0[nu] < FMIN or gaps.min() < GAP:
                run.count("oracle-gv-skipped-mode(gap/cutoff filter)", section="oracle")
                continue
            nmode += 1
            run.count("oracle-gv-mode", section="oracle")
            sc = max(1.0, np.abs(gv[nu]).max())
            if np.abs(grad[nu] - gv[nu]).max() > 1e-5 * sc:
                run.violation("Phonopy.run_qpoints(with_group_velocities=True)", "nondegenerate-mode" + ("-nac" if with_nac else ""),
                              "group velocity %s differs from the finite-difference gradient of the frequency %s (band %d, f=%.4f THz)" % (
                                  gv[nu].tolist(), grad[nu].tolist(), nu, f0[nu]), info)
        # finite-difference option of GroupVelocity agrees with the analytic one
        ph2 = Phonopy(cell, supercell_matrix=smat, primitive_matrix="P", log_level=0, group_velocity_delta_q=1e-5)
        if with_nac:
            ph2.nac_params = ph.nac_params
        ph2.force_constants = ph.force_constants.copy()
        ph2.run_qpoints([qpt], with_group_velocities=True)
        gv_fd = ph2.get_qpoints_dict()["group_velocities"][0]
        for nu in range(len(f0)):
            gaps = np.abs(np.delete(f0, nu) - f0[nu]) if len(f0) > 1 else np.array([1e9])
            if f0[nu] < FMIN or gaps.min() < GAP:
                continue
            if np.abs(gv_fd[nu] - gv[nu]).max() > 1e-4 * max(1.0, np.abs(gv[nu]).max()):
                run.violation("GroupVelocity(q_length=1e-5)", "fd-vs-analytic", "finite-difference group velocity %s vs analytic %s" % (
                    gv_fd[nu].tolist(), gv[nu].tolist()), info)
        run.count("oracle-gv-fd-option", section="oracle")
        # the finite-difference arrays themselves against the model of _get_dD_FD
        from phonopy.phonon.group_velocity import GroupVelocity as _GV
        kdir = rng.randrange(4)
        hq = 1e-5
        fds, pairs = fd_derivatives(ph2, qpt, hq)
        gv_lines.append("fdd %d %s %s %s" % (len(f0), Q(hq), _cflat(pairs[kdir][0]), _cflat(pairs[kdir][1])))
        gv_meta.append(("fdd", dict(info, direction=int(kdir)), fds[kdir]))
        try:  # optional intermediate hook: the arrays the class itself forms
            gfd = _GV(ph2.dynamical_matrix, q_length=hq, frequency_factor_to_THz=ph2.unit_conversion_factor)
            dfd = gfd._get_dD_FD(np.array(qpt))
            run.count("fd-dD intermediate hook (GroupVelocity._get_dD_FD) compared", section="correspondence")
            if np.abs(dfd[kdir] - fds[kdir]).max() > TOL * max(1e-6, np.abs(fds[kdir]).max()):
                run.broke("correspondence", "GroupVelocity._get_dD_FD differs from (D(q+dq) - D(q-dq))/q_length/2 by %.3g" % np.abs(dfd[kdir] - fds[kdir]).max(), info)
        except AttributeError:
            run.count("intermediate hook unavailable: GroupVelocity._get_dD_FD", section="correspondence")
        # end to end: the model pipeline fed with the finite-difference derivative vs GroupVelocity(q_length).run
        line_, gv_i, _, _, hyp_, dsz_ = gv_pipeline_requests(ph2, qpt, False, q_length=hq)
        gv_lines.append(line_)
        gv_meta.append(("gvfull", dict(info, symmetrised=False, derivative="finite difference q_length=%g" % hq, degenerate_set_sizes=dsz_), (gv_i, 0)))
        # correspondence of the gv formula: feed eigh + C derivative to the model
        dm = ph.dynamical_matrix
        ddm = DerivativeOfDynamicalMatrix(dm)
        ddm.run(qpt, lang="C")
        dd = ddm.d_dynamical_matrix
        dn = len(f0)
        for nu in range(dn):
            gaps = np.abs(np.delete(f0, nu) - f0[nu]) if dn > 1 else np.array([1e9])
            if f0[nu] < FMIN or gaps.min() < GAP:
                continue
            a = rng.randrange(3)
            evec = ev[:, nu]
            gv_lines.append("gv %d %s %s %s %s %s" % (
                dn, Q(ph.unit_conversion_factor), Q(1e-4), Q(f0[nu]),
                " ".join("%s %s" % (Q(z.real), Q(z.imag)) for z in evec),
                " ".join("%s %s" % (Q(z.real), Q(z.imag)) for z in dd[a].ravel())))
            gv_meta.append(("gv", dict(info, band=nu, direction=a), gv[nu, a]))
            break
        run.case(("gv", name, np.array(smat).tolist(), qpt.tolist(), with_nac), nontrivial=nmode > 0)
        run.count("gv-case")
        done += 1

    # ---------------- Grueneisen parameters
    ngr = 48 if thorough else 4
    gr_lines, gr_meta = [], []
    t = -1
    gtries = 0
    while t + 1 < ngr and gtries < 20 * ngr:
        gtries += 1
        name = rng.choice(["cscl", "nacl_prim", "zincblende_prim", "hcp", "bct", "rhombo", "sc1", "mono_P"])
        cell = make_cell(name)
        smat = rng.choice([np.diag([2, 2, 2]), np.diag([2, 2, 1]), np.diag([2, 1, 2]), np.diag([3, 1, 1]), np.diag([1, 2, 2]),
                           np.array([[1, 1, 0], [-1, 1, 0], [0, 0, 1]]), np.array([[1, 1, 0], [-1, 1, 0], [0, 0, 2]]),
                           np.array([[2, 1, 0], [0, 2, 0], [0, 0, 1]]), np.array([[1, -1, 0], [1, 2, 0], [0, 0, 1]])])
        g = rng.choice([0.5, 1.0, 1.7, 2.3, -0.4])
        dv = rng.choice([0.01, 0.02, 0.005])
        dvm = dv * rng.choice([1.0, 1.0, 0.5])  # asymmetric triples too
        phs, vols = [], []
        for sc in (1.0, 1.0 + dv, 1.0 - dvm):
            c2 = cell.copy()
            c2.cell = cell.cell * sc ** (1.0 / 3)
            p = Phonopy(c2, supercell_matrix=smat, primitive_matrix="P", log_level=0)
            phs.append(p)
            vols.append(p.primitive.volume)
        # the mesh is reduced with the point group of the primitive cell: the force constants of the supercell must have it
        if len(phs[0].symmetry.pointgroup_operations) != len(phs[0].primitive_symmetry.pointgroup_operations):
            run.count("gruneisen-skip: supercell breaks the point group of the primitive cell")
            continue
        t += 1
        fc0 = gen.pair_fc(phs[0].supercell, 4.5)
        uniform = t % 3 != 2
        for p, v in zip(phs, vols):
            if uniform:
                p.force_constants = fc0 * (v / vols[0]) ** (-2 * g)
            else:
                p.force_constants = gen.pair_fc(p.supercell, 4.5 * (v / vols[0]) ** (1.0 / 3))
        mesh = rng.choice([[3, 3, 3], [4, 4, 4], [2, 3, 4], [5, 5, 5]])
        res = {}
        for msym in (True, False):
            gr = PhonopyGruneisen(phs[0], phs[1], phs[2])
            gr.set_mesh(mesh, is_mesh_symmetry=msym, is_gamma_center=rng.choice([True, False]) if False else False)
            gm_ = gr.get_mesh()
            fac_m = phs[0].unit_conversion_factor
            res[msym] = gm_ + (np.sign(gm_[2]) * (gm_[2] / fac_m) ** 2,)  # eigenvalues from the reported frequencies (public)
        info = dict(cell=name, smat=np.array(smat).tolist(), g=g, volumes=[float(v) for v in vols], mesh=list(map(int, mesh)), uniform=uniform)
        run.case(("grun", name, np.array(smat).tolist(), g, dv, dvm, tuple(mesh), uniform), nontrivial=True)
        run.count("gruneisen-%s" % ("uniform-scaling" if uniform else "pair-potential-volumes"))
        qs, w, fr, evs, gam, lam = res[True]
        qs_f, w_f, fr_f, evs_f, gam_f, lam_f = res[False]
        if uniform:
            sp, sm = (vols[1] / vols[0]) ** (-2 * g), (vols[2] / vols[0]) ** (-2 * g)
            closed = -(sp - sm) * vols[0] / (2 * (vols[1] - vols[2]))
            for (G_, F_, L_, tag) in ((gam, fr, lam, "sym"), (gam_f, fr_f, lam_f, "full")):
                ok = np.abs(F_) > 1e-2
                # phonopy treats eigenvalues closer than 1e-4 as degenerate and diagonalises dD among them; modes that are
                # nearly but not exactly degenerate are outside the property's quantifier ("away from degeneracies")
                for iq in range(len(L_)):
                    for nu in range(L_.shape[1]):
                        gp = np.abs(np.delete(L_[iq], nu) - L_[iq, nu])
                        if len(gp) and ((gp > 1e-9 * max(1.0, abs(L_[iq, nu]))) & (gp < 2e-4)).any():
                            ok[iq, nu] = False
                            run.count("oracle-gruneisen-skipped-near-degenerate-mode", section="oracle")
                run.count("oracle-gruneisen-closed-form-modes", int(ok.sum()), section="oracle")
                if ok.any() and np.abs(G_[ok] - closed).max() > 1e-7 * max(1, abs(closed)):
                    run.violation("PhonopyGruneisen.get_mesh", "uniform-scaling", "mode Grueneisen parameters %s..%s differ from the closed form %.10g (%s mesh)" % (
                        G_[ok].min(), G_[ok].max(), closed, tag), info)
        # reduced mesh == full mesh (moments of gamma weighted by multiplicity)
        okr, okf = np.abs(fr) > 1e-2, np.abs(fr_f) > 1e-2
        for pw in (1, 2):
            for fw in (0, 1):
                a = (w[:, None] * np.where(okr, gam, 0) ** pw * fr ** fw).sum() / w.sum()
                b = (w_f[:, None] * np.where(okf, gam_f, 0) ** pw * fr_f ** fw).sum() / w_f.sum()
                run.count("oracle-gruneisen-mesh-symmetry-moment", section="oracle")
                if abs(a - b) > 1e-7 * max(1.0, abs(b)):
                    run.violation("PhonopyGruneisen.set_mesh(is_mesh_symmetry)", "reduced-vs-full",
                                  "moment <gamma^%d f^%d>: %.12g (symmetry-reduced) vs %.12g (full mesh)" % (pw, fw, a, b), info)
        # every mode, degenerate subspaces included, against an independent evaluation of -(V/2 lambda) <e|dD/dV|e>
        for iq in rng.sample(range(len(qs_f)), min(len(qs_f), 8)):
            ref, lam_i = indep_gruneisen(phs, vols, qs_f[iq])
            if ref is None:
                run.count("oracle-gruneisen-skipped-q(ambiguous gap)", section="oracle")
                continue
            okm = np.abs(lam_i) > 1e-6
            run.count("oracle-gruneisen-independent-q", section="oracle")
            for st in (okm,):
                a_, b_ = np.sort(gam_f[iq][st]), np.sort(ref[st])
                if len(a_) and np.abs(a_ - b_).max() > 1e-6 * max(1.0, np.abs(b_).max()):
                    run.violation("PhonopyGruneisen.get_mesh", "formula", "mode Grueneisen parameters %s differ from -(V/2 lambda)<e|dD/dV|e> = %s at q=%s" % (
                        a_.tolist(), b_.tolist(), qs_f[iq].tolist()), info)
        # band-structure front end (band connection only reorders)
        q0 = np.array([rng.uniform(-0.5, 0.5) for _ in range(3)])
        q1 = np.array([rng.uniform(-0.5, 0.5) for _ in range(3)])
        path = np.array([q0 + (q1 - q0) * s_ for s_ in np.linspace(0, 1, 5)])
        grb = PhonopyGruneisen(phs[0], phs[1], phs[2])
        grb.set_band_structure([path])
        bq, _, bf, bev, bg = grb.get_band_structure()
        fac_ = phs[0].unit_conversion_factor
        blam = [np.sign(x) * (x / fac_) ** 2 for x in bf[0]]  # eigenvalues from the reported frequencies (public)
        # band-structure path into the correspondence: the formula on the (band-connected) eigenvectors it reports
        for iq in rng.sample(range(len(path)), 2):
            lam_q = blam[iq]
            for nu in range(len(lam_q)):
                gaps = np.abs(np.delete(lam_q, nu) - lam_q[nu]) if len(lam_q) > 1 else np.array([1e9])
                if abs(lam_q[nu]) < 1e-6 or gaps.min() < 1e-3:
                    continue
                Dm_, Dp_ = phs[2].dynamical_matrix, phs[1].dynamical_matrix
                Dm_.run(path[iq])
                Dp_.run(path[iq])
                evec = bev[0][iq][:, nu]
                gr_lines.append("grun %d %s %s %s %s %s %s %s" % (
                    len(lam_q), Q(vols[0]), Q(vols[1]), Q(vols[2]), Q(lam_q[nu]),
                    " ".join("%s %s" % (Q(z.real), Q(z.imag)) for z in evec),
                    " ".join("%s %s" % (Q(z.real), Q(z.imag)) for z in Dm_.dynamical_matrix.ravel()),
                    " ".join("%s %s" % (Q(z.real), Q(z.imag)) for z in Dp_.dynamical_matrix.ravel())))
                gr_meta.append(("grun", dict(info, q=path[iq].tolist(), band=nu, front_end="band_structure"), float(bg[0][iq][nu])))
                break
        for iq in range(len(path)):
            ref, lam_i = indep_gruneisen(phs, vols, path[iq])
            if ref is None:
                continue
            okm = np.abs(lam_i) > 1e-6
            run.count("oracle-gruneisen-band-structure-q", section="oracle")
            a_, b_ = np.sort(bg[0][iq][np.abs(bf[0][iq]) > 15.7 * 1e-3]), np.sort(ref[okm])
            if len(a_) != len(b_) or (len(a_) and np.abs(a_ - b_).max() > 1e-6 * max(1.0, np.abs(b_).max())):
                run.violation("PhonopyGruneisen.get_band_structure", "formula", "band-structure Grueneisen parameters %s differ from %s at q=%s" % (
                    a_.tolist(), b_.tolist(), path[iq].tolist()), info)
        # model of the mesh weighting
        gsum = np.where(okr, gam, 0).sum(axis=1)
        gr_lines.append("meshsum %d %s %s" % (len(w), " ".join(map(str, w)), _flat(gsum)))
        gr_meta.append(("meshsum", info, float((w * gsum).sum())))
        # correspondence of the formula: a few non-degenerate modes
        sent = 0
        for iq in rng.sample(range(len(qs_f)), min(len(qs_f), 6)):
            lam_q = lam_f[iq]
            for nu in range(len(lam_q)):
                gaps = np.abs(np.delete(lam_q, nu) - lam_q[nu]) if len(lam_q) > 1 else np.array([1e9])
                if abs(lam_q[nu]) < 1e-6 or gaps.min() < 1e-3:
                    continue
                Dm_, Dp_ = phs[2].dynamical_matrix, phs[1].dynamical_matrix
                Dm_.run(qs_f[iq])
                Dp_.run(qs_f[iq])
                A_, B_ = Dm_.dynamical_matrix, Dp_.dynamical_matrix
                evec = evs_f[iq][:, nu]
                gr_lines.append("grun %d %s %s %s %s %s %s %s" % (
                    len(lam_q), Q(vols[0]), Q(vols[1]), Q(vols[2]), Q(lam_q[nu]),
                    " ".join("%s %s" % (Q(z.real), Q(z.imag)) for z in evec),
                    " ".join("%s %s" % (Q(z.real), Q(z.imag)) for z in A_.ravel()),
                    " ".join("%s %s" % (Q(z.real), Q(z.imag)) for z in B_.ravel())))
                gr_meta.append(("grun", dict(info, q=qs_f[iq].tolist(), band=nu), float(gam_f[iq, nu])))
                sent += 1
                break
            if sent >= 2:
                break

    # ---------------- Grueneisen band structures with several segments on polar crystals (Wang NAC): at exact Gamma every
    # segment has its own q -> 0 direction (its start minus its end); reference = per-q DynamicalMatrix.run, no set_qpoints
    from phonopy.structure.atoms import PhonopyAtoms as _PA

    def _line(a_, b_, n_=5):
        a_, b_ = np.array(a_, dtype=float), np.array(b_, dtype=float)
        return np.array([a_ + (b_ - a_) * t_ for t_ in np.linspace(0, 1, n_)])

    tet = _PA(cell=np.diag([3.0, 3.0, 4.2]), symbols=["Cs", "Cl"], scaled_positions=[[0, 0, 0], [0.5, 0.5, 0.5]])
    nacbs_cases = [
        ("tetragonal-CsCl", tet, np.diag([2, 2, 2]), "two segments meeting at Gamma (X-G, G-Z)",
         [_line([0.5, 0, 0], [0, 0, 0]), _line([0, 0, 0], [0, 0, 0.5])],
         {"born": np.array([np.diag([1.3, 1.3, 0.7]), -np.diag([1.3, 1.3, 0.7])]), "dielectric": np.diag([2.4, 2.4, 3.6]), "factor": 14.399652, "method": "wang"}),
        ("tetragonal-CsCl", tet, np.diag([2, 2, 2]), "closed tour G-X, X-M, M-G",
         [_line([0, 0, 0], [0.5, 0, 0]), _line([0.5, 0, 0], [0.5, 0.5, 0]), _line([0.5, 0.5, 0], [0, 0, 0])],
         {"born": np.array([np.diag([1.3, 1.3, 0.7]), -np.diag([1.3, 1.3, 0.7])]), "dielectric": np.diag([2.4, 2.4, 3.6]), "factor": 14.399652, "method": "wang"}),
        ("nacl_prim", make_cell("nacl_prim"), np.diag([2, 2, 2]), "closed tour G-X, X-W, W-G",
         [_line([0, 0, 0], [0.5, 0, 0.5]), _line([0.5, 0, 0.5], [0.5, 0.25, 0.75]), _line([0.5, 0.25, 0.75], [0, 0, 0])],
         {"born": np.array([np.eye(3) * 1.1, -np.eye(3) * 1.1]), "dielectric": np.eye(3) * 2.6, "factor": 14.399652, "method": "wang"}),
    ]
    for (name, cell, smat, plabel, segs, nacp) in nacbs_cases:
        phs, vols = [], []
        for sc_ in (1.0, 1.012, 0.991):
            c2 = cell.copy()
            c2.cell = cell.cell * sc_ ** (1.0 / 3)
            p_ = Phonopy(c2, supercell_matrix=smat, primitive_matrix="P", log_level=0)
            p_.nac_params = nacp
            phs.append(p_)
            vols.append(p_.primitive.volume)
        fc0 = gen.pair_fc(phs[0].supercell, 4.5)
        for p_, v_ in zip(phs, vols):
            p_.force_constants = fc0 * (v_ / vols[0]) ** (-2 * 1.3)
        grn = PhonopyGruneisen(phs[0], phs[1], phs[2])
        grn.set_band_structure(segs)
        bq, _, bf, _, bg = grn.get_band_structure()
        fac_ = phs[0].unit_conversion_factor
        info = dict(crystal=name, smat=smat.tolist(), path=plabel, segments=[[sg[0].tolist(), sg[-1].tolist()] for sg in segs], nac="wang")
        nq_ok = 0
        for isg, sg in enumerate(segs):
            qdir = sg[0] - sg[-1]
            for iq in range(len(sg)):
                ref, lam_i = indep_gruneisen(phs, vols, sg[iq], q_direction=qdir)
                fref = np.sqrt(np.abs(lam_i)) * np.sign(lam_i) * fac_
                run.count("oracle-gruneisen-nac-band-structure-q", section="oracle")
                at_gamma = bool(np.abs(sg[iq]).max() < 1e-12)
                if np.abs(np.sort(bf[isg][iq]) - np.sort(fref)).max() > 1e-7 * max(1.0, np.abs(fref).max()):
                    run.violation("PhonopyGruneisen.get_band_structure", "nac-multi-segment" + ("-gamma" if at_gamma else ""),
                                  "frequencies %s of segment %d at q=%s differ from those of the Wang dynamical matrix evaluated at that q "
                                  "(q -> 0 direction of the segment) %s" % (np.sort(bf[isg][iq]).tolist(), isg, sg[iq].tolist(), np.sort(fref).tolist()), info)
                    continue
                if ref is None:
                    run.count("oracle-gruneisen-skipped-q(ambiguous gap)", section="oracle")
                    continue
                okm = np.abs(lam_i) > 1e-6
                lam_b = np.sign(bf[isg][iq]) * (bf[isg][iq] / fac_) ** 2
                a_, b_ = np.sort(bg[isg][iq][np.abs(lam_b) > 1e-6]), np.sort(ref[okm])
                nq_ok += 1
                if len(a_) != len(b_) or (len(a_) and np.abs(a_ - b_).max() > 1e-6 * max(1.0, np.abs(b_).max())):
                    run.violation("PhonopyGruneisen.get_band_structure", "nac-multi-segment" + ("-gamma" if at_gamma else ""),
                                  "mode Grueneisen parameters %s of segment %d at q=%s differ from -(V/2 lambda)<e|dD/dV|e> = %s built per q from "
                                  "DynamicalMatrix.run" % (a_.tolist(), isg, sg[iq].tolist(), b_.tolist()), info)
        run.case(("grun-nac-bs", name, smat.tolist(), plabel), nontrivial=nq_ok > 0)
        run.count("gruneisen NAC band structure: %s" % plabel)
        # group velocities along the same multi-segment path: every q-point as from a single-q calculation
        phs[0].run_band_structure(segs, with_group_velocities=True)
        bgv = phs[0].get_band_structure_dict()["group_velocities"]
        for isg, sg in enumerate(segs):
            for iq in (0, len(sg) // 2, len(sg) - 1):
                phs[0].run_qpoints([sg[iq]], with_group_velocities=True)
                g1 = phs[0].get_qpoints_dict()["group_velocities"][0]
                run.count("oracle-gv-multi-segment-band-path-q", section="oracle")
                if np.abs(bgv[isg][iq] - g1).max() > 1e-9 * max(1.0, np.abs(g1).max()):
                    run.violation("Phonopy.run_band_structure(with_group_velocities=True)", "multi-segment-path",
                                  "group velocities at q=%s of segment %d differ from the single-q result by %.3g" % (sg[iq].tolist(), isg, np.abs(bgv[isg][iq] - g1).max()), info)

    # ---------------- description invariance: the same crystal with relabelled (also LEFT-HANDED) lattice vectors
    # (i) the derivative oracles run ON the relabelled description; (ii) physical results equal those of the original one
    det_minus = ["swap12", "negate3", "invert"]
    rl_keys = [rng.choice(det_minus), rng.choice(["shear", "cyclic"] + det_minus)] + ([rng.choice(list(gen.UNIMODULAR))] * 2 if thorough else [])
    for ir_, key in enumerate(rl_keys):
        name = rng.choice(["nacl_prim", "cscl", "hcp", "mono_P", "bct", "zincblende_prim"])
        cell = make_cell(name)
        smat = rng.choice([np.diag([2, 2, 2]), np.diag([2, 2, 1]), np.diag([2, 1, 2]), np.array([[2, 1, 0], [0, 2, 0], [0, 0, 1]])])
        if len(cell) * int(round(abs(np.linalg.det(smat)))) > 16:
            smat = np.diag([2, 2, 1])
        M_ = np.array(gen.UNIMODULAR[key])
        cell2, qmap, smapf = gen.relabelled_cell(cell, M_)
        with_nac = ir_ % 2 == 0  # the first (always det -1) case carries the Wang term
        nacp = rand_nac(rng, len(cell)) if with_nac else None
        objs = []
        for (c_, s_) in ((cell, smat), (cell2, smapf(smat))):
            trip, vols = [], []
            for sc_ in (1.0, 1.011, 0.992):
                cc = c_.copy()
                cc.cell = c_.cell * sc_ ** (1.0 / 3)
                p_ = Phonopy(cc, supercell_matrix=s_, primitive_matrix="P", log_level=0, is_symmetry=False)
                if nacp is not None:
                    p_.nac_params = nacp
                p_.force_constants = gen.pair_fc(p_.supercell, 4.5 * sc_ ** (1.0 / 3))  # central pair potential: the same physical model
                trip.append(p_)
                vols.append(abs(p_.primitive.volume))
            objs.append((trip, vols))
        (tA, vA), (tB, vB) = objs
        phA, phB = tA[0], tB[0]
        qA = np.array([rng.uniform(-0.45, 0.45) for _ in range(3)])
        qB = qmap(qA)
        info = dict(cell=name, smat=np.array(smat).tolist(), relabelling=key, det=int(round(np.linalg.det(M_))), nac=with_nac, q=qA.tolist(), q_relabelled=qB.tolist(),
                    signed_volume_relabelled=float(phB.primitive.volume))
        run.case(("relabel", name, np.array(smat).tolist(), key, with_nac, qA.tolist()), nontrivial=True)
        run.count("relabelled description: %s (det %+d)%s" % (key, int(round(np.linalg.det(M_))), ", Wang NAC" if with_nac else ""))
        # (i) the property's own oracle on the relabelled description
        dmB = phB.dynamical_matrix
        dobj = DerivativeOfDynamicalMatrix(dmB)
        dobj.run(qB, lang="C")
        dC = dobj.d_dynamical_matrix.copy()
        dobj.run(qB, lang="Py")
        dP = dobj.d_dynamical_matrix.copy()
        num = numeric_dD(dmB, qB, phB.primitive.cell)
        sc = max(1e-3, np.abs(num).max())
        run.count("oracle-relabelled-derivative", section="oracle")
        for lang, A_, site in (("C", dC, SITE_C), ("Py", dP, SITE_PY)):
            if np.abs(num - A_).max() > TOL_NUM * sc:
                run.violation(site, "relabelled-description" + ("-left-handed" if info["det"] < 0 else ""),
                              "analytic dD/dq (lang=%s) differs from the numerical derivative of D(q) by %.3g (scale %.3g) on a relabelled description" % (
                                  lang, np.abs(num - A_).max(), sc), info)
        npaB = len(phB.primitive)
        reclatB = np.array(np.linalg.inv(phB.primitive.cell), dtype="double", order="C")
        nacm = None
        if with_nac:
            nacm = (np.array(dmB.born), np.array(dmB.dielectric_constant), reclatB @ qB, nac_factor_phys(phB, nacp["factor"]) * npaB / len(phB.supercell))
        dmB.run(qB)
        lines.append(request_ddmall(spec, phB, dobj, np.array(dmB.force_constants), qB, nacm))
        meta.append(("ddmall", info, 3 * npaB, dict(C=dC, Py=dP, D=dmB.dynamical_matrix.copy())))
        # (ii) the same physical quantities in both descriptions
        phA.run_qpoints([qA], with_group_velocities=True)
        phB.run_qpoints([qB], with_group_velocities=True)
        fa, ga = phA.get_qpoints_dict()["frequencies"][0], phA.get_qpoints_dict()["group_velocities"][0]
        fb, gb = phB.get_qpoints_dict()["frequencies"][0], phB.get_qpoints_dict()["group_velocities"][0]
        run.count("oracle-relabelled-vs-original", section="oracle")
        if np.abs(fa - fb).max() > 1e-8 * max(1.0, np.abs(fa).max()):
            run.violation("Phonopy.run_qpoints", "description-dependence" + ("-left-handed" if info["det"] < 0 else ""),
                          "frequencies at the same Cartesian q differ between two descriptions of the same crystal by %.3g THz (%s vs %s)" % (
                              np.abs(fa - fb).max(), fa.tolist(), fb.tolist()), info)
        else:
            for nu in range(len(fa)):
                gaps = np.abs(np.delete(fa, nu) - fa[nu]) if len(fa) > 1 else np.array([1e9])
                if fa[nu] < FMIN or gaps.min() < GAP:
                    continue
                if np.abs(ga[nu] - gb[nu]).max() > 1e-7 * max(1.0, np.abs(ga[nu]).max()):
                    run.violation("Phonopy.run_qpoints(with_group_velocities=True)", "description-dependence" + ("-left-handed" if info["det"] < 0 else ""),
                                  "Cartesian group velocity of band %d differs between two descriptions of the same crystal: %s vs %s" % (nu, ga[nu].tolist(), gb[nu].tolist()), info)
                    break
        # mode Grueneisen parameters at the same Cartesian q
        q2A = qA + np.array([0.03, -0.02, 0.05])
        gsets = []
        for (trip, qs_) in ((tA, [qA, q2A]), (tB, [qB, qmap(q2A)])):
            g_ = PhonopyGruneisen(trip[0], trip[1], trip[2])
            g_.set_band_structure([np.array(qs_)])
            gsets.append(g_.get_band_structure())
        gamA, gamB = gsets[0][4][0], gsets[1][4][0]
        frA = gsets[0][2][0]
        okm = np.abs(frA[0]) > 1e-2
        run.count("oracle-relabelled-gruneisen", section="oracle")
        if np.abs(np.sort(gamA[0][okm]) - np.sort(gamB[0][np.abs(gsets[1][2][0][0]) > 1e-2])).max() > 1e-6 * max(1.0, np.abs(gamA[0][okm]).max()):
            run.violation("PhonopyGruneisen.get_band_structure", "description-dependence" + ("-left-handed" if info["det"] < 0 else ""),
                          "mode Grueneisen parameters at the same Cartesian q differ between two descriptions: %s vs %s" % (
                              np.sort(gamA[0]).tolist(), np.sort(gamB[0]).tolist()), info)

    # ---------------- compact force constants; q_direction argument (Wang NAC)
    from phonopy.harmonic.force_constants import full_fc_to_compact_fc

    nextra = 80 if thorough else 6
    done = tries = 0
    while done < nextra and tries < 10 * nextra:
        tries += 1
        name = rng.choice(CELLS)
        cell = make_cell(name)
        smat = pick_smat(rng, tries)
        ns = len(cell) * int(round(np.linalg.det(smat)))
        if ns > (24 if thorough else 12) or ns < 2:
            continue
        with_nac = done % 2 == 0
        try:
            ph = Phonopy(cell, supercell_matrix=smat, primitive_matrix="P", log_level=0, is_symmetry=not with_nac)
            phc = Phonopy(cell, supercell_matrix=smat, primitive_matrix="P", log_level=0, is_symmetry=not with_nac)
        except Exception:
            continue
        if with_nac:
            nacp = rand_nac(rng, len(cell))
            ph.nac_params = nacp
            phc.nac_params = nacp
        fc = gen.pair_fc(ph.supercell, 4.5)
        ph.force_constants = fc.copy()
        phc.force_constants = full_fc_to_compact_fc(ph.primitive, fc)
        qpt = rand_q(rng, "random")
        info = dict(cell=name, smat=np.array(smat).tolist(), q=qpt.tolist(), nac=with_nac, fc="pair")
        dF = DerivativeOfDynamicalMatrix(ph.dynamical_matrix)
        dCm = DerivativeOfDynamicalMatrix(phc.dynamical_matrix)
        dF.run(qpt, lang="C")
        dCm.run(qpt, lang="C")
        a, b = dF.d_dynamical_matrix.copy(), dCm.d_dynamical_matrix.copy()
        sc = max(1e-3, np.abs(a).max())
        run.count("oracle-compact-fc-vs-full-fc", section="oracle")
        if np.abs(a - b).max() > TOL * sc:
            run.violation(SITE_C, "compact-fc", "derivative with compact force constants differs from the one with full force constants by %.3g (scale %.3g)" % (
                np.abs(a - b).max(), sc), info)
        reclat = np.array(np.linalg.inv(ph.primitive.cell), dtype="double", order="C")
        if not (with_nac and np.linalg.norm(reclat @ qpt) < 1e-2):
            num = numeric_dD(phc.dynamical_matrix, qpt, ph.primitive.cell)
            if np.abs(num - b).max() > TOL_NUM * sc:
                run.violation(SITE_C, "compact-fc", "compact-fc derivative differs from the numerical derivative of D(q) by %.3g (scale %.3g)" % (
                    np.abs(num - b).max(), sc), info)
        run.case(("compact", name, np.array(smat).tolist(), qpt.tolist(), with_nac), nontrivial=ns > len(cell))
        run.count("compact-fc case")
        if with_nac:
            # the q_direction argument: both paths evaluate the NAC term at q_direction instead of q
            for qq in (np.zeros(3), qpt):
                qd = np.array([rng.choice([1.0, 0.0, -1.0, 0.5, 0.25]) for _ in range(3)])
                if not qd.any():
                    qd = np.array([1.0, 0.0, 0.0])
                dF.run(qq, q_direction=qd, lang="C")
                c1 = dF.d_dynamical_matrix.copy()
                dF.run(qq, q_direction=qd, lang="Py")
                p1 = dF.d_dynamical_matrix.copy()
                sc1 = max(1e-3, np.abs(p1).max())
                run.count("oracle-q_direction-C-vs-Py", section="oracle")
                inf2 = dict(info, q=qq.tolist(), q_direction=qd.tolist())
                if np.abs(c1 - p1).max() > TOL * sc1:
                    run.violation(SITE_C, "q_direction", "compiled and Python derivative differ by %.3g (scale %.3g) when q_direction is given" % (
                        np.abs(c1 - p1).max(), sc1), inf2)
                dmn = ph.dynamical_matrix
                nac = (np.array(dmn.born), np.array(dmn.dielectric_constant), reclat @ qd, nac_factor_phys(ph, nacp["factor"]) * len(ph.primitive) / len(ph.supercell))
                lines.append(request_ddmall(spec, ph, dF, np.array(dmn.force_constants), qq, nac))
                meta.append(("ddmall", inf2, 3 * len(ph.primitive), dict(C=c1, Py=p1, D=None)))
        done += 1

    # ---------------- sequences on ONE set of objects: DynamicalMatrix(Wang) + DerivativeOfDynamicalMatrix + GroupVelocity,
    # evaluate -> mutate the dynamical matrix through its public setter (nac_params) -> evaluate again with the SAME objects
    from phonopy.phonon.group_velocity import GroupVelocity as _GVc

    seq_cases = [("nacl_prim", np.diag([2, 2, 2])), ("cscl", np.array([[2, 1, 0], [0, 2, 0], [0, 0, 1]]))]
    if thorough:
        seq_cases += [("zincblende_prim", np.diag([2, 2, 2])), ("hcp", np.diag([2, 2, 1]))]
    for (name, smat) in seq_cases:
        cell = make_cell(name)
        ph = Phonopy(cell, supercell_matrix=smat, primitive_matrix="P", log_level=0, is_symmetry=False)
        ph.nac_params = rand_nac(rng, len(cell))
        ph.force_constants = gen.pair_fc(ph.supercell, 4.5)
        dm = ph.dynamical_matrix
        ddm_obj = DerivativeOfDynamicalMatrix(dm)
        gv_obj = _GVc(dm, frequency_factor_to_THz=ph.unit_conversion_factor)
        npa = len(ph.primitive)
        reclat = np.array(np.linalg.inv(ph.primitive.cell), dtype="double", order="C")
        for k_ in range(3):
            if k_ > 0:
                newp = rand_nac(rng, len(cell))
                newp["born"] = newp["born"] * (1.5 if k_ == 1 else 0.5) + 0.3 * np.eye(3)
                dm.nac_params = newp  # public setter of DynamicalMatrixNAC
            qpt = np.array([rng.uniform(0.08, 0.45) * rng.choice([1, -1]) for _ in range(3)])
            info = dict(cell=name, smat=np.array(smat).tolist(), q=qpt.tolist(), step=k_, history=["build"] + ["dynmat.nac_params = ..."] * k_)
            ddm_obj.run(qpt, lang="C")
            dC = ddm_obj.d_dynamical_matrix.copy()
            ddm_obj.run(qpt, lang="Py")
            dP = ddm_obj.d_dynamical_matrix.copy()
            fresh = DerivativeOfDynamicalMatrix(dm)
            fresh.run(qpt, lang="C")
            dF = fresh.d_dynamical_matrix.copy()
            num = numeric_dD(dm, qpt, ph.primitive.cell)
            sc = max(1e-3, np.abs(num).max())
            klass = "reused-objects-after-nac_params-setter" if k_ > 0 else "sequence-initial"
            run.count("oracle-sequence-derivative(reused object vs numeric/Py/fresh)", section="oracle")
            for what, ref, tol in (("the numerical derivative of the current D(q)", num, TOL_NUM), ("lang='Py' of the same object", dP, TOL),
                                   ("a freshly built DerivativeOfDynamicalMatrix", dF, TOL)):
                if np.abs(dC - ref).max() > tol * sc:
                    run.violation(SITE_C, klass, "compiled derivative of a reused DerivativeOfDynamicalMatrix differs from %s by %.3g (scale %.3g)" % (
                        what, np.abs(dC - ref).max(), sc), info)
                    break
            # group velocities of the reused GroupVelocity object: fresh object, and gradient of the current frequencies
            gv_obj.run([qpt])
            gv_r = gv_obj.group_velocities[0].copy()
            gfresh = _GVc(dm, frequency_factor_to_THz=ph.unit_conversion_factor)
            gfresh.run([qpt])
            gv_f = gfresh.group_velocities[0].copy()
            run.count("oracle-sequence-group-velocity(reused object vs fresh/gradient)", section="oracle")
            if np.abs(gv_r - gv_f).max() > 1e-9 * max(1.0, np.abs(gv_f).max()):
                run.violation("GroupVelocity.run", klass, "group velocities of a reused GroupVelocity differ from those of a fresh one by %.3g" % np.abs(gv_r - gv_f).max(), info)
            dm.run(qpt)
            f0 = np.sqrt(np.abs(np.linalg.eigvalsh(dm.dynamical_matrix))) * ph.unit_conversion_factor
            lat = ph.primitive.cell

            def fr(qq):
                dm.run(qq)
                ev_ = np.linalg.eigvalsh(dm.dynamical_matrix)
                return np.sqrt(np.abs(ev_)) * np.sign(ev_) * ph.unit_conversion_factor

            h = 1e-4
            grad = np.zeros_like(gv_r)
            for a_ in range(3):
                e = np.zeros(3)
                e[a_] = 1
                dq = lat @ e
                c1 = (fr(qpt + h * dq) - fr(qpt - h * dq)) / (2 * h)
                c2 = (fr(qpt + h / 2 * dq) - fr(qpt - h / 2 * dq)) / h
                grad[:, a_] = (4 * c2 - c1) / 3
            for nu in range(len(f0)):
                gaps = np.abs(np.delete(f0, nu) - f0[nu])
                if f0[nu] < FMIN or gaps.min() < GAP:
                    continue
                if np.abs(grad[nu] - gv_r[nu]).max() > 1e-5 * max(1.0, np.abs(gv_r[nu]).max()):
                    run.violation("GroupVelocity.run", klass, "group velocity %s of a reused GroupVelocity differs from the gradient %s of the current frequency (band %d)" % (
                        gv_r[nu].tolist(), grad[nu].tolist(), nu), info)
                    break
            # the model, fed with the CURRENT parameters of the dynamical matrix
            nac = (np.array(dm.born), np.array(dm.dielectric_constant), reclat @ qpt, nac_factor_phys(ph, 14.399652) * npa / len(ph.supercell))
            dm.run(qpt)
            lines.append(request_ddmall(spec, ph, ddm_obj, np.array(dm.force_constants), qpt, nac))
            meta.append(("ddmall", info, 3 * npa, dict(C=dC, Py=dP, D=dm.dynamical_matrix.copy())))
            run.case(("seq", name, np.array(smat).tolist(), k_, qpt.tolist()), nontrivial=k_ > 0)
            run.count("sequence step %d (%s)" % (k_, "after nac_params setter" if k_ else "initial"))
        # the Phonopy-level route rebuilds everything: same check through the API
        ph.run_qpoints([qpt], with_group_velocities=True)
        ph.nac_params = rand_nac(rng, len(cell))
        ph.run_qpoints([qpt], with_group_velocities=True)
        g1 = ph.get_qpoints_dict()["group_velocities"][0]
        ph2 = Phonopy(cell, supercell_matrix=smat, primitive_matrix="P", log_level=0, is_symmetry=False)
        ph2.nac_params = ph.nac_params
        ph2.force_constants = np.array(ph.force_constants).copy()
        ph2.run_qpoints([qpt], with_group_velocities=True)
        g2 = ph2.get_qpoints_dict()["group_velocities"][0]
        run.count("oracle-sequence-Phonopy.nac_params-route", section="oracle")
        if np.abs(g1 - g2).max() > 1e-9 * max(1.0, np.abs(g2).max()):
            run.violation("Phonopy.run_qpoints(with_group_velocities=True)", "after-Phonopy.nac_params", "group velocities after Phonopy.nac_params = ... differ from a fresh Phonopy object by %.3g" % np.abs(g1 - g2).max(),
                          dict(cell=name, smat=np.array(smat).tolist(), q=qpt.tolist()))

    # ---------------- designated q-points OUTSIDE the first cell: q - rint(q) lies on a symmetry line/plane although q itself
    # (for Wang NAC, whose D(q) is not periodic in G) has a smaller site symmetry; group velocities must be the gradient
    # of the frequencies, Grueneisen parameters the per-q derivative, with and without NAC
    oc_cases = [("zincblende_prim", np.diag([2, 2, 2]), 1.9, 3.1), ("nacl_prim", np.diag([2, 2, 2]), 1.1, 2.6), ("cscl", np.diag([2, 2, 2]), 1.4, 2.2)]
    oc_qs = [[1.375, -0.375, 0.375], [0.25, 1.25, -0.75], [1.3, 0.0, 1.0], [2.2, 1.2, 0.0], [1.15, -0.65, 2.35]]
    for ic_, (name, smat, zb, epsv) in enumerate(oc_cases):
        cell = make_cell(name)
        for with_nac in (True, False):
            trip, vols = [], []
            for sc_ in (1.0, 1.012, 0.991):
                c2 = cell.copy()
                c2.cell = cell.cell * sc_ ** (1.0 / 3)
                p_ = Phonopy(c2, supercell_matrix=smat, primitive_matrix="P", log_level=0)
                if with_nac:
                    p_.nac_params = {"born": np.array([np.eye(3) * zb, -np.eye(3) * zb]), "dielectric": np.eye(3) * epsv, "factor": 14.399652, "method": "wang"}
                p_.force_constants = gen.pair_fc(p_.supercell, 4.5 * sc_ ** (1.0 / 3))
                trip.append(p_)
                vols.append(p_.primitive.volume)
            ph = trip[0]
            lat = ph.primitive.cell
            qsel = [oc_qs[0]] + [oc_qs[1 + (ic_ + k_) % 4] for k_ in range(1 if not thorough else 3)]
            for qv in qsel:
                qpt = np.array(qv, dtype=float)
                info = dict(cell=name, smat=smat.tolist(), q=qpt.tolist(), nac="wang" if with_nac else None, born=zb if with_nac else None, dielectric=epsv if with_nac else None)
                ph.run_qpoints([qpt], with_group_velocities=True)
                qd_ = ph.get_qpoints_dict()
                f0, gv = qd_["frequencies"][0].copy(), qd_["group_velocities"][0].copy()
                h = 1e-4
                grad = np.zeros_like(gv)
                for a_ in range(3):
                    e = np.zeros(3)
                    e[a_] = 1
                    dq = lat @ e

                    def fr(hh):
                        ph.run_qpoints([qpt + hh * dq])
                        return ph.get_qpoints_dict()["frequencies"][0]

                    c1 = (fr(h) - fr(-h)) / (2 * h)
                    c2 = (fr(h / 2) - fr(-h / 2)) / h
                    grad[:, a_] = (4 * c2 - c1) / 3
                nm = 0
                for nu in range(len(f0)):
                    gaps = np.abs(np.delete(f0, nu) - f0[nu])
                    if f0[nu] < FMIN or gaps.min() < GAP:
                        run.count("oracle-gv-skipped-mode(gap/cutoff filter)", section="oracle")
                        continue
                    nm += 1
                    run.count("oracle-gv-mode-outside-first-cell", section="oracle")
                    if np.abs(grad[nu] - gv[nu]).max() > 1e-5 * max(1.0, np.abs(gv[nu]).max()):
                        run.violation("Phonopy.run_qpoints(with_group_velocities=True)", "nondegenerate-mode-outside-first-cell" + ("-nac" if with_nac else ""),
                                      "group velocity %s differs from the finite-difference gradient %s of the mode frequency (band %d, f=%.4f THz) at a q-point "
                                      "outside the first cell" % (gv[nu].tolist(), grad[nu].tolist(), nu, f0[nu]), info)
                # Grueneisen parameters at the same q through the band-structure front end vs the per-q derivative
                q2 = qpt + np.array([0.04, 0.03, -0.05])
                grq = PhonopyGruneisen(trip[0], trip[1], trip[2])
                grq.set_band_structure([np.array([qpt, q2])])
                _, _, bfq, _, bgq = grq.get_band_structure()
                fac_ = ph.unit_conversion_factor
                for iq_, qq_ in enumerate((qpt, q2)):
                    ref, lam_i = indep_gruneisen(trip, vols, qq_, q_direction=(qpt - q2) if with_nac else None)
                    if ref is None:
                        continue
                    lam_b = np.sign(bfq[0][iq_]) * (bfq[0][iq_] / fac_) ** 2
                    a_, b_ = np.sort(bgq[0][iq_][np.abs(lam_b) > 1e-6]), np.sort(ref[np.abs(lam_i) > 1e-6])
                    run.count("oracle-gruneisen-outside-first-cell-q", section="oracle")
                    if len(a_) != len(b_) or (len(a_) and np.abs(a_ - b_).max() > 1e-6 * max(1.0, np.abs(b_).max())):
                        run.violation("PhonopyGruneisen.get_band_structure", "outside-first-cell" + ("-nac" if with_nac else ""),
                                      "mode Grueneisen parameters %s at q=%s differ from -(V/2 lambda)<e|dD/dV|e> = %s" % (a_.tolist(), qq_.tolist(), b_.tolist()), info)
                # the whole pipeline (with the little-group average) against the model
                line_, gv_i, cert, nsel, hyp, dsz = gv_pipeline_requests(ph, qpt, True)
                if hyp > 1e-8:
                    run.broke("correspondence", "eigh certificate of the restricted derivative fails numerically (%.3g)" % hyp, info)
                gv_lines.append(line_)
                gv_meta.append(("gvfull", dict(info, symmetrised=True, degenerate_set_sizes=dsz), (gv_i, nsel)))
                if cert is not None:
                    gv_lines.append(cert)
                    gv_meta.append(("lgcert", dict(info, little_group_order=nsel), None))
                run.case(("gv-outside", name, qpt.tolist(), with_nac), nontrivial=nm > 0)
                run.count("gv/gruneisen q outside the first cell (%s)" % ("Wang NAC" if with_nac else "no NAC"))

    # ---------------- designated long-wavelength q-points: nearly degenerate acoustic branches
    # (bands are grouped with a tolerance of 1e-4 THz on the FREQUENCIES; a mode farther than that from every other band
    # is non-degenerate and its group velocity must be the gradient of its own frequency)
    lw_cases = [("nacl_prim", np.diag([2, 2, 2]), [0.37, 0.81, -0.45]), ("bct", np.diag([2, 2, 2]), [0.52, -0.23, 0.82]),
                ("hcp", np.diag([2, 2, 1]), [0.61, 0.27, 0.74])]
    for (name, smat, dvec) in lw_cases:
        cell = make_cell(name)
        ph = Phonopy(cell, supercell_matrix=smat, primitive_matrix="P", log_level=0)
        ph.force_constants = gen.pair_fc(ph.supercell, 4.5)
        lat = ph.primitive.cell
        reclat = np.linalg.inv(lat)
        dvec = np.array(dvec) / np.linalg.norm(dvec)
        for qlen in (0.002, 0.004, 0.008):
            qpt = dvec * qlen
            ph.run_qpoints([qpt], with_group_velocities=True)
            qd_ = ph.get_qpoints_dict()
            f0, gv = qd_["frequencies"][0].copy(), qd_["group_velocities"][0].copy()
            info = dict(cell=name, smat=smat.tolist(), q=qpt.tolist(), q_length_rlu=qlen)
            qc = np.linalg.norm(reclat @ qpt)
            nm = 0
            for nu in range(len(f0)):
                gaps = np.abs(np.delete(f0, nu) - f0[nu])
                if f0[nu] <= 1e-4 or gaps.min() <= 1.2e-4:
                    run.count("oracle-gv-long-wavelength-skipped-mode(gap <= 1.2e-4 THz or below gv cutoff)", section="oracle")
                    continue
                # step: well inside |q| and small against the distance to the next band
                h = min(qc / 40.0, 0.02 * gaps.min() / max(1.0, np.abs(gv).max()))
                grad = np.zeros(3)
                for a_ in range(3):
                    e = np.zeros(3)
                    e[a_] = 1
                    dq = lat @ e

                    def fr(hh):
                        ph.run_qpoints([qpt + hh * dq])
                        return ph.get_qpoints_dict()["frequencies"][0][nu]

                    c1 = (fr(h) - fr(-h)) / (2 * h)
                    c2 = (fr(h / 2) - fr(-h / 2)) / h
                    grad[a_] = (4 * c2 - c1) / 3
                nm += 1
                run.count("oracle-gv-long-wavelength-mode", section="oracle")
                if np.abs(grad - gv[nu]).max() > 1e-3 * max(1.0, np.abs(gv[nu]).max()):
                    run.violation("Phonopy.run_qpoints(with_group_velocities=True)", "nondegenerate-mode-long-wavelength",
                                  "group velocity %s differs from the finite-difference gradient %s of the mode frequency (band %d, f=%.5f THz, "
                                  "nearest band %.3g THz away, |q|=%g r.l.u.)" % (gv[nu].tolist(), grad.tolist(), nu, f0[nu], gaps.min(), qlen), info)
            line_, gv_i, cert, nsel, hyp, dsz = gv_pipeline_requests(ph, qpt, False)
            if hyp > 1e-8:
                run.broke("correspondence", "eigh certificate of the restricted derivative fails numerically (%.3g)" % hyp, info)
            gv_lines.append(line_)
            gv_meta.append(("gvfull", dict(info, symmetrised=False, degenerate_set_sizes=dsz), (gv_i, 0)))
            run.case(("gv-lw", name, smat.tolist(), qpt.tolist()), nontrivial=nm > 0)
            run.count("gv-long-wavelength case")

    # ---------------- group velocities at high-symmetry q (little-group symmetrisation), symmetric crystals
    nhs = 80 if thorough else 6
    done = tries = 0
    while done < nhs and tries < 10 * nhs:
        tries += 1
        name = rng.choice(["sc1", "cscl", "nacl_prim", "zincblende_prim", "bct", "hcp"])
        cell = make_cell(name)
        smat = rng.choice([np.diag([2, 2, 2]), np.diag([2, 2, 1]), np.diag([3, 3, 3]), np.array([[1, 1, 0], [-1, 1, 0], [0, 0, 1]]),
                           np.array([[1, 1, 0], [-1, 1, 0], [0, 0, 2]]), np.array([[1, -1, 0], [1, 2, 0], [0, 0, 1]])])
        if len(cell) * int(round(abs(np.linalg.det(smat)))) > 32:
            continue
        ph = Phonopy(cell, supercell_matrix=smat, primitive_matrix="P", log_level=0)
        if len(ph.symmetry.pointgroup_operations) != len(ph.primitive_symmetry.pointgroup_operations):
            continue
        ph.force_constants = gen.pair_fc(ph.supercell, 4.5)
        x = rng.choice([0.1, 0.15, 0.2, 0.3, 0.35])
        qpt = np.array(rng.choice([[x, 0, 0], [0, x, 0], [x, x, 0], [x, x, x], [x, 0, x], [0.5, x, 0], [x, x, 0.5], [0, 0, x]]), dtype=float)
        if done % 2 == 1:  # the same symmetry line/plane seen from another cell of reciprocal space
            qpt = qpt + np.array([rng.choice([-2, -1, 1, 2]), rng.choice([-2, -1, 0, 1, 2]), rng.choice([-1, 0, 1])], dtype=float)
            run.count("gv high-symmetry q shifted by a reciprocal lattice vector")
        ph.run_qpoints([qpt], with_group_velocities=True)
        qd_ = ph.get_qpoints_dict()
        f0, gv = qd_["frequencies"][0], qd_["group_velocities"][0]
        lat = ph.primitive.cell
        h = 1e-4
        grad = np.zeros_like(gv)
        for a_ in range(3):
            e = np.zeros(3)
            e[a_] = 1
            dq = lat @ e

            def fr(hh):
                ph.run_qpoints([qpt + hh * dq])
                return ph.get_qpoints_dict()["frequencies"][0]

            c1 = (fr(h) - fr(-h)) / (2 * h)
            c2 = (fr(h / 2) - fr(-h / 2)) / h
            grad[:, a_] = (4 * c2 - c1) / 3
        nrot = 0
        for r_ in ph.primitive_symmetry.reciprocal_operations:
            qb = qpt - np.rint(qpt)
            if (np.abs(qb - np.dot(r_, qb)) < 1e-5).all():
                nrot += 1
        info = dict(cell=name, smat=np.array(smat).tolist(), q=qpt.tolist(), little_group_order=nrot)
        nm = 0
        for nu in range(len(f0)):
            gaps = np.abs(np.delete(f0, nu) - f0[nu]) if len(f0) > 1 else np.array([1e9])
            if f0[nu] < FMIN or gaps.min() < GAP:
                run.count("oracle-gv-skipped-mode(gap/cutoff filter)", section="oracle")
                continue
            nm += 1
            run.count("oracle-gv-mode-high-symmetry-q", section="oracle")
            if np.abs(grad[nu] - gv[nu]).max() > 1e-5 * max(1.0, np.abs(gv[nu]).max()):
                run.violation("Phonopy.run_qpoints(with_group_velocities=True)", "nondegenerate-mode-high-symmetry-q",
                              "symmetrised group velocity %s differs from the finite-difference gradient %s (band %d, little group of order %d)" % (
                                  gv[nu].tolist(), grad[nu].tolist(), nu, nrot), info)
        # the whole pipeline (degenerate-set rotation, scaling, little-group average) against the model
        for wsym in (True, False):
            line_, gv_i, cert, nsel, hyp, dsz = gv_pipeline_requests(ph, qpt, wsym)
            if wsym and np.abs(gv_i - gv).max() > 1e-12 * max(1.0, np.abs(gv).max()):
                run.violation("GroupVelocity.run", "api-vs-class", "Phonopy.run_qpoints and GroupVelocity give different group velocities", info)
            if hyp > 1e-8:
                run.broke("correspondence", "eigh certificate of the restricted derivative fails numerically (%.3g)" % hyp, info)
            gv_lines.append(line_)
            gv_meta.append(("gvfull", dict(info, symmetrised=wsym, degenerate_set_sizes=dsz), (gv_i, nsel)))
            if cert is not None:
                gv_lines.append(cert)
                gv_meta.append(("lgcert", dict(info, little_group_order=nsel), None))
        run.case(("gv-hs", name, np.array(smat).tolist(), qpt.tolist()), nontrivial=nm > 0 and nrot > 1)
        run.count("gv-high-symmetry case (little group order %d)" % nrot)
        done += 1

    # ---------------- correspondence with the Lean model
    all_lines, all_meta = [], []
    for l_, m_ in zip(lines + gv_lines + gr_lines, meta + gv_meta + gr_meta):
        if l_ is None:
            run.broke("correspondence", "private attributes needed for the model inputs are not accessible (%s): model inputs unavailable" % m_[0], m_[1])
        else:
            all_lines.append(l_)
            all_meta.append(m_)
    out = common.lean_run_driver("C12", all_lines)
    if len(out) != len(all_lines):
        run.broke("correspondence", "driver answered %d lines for %d requests" % (len(out), len(all_lines)))
    ncmp = 0
    for m_, line in zip(all_meta, out):
        kind, info = m_[0], m_[1]
        if kind == "ddmall":
            d, impl = m_[2], m_[3]
            mod = parse_ddmall(line, d)
            if mod is None:
                run.broke("correspondence", "model rejected input (ddmall)", info)
                continue
            for key, ref in (("C", impl["C"]), ("Py", impl["Py"]), ("D", impl["D"])):
                if ref is None or (key == "C" and not spec_ok):
                    continue
                ncmp += 1
                run.count("ddm-%s" % key, section="correspondence")
                sc = max(1e-6, np.abs(ref).max())
                if np.abs(mod[key] - ref).max() > TOL * sc:
                    run.broke("correspondence", "%s: implementation differs from model by %.3g (scale %.3g)" % (
                        key, np.abs(mod[key] - ref).max(), sc), info)
            run.count("loop-vs-closed-form", section="correspondence")
            if not np.array_equal(mod["C"], mod["Cclosed"]):
                run.broke("correspondence", "in-place Hermitisation loop differs from its closed form in the model", info)
        elif kind == "gvfull":
            gv_i, nsel = m_[2]
            if line == "bad-op":
                run.broke("correspondence", "model rejected input (gvfull)", info)
                continue
            vals, cnt = line.split("|")
            mod = np.array([float(Fraction(t)) for t in vals.split()]).reshape(gv_i.shape)
            ncmp += 1
            run.count("gv-pipeline%s" % ("-symmetrised" if info["symmetrised"] else ""), section="correspondence")
            if int(cnt) != nsel:
                run.broke("correspondence", "little group: model selects %s operations, implementation %d" % (cnt.strip(), nsel), info)
            if np.abs(mod - gv_i).max() > TOL * max(1.0, np.abs(gv_i).max()):
                run.broke("correspondence", "gv pipeline: implementation differs from model by %.3g" % np.abs(mod - gv_i).max(), info)
        elif kind == "lgcert":
            run.count("little-group-certificates", section="correspondence")
            if line != "true":
                run.broke("correspondence", "little group of q is not closed under multiplication (certificate groupTableOk = %s)" % line, info)
        elif kind == "fdd":
            ref = m_[2]
            if line == "bad-op":
                run.broke("correspondence", "model rejected input (fdd)", info)
                continue
            v = np.array([float(Fraction(t)) for t in line.split()]).reshape(ref.shape + (2,))
            mod = v[..., 0] + 1j * v[..., 1]
            ncmp += 1
            run.count("fd-dD", section="correspondence")
            if np.abs(mod - ref).max() > TOL * max(1e-6, np.abs(ref).max()):
                run.broke("correspondence", "finite-difference dD: implementation differs from model by %.3g" % np.abs(mod - ref).max(), info)
        else:
            ref = m_[2]
            if line == "bad-op":
                run.broke("correspondence", "model rejected input (%s)" % kind, info)
                continue
            val = float(Fraction(line))
            ncmp += 1
            run.count(kind, section="correspondence")
            if abs(val - ref) > TOL * max(1.0, abs(ref)):
                run.broke("correspondence", "%s: implementation %.15g vs model %.15g" % (kind, ref, val), info)
    run.cov["correspondence"]["compared"] = ncmp
    run.cov["oracle"]["C-derivative-fails-on-non-symmetric-fc(cases)"] = f15_hits
    run.cov["partial"] = ["gv_eq_grad_freq_*_partial: the existence of a continuous eigen-branch through a simple eigenvalue is assumed (hellmann_feynman itself is proved; FullStatement_gv_eq_grad_freq stated, not proved); carried by the finite-difference oracle on the reported frequencies"]
    if as_written:
        run.cov["partial"].append("py_eq_c_on_symmetric holds only for index-permutation symmetric force constants while the source has "
                                  "`for (j = i; ...)`; c_ne_py_witness is the Lean counterexample; ddmC_fixed_eq_py is the theorem for the repaired bounds")
