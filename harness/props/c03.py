"""C03 — the dynamical matrix is Hermitian, time-reversal symmetric, G-periodic and symmetry-invariant;
acoustic sum rule gives three zero modes at Gamma; eigenvalues scale with s/t."""

import warnings

import numpy as np

from .. import common, gen
from . import dynmat_util as U

TOL = 1e-8
TOL_MODEL = 1e-9


def main(run):
    rng = run.rng
    warnings.simplefilter("ignore", DeprecationWarning)
    common.setup_phonopy("omp")
    from phonopy import Phonopy
    from phonopy.harmonic.force_constants import compact_fc_to_full_fc, full_fc_to_compact_fc
    import phonopy.units as units

    thorough = run.tier == "thorough"
    run.proof_step(leancheck=thorough)
    factor = float(units.VaspToTHz)
    run.cov["rule"] = (
        "oracle on the implementation: prototype crystals (all centrings) x supercell matrices (diagonal, non-diagonal) x "
        "force constants {random non-symmetric k/8, pair-potential short range (space-group symmetric, sum rules), "
        "pair-potential long range (periodic-image sums), random lattice-periodic then symmetrised by Phonopy.symmetrize_force_constants}; q random / commensurate / zone boundary / outside "
        "the first zone; identities evaluated through Phonopy.run_qpoints(with_dynamical_matrices=True) for full and "
        "compact fc, OpenMP and serial library: D = D^dagger, D(-q) = conj D(q), D(q+G) = U^dagger D(q) U and equal "
        "spectra, spectra of q and Rq for every R in primitive_symmetry.reciprocal_operations (symmetric short-range fc), "
        "D(Rq) = Gamma D(q) Gamma^T for every space-group operation that maps the supercell onto itself (any range; the "
        "index maps of the operation are certified by the Lean model: svecsInvariantOk, svdev), three zero "
        "eigenvalues at Gamma (sum-rule fc), eigenvalues x s/t after fc*s and Phonopy.masses = t*masses -- on a fresh evaluation "
        "and on ONE already-evaluated object (evaluate, set masses / force constants through the public setters, evaluate "
        "again, both orders, through run_qpoints, run_mesh, run_band_structure and dynamical_matrix.run); "
        "tolerance 1e-8*||D||. correspondence: a sample of cases against the Lean model (the full correspondence is C02's). "
        "Additionally 3 relabelled descriptions per run (gen.relabelled_cell, at least one left-handed; without NAC, Wang NAC, "
        "Gonze-Lee NAC): Hermiticity, time reversal, q+G (no NAC), rotations of the relabelled cell's own symmetry, scaling, "
        "and the spectrum at qmap(q) against the original description. "
        "Additionally wurtzite / hcp with fractional coordinates rounded to six decimals (noise inside symprec) and long-range "
        "pair force constants of the ideal sites: spectra of q and Rq agree to 1e-7*||D||. "
        "Non-trivial = supercell larger than the primitive cell, q not Gamma (except the acoustic clause), matrix non-zero.")
    run.cov["trusted_base"] = [
        "Lean 4.33 kernel; Mathlib v4.33; axioms per theorem in coverage.theorems",
        "hand-written model Model/DynMat.lean tied to c/dynmat.c and dynamical_matrix.py by the correspondence runs of C02 and C03",
        "nanobind replaced by harness/nbstub (c/_phonopy.cpp itself is compiled unchanged)",
        "LAPACK eigvalsh (numpy) for spectra; libm cos/sin/sqrt are parameters of the model",
        "spglib supplies the reciprocal point-group operations",
    ]
    run.assumptions += [
        "IEEE rounding of the C/Python code is not modelled (tolerance 1e-8*||D||)",
        "invariance under q -> Rq: theorem dynmat_rotation for operations preserving the supercell (hypotheses: index-map "
        "certificate evaluated in Lean per (crystal, operation), covariance of the generated force constants checked "
        "numerically), theorem dynmat_rotation_fourier for short range / commensurate q; for the other operations of "
        "primitive_symmetry.reciprocal_operations the oracle evaluates it on short-range force constants only",
        "matrix identities of the Lean theorems that are stronger than the property (D(q+G) = U^dagger D U, D(Rq) = Gamma D Gamma^T, "
        "D(s fc, t m) = (s/t) D, C = Py, table certificates) are reported as 'correspondence no longer checks', the failing-input "
        "verdict comes from spectra / eigenvalues / Hermiticity / D(-q) = conj D(q) only",
    ]
    run.cov["partial"] = [
        "dynmat_rotation (any q, any range) is proved for operations that map the supercell onto itself (certificate "
        "svecsInvariantOk); for operations of the primitive cell that do not preserve the supercell the invariance of the "
        "spectrum holds only for short-range force constants (dynmat_rotation_fourier) and is otherwise not a property of the code",
        ]

    names = list(gen.PROTOTYPES)
    ncases = 520 if thorough else 64
    max_ns = 96 if thorough else 54
    short_smats = [np.diag(d) for d in ((2, 2, 2), (3, 3, 3), (2, 2, 3), (3, 2, 2))] + [
        np.array(m) for m in ([[2, 1, 0], [0, 2, 0], [0, 0, 2]], [[2, 0, 1], [-1, 2, 0], [0, 1, 2]], [[-1, 1, 1], [1, -1, 1], [1, 1, -1]],
                              [[-2, 2, 2], [2, -2, 2], [2, 2, -2]], [[0, 2, 2], [2, 0, 2], [2, 2, 0]], [[2, 1, 0], [-1, 2, 0], [0, 0, 2]])]
    cases = []
    attempts = 0
    plan = [["random", "pair-short", "pair-long", "symmetrised", "pair-short", "pair-long"][i % 6] for i in range(ncases)]
    while len(cases) < ncases and attempts < 200 * ncases:
        attempts += 1
        name = rng.choice(names)
        cell, cen = U.get_cell(name)
        fckind = plan[len(cases)]
        if fckind == "pair-short":
            smat = short_smats[rng.randrange(len(short_smats))]
        else:
            smat = rng.choice(gen.supercell_matrices(rng, max_det=8, count=16) + short_smats[:2])
        det = int(round(np.linalg.det(smat)))
        if det < 1 or len(cell) * det > max_ns:
            continue
        pm, pmlabel = U.pick_pmat(rng, cen)
        try:
            ph = Phonopy(cell, supercell_matrix=smat, primitive_matrix=pm, log_level=0,
                         store_dense_svecs=rng.random() < 0.8)
        except Exception:
            run.count("constructor-rejected")
            continue
        sc, pc = ph.supercell, ph.primitive
        ns, npa = len(sc), len(pc)
        minv = gen.min_lattice_vector(sc.cell)
        info = dict(cell=name, smat=smat.tolist(), pmat=pmlabel, fc=fckind, n_satom=ns, n_patom=npa)
        if fckind == "pair-short":
            cutoff = minv * rng.uniform(0.40, 0.495)
            if cutoff < U.nn_distance(cell) * 1.001:
                continue
            kfun, kdesc = U.make_kfun(rng)
            fc = gen.pair_fc(sc, cutoff, kfun=kfun, images=U.images_needed(sc.cell, cutoff))
            info.update(cutoff=float(cutoff), kfun=kdesc)
        elif fckind == "pair-long":
            # range beyond half the supercell: the supercell force constants are periodic-image sums
            nn = U.nn_distance(cell)
            lo = max(nn * 1.01, 0.55 * minv)
            cutoff = rng.uniform(lo, max(lo * 1.05, 1.3 * minv))
            im = U.images_needed(sc.cell, cutoff)
            if im > 4 or ns ** 2 * (2 * im + 1) ** 3 > 1.5e6:
                continue
            kfun, kdesc = U.make_kfun(rng)
            fc = gen.pair_fc(sc, cutoff, kfun=kfun, images=im)
            info.update(cutoff=float(cutoff), kfun=kdesc)
        else:
            fcseed = rng.randrange(10 ** 9)
            fc = gen.rand_rational_array(__import__("random").Random(fcseed), (ns, ns, 3, 3))
            info.update(fc_seed=fcseed)
            if fckind == "symmetrised":
                # a lattice-periodic array (expanded from a random compact one), then Phonopy's own symmetriser
                fc = compact_fc_to_full_fc(pc, np.array(fc[np.array(pc.p2s_map)], order="C"))
                ph.force_constants = fc.copy()
                ph.symmetrize_force_constants()
                fc = np.array(ph.force_constants, copy=True)
        if rng.random() < 0.5:
            # one mass per species, so that the crystal keeps its symmetry (the rotation clause needs it)
            bysp = {int(z): rng.randint(1, 60) / 4.0 for z in sorted(set(int(z) for z in pc.numbers))}
            ph.masses = [bysp[int(z)] for z in pc.numbers]
        info["masses"] = list(map(float, ph.primitive.masses))
        qs = U.qpoints(rng, ph, n_random=2, n_comm=1, n_zb=1, n_out=1)
        G = np.array([rng.randint(-3, 3) for _ in range(3)], dtype=float)
        if not G.any():
            G[rng.randrange(3)] = rng.choice([-2, -1, 1, 2])
        s_fac = rng.choice([0.25, 0.5, 2.0, 3.0, 7.5])
        t_fac = rng.choice([0.5, 2.0, 4.0, 1.5, 10.0])
        cases.append(dict(ph=ph, fc=fc, qs=qs, G=G, s=s_fac, t=t_fac, info=info, kind=fckind, cell=cell, smat=smat, pm=pm))
        run.sample(dict(info, q=[(k, list(map(float, v))) for k, v in qs], G=G.tolist(), s=s_fac, t=t_fac), limit=6)

    def norm(d, floor):
        return max(float(np.linalg.norm(d)), floor)

    def dyn(ph, qarr):
        ph.run_qpoints(np.array(qarr), with_dynamical_matrices=True)
        d = ph.get_qpoints_dict()
        return np.array(d["dynamical_matrices"]), np.array(d["frequencies"])

    def oracle_pass(variant):
        for c in cases:
            ph, fc, info, kind = c["ph"], c["fc"], c["info"], c["kind"]
            pc = ph.primitive
            npa = len(pc)
            floor = float(np.abs(fc).max()) / float(min(pc.masses))
            fcc = full_fc_to_compact_fc(pc, fc)
            qlist = [x[1] for x in c["qs"]]
            kinds = [x[0] for x in c["qs"]]
            nq = len(qlist)
            xfrac = pc.scaled_positions
            for layout, arr in (("full", fc), ("compact", fcc)):
                ph.force_constants = arr.copy()
                allq = qlist + [-q for q in qlist] + [q + c["G"] for q in qlist]
                D, F = dyn(ph, allq)

                def viol(site, klass, what, qq=None, **kw):
                    run.violation(site, klass, what, dict(info, layout=layout, variant=variant,
                                                          q=None if qq is None else list(map(float, qq)), **kw))

                def modelstmt(what, qq=None, **kw):
                    """a statement of the Lean model that is stronger than the property (matrix identities, table
                    certificates): the correspondence no longer checks; the spectra/eigenvalue oracles decide"""
                    run.broke("correspondence", what, dict(info, layout=layout, variant=variant,
                                                           q=None if qq is None else list(map(float, qq)), **kw))

                for n, (qk, qq) in enumerate(zip(kinds, qlist)):
                    d0, dm, dg = D[n], D[nq + n], D[2 * nq + n]
                    nd = norm(d0, floor)
                    nontriv = len(ph.supercell) > npa and qk != "gamma" and float(np.abs(d0).max()) > 0
                    # Hermitian
                    for dd, lab in ((d0, "q"), (dm, "-q"), (dg, "q+G")):
                        if np.abs(dd - dd.conj().T).max() > TOL * nd:
                            viol("Phonopy.run_qpoints", "hermitian/%s/%s" % (kind, layout),
                                 "D(%s) is not Hermitian: max |D - D^dagger| = %.3g, ||D|| = %.3g" % (lab, np.abs(dd - dd.conj().T).max(), nd), qq)
                    run.count("hermitian %s/%s" % (kind, layout), section="oracle")
                    # the Python reference: Hermitian as well, and equal to the compiled kernel
                    if variant == "omp" and len(ph.supercell) * npa <= 64:
                        dmo = ph.dynamical_matrix
                        dmo.run(qq, lang="Py")
                        dpy = dmo.dynamical_matrix.copy()
                        if np.abs(dpy - dpy.conj().T).max() > TOL * nd:
                            viol("DynamicalMatrix.run", "hermitian-py/%s/%s" % (kind, layout), "Python-reference D(q) is not Hermitian", qq)
                        if np.abs(dpy - d0).max() > TOL * nd:
                            modelstmt("py_eq_c: Python reference differs from the compiled kernel by %.3g (C02 owns this clause)" % np.abs(dpy - d0).max(), qq)
                        run.count("hermitian-py %s/%s" % (kind, layout), section="oracle")
                    # time reversal
                    if np.abs(dm - d0.conj()).max() > TOL * nd:
                        viol("Phonopy.run_qpoints", "time-reversal/%s/%s" % (kind, layout),
                             "D(-q) != conj D(q): max diff %.3g, ||D|| = %.3g" % (np.abs(dm - d0.conj()).max(), nd), qq)
                    run.count("time-reversal %s/%s" % (kind, layout), section="oracle")
                    # q + G: conjugation by the diagonal unitary, equal spectra
                    u = np.repeat(np.exp(2j * np.pi * (xfrac @ c["G"])), 3)
                    conj = (u.conj()[:, None] * d0) * u[None, :]
                    if np.abs(dg - conj).max() > TOL * nd:
                        modelstmt("dynmat_G_shift: D(q+G) != U^dagger D(q) U: max diff %.3g, ||D|| = %.3g" % (np.abs(dg - conj).max(), nd), qq, G=c["G"].tolist())
                    e0 = np.linalg.eigvalsh((d0 + d0.conj().T) / 2)
                    eg = np.linalg.eigvalsh((dg + dg.conj().T) / 2)
                    if np.abs(e0 - eg).max() > TOL * nd:
                        viol("Phonopy.run_qpoints", "G-shift-spectrum/%s/%s" % (kind, layout),
                             "spectrum changes under q -> q+G by %.3g, ||D|| = %.3g" % (np.abs(e0 - eg).max(), nd), qq, G=c["G"].tolist())
                    lam0 = np.sign(F[n]) * (F[n] / factor) ** 2
                    lamg = np.sign(F[2 * nq + n]) * (F[2 * nq + n] / factor) ** 2
                    if np.abs(lam0 - lamg).max() > TOL * nd or np.abs(lam0 - e0).max() > TOL * nd:
                        viol("Phonopy.run_qpoints", "G-shift-frequencies/%s/%s" % (kind, layout),
                             "frequencies change under q -> q+G (or differ from eigvalsh of the returned matrix)", qq, G=c["G"].tolist())
                    run.count("G-shift %s/%s" % (kind, layout), section="oracle")
                    if variant == "omp" and layout == "full":
                        run.case(("id", info["cell"], info["smat"], info["pmat"], kind, info.get("fc_seed"), info.get("cutoff"),
                                  tuple(map(float, qq)), tuple(c["G"])), nontrivial=nontriv)
                        run.count("cell=%s" % info["cell"])
                        run.count("q=%s" % qk)
                        run.count("fc=%s" % kind)
                        run.count("pmat=%s" % (info["pmat"] if "*" not in info["pmat"] else "explicit(centring*unimodular)"))
                        sm = np.array(info["smat"])
                        run.count("smat=%s" % ("diagonal" if (sm == np.diag(np.diag(sm))).all() else "non-diagonal"))

                # point-group operations (symmetric, short-range force constants)
                if kind == "pair-short":
                    rops = ph.primitive_symmetry.reciprocal_operations
                    for n, (qk, qq) in enumerate(zip(kinds, qlist)):
                        if qk == "gamma":
                            continue
                        sel = list(range(len(rops))) if (thorough or len(rops) <= 12) else rng.sample(range(len(rops)), 12)
                        rq = [rops[r] @ qq for r in sel]
                        DR, FR = dyn(ph, rq)
                        e0 = np.linalg.eigvalsh((D[n] + D[n].conj().T) / 2)
                        nd = norm(D[n], floor)
                        for r, dr in zip(sel, DR):
                            er = np.linalg.eigvalsh((dr + dr.conj().T) / 2)
                            if np.abs(er - e0).max() > TOL * nd:
                                viol("Phonopy.run_qpoints", "rotation/%s" % layout,
                                     "spectrum at Rq differs from spectrum at q by %.3g (||D|| = %.3g)" % (np.abs(er - e0).max(), nd),
                                     qq, R=np.array(rops[r]).tolist())
                        run.count("rotation pairs %s" % layout, len(sel), section="oracle")
                        if variant == "omp" and layout == "full":
                            run.case(("rot", info["cell"], info["smat"], info["pmat"], info.get("cutoff"), tuple(map(float, qq))),
                                     nontrivial=len(rops) > 2 and float(np.abs(D[n]).max()) > 0)
                # operations that map the supercell onto itself: D(Rq) = Gamma D(q) Gamma^T for ANY q and ANY range
                # (theorem dynmat_rotation); its hypotheses are evaluated on the implementation's data
                if kind in ("pair-short", "pair-long"):
                    Tt = U.dm_tables(ph.dynamical_matrix)
                    ops = ph.primitive_symmetry.symmetry_operations
                    nop = len(ops["rotations"])
                    sel = list(range(nop)) if (thorough or nop <= 8) else sorted(rng.sample(range(nop), 8))
                    for r in sel:
                        try:
                            mp = U.sym_maps(ph, Tt, ops["rotations"][r], ops["translations"][r])
                        except ValueError as ex:
                            modelstmt("dynmat_rotation: a space-group operation preserving the supercell does not map the tables onto themselves: %s" % ex,
                                      None, R=np.array(ops["rotations"][r]).tolist())
                            continue
                        if mp is None:
                            run.count("operation does not preserve the supercell", section="oracle")
                            continue
                        if layout == "full":
                            dev = max(float(np.abs(fc[Tt["p2s"][mp["pi"][i]], mp["kap"][i]] - np.einsum("ab,kbc,dc->kad", mp["Q"], fc[Tt["p2s"][i]], mp["Q"])).max())
                                      for i in range(npa))
                            if dev > 1e-9 * float(np.abs(fc).max()):
                                run.broke("harness", "generated pair force constants are not covariant under the operation (dev %.3g)" % dev, info)
                        G_ = U.gamma_matrix(mp, npa)
                        qsel = [qq for qk, qq in zip(kinds, qlist) if qk != "gamma"]
                        DR, FR = dyn(ph, [mp["rq"] @ qq for qq in qsel])
                        for qq, dr in zip(qsel, DR):
                            n0 = [n for n in range(nq) if qlist[n] is qq][0]
                            nd = norm(D[n0], floor)
                            want = G_ @ D[n0] @ G_.T
                            if np.abs(dr - want).max() > TOL * nd:
                                modelstmt("dynmat_rotation: D(Rq) != Gamma D(q) Gamma^T: max diff %.3g (||D|| = %.3g)" % (np.abs(dr - want).max(), nd),
                                          qq, R=np.array(ops["rotations"][r]).tolist())
                            er = np.linalg.eigvalsh((dr + dr.conj().T) / 2)
                            e0 = np.linalg.eigvalsh((D[n0] + D[n0].conj().T) / 2)
                            if np.abs(er - e0).max() > TOL * nd:
                                viol("Phonopy.run_qpoints", "rotation-spectrum/%s/%s" % (kind, layout),
                                     "spectrum at Rq differs from spectrum at q by %.3g" % np.abs(er - e0).max(), qq,
                                     R=np.array(ops["rotations"][r]).tolist())
                        run.count("rotation (supercell-preserving op) %s/%s" % (kind, layout), len(qsel), section="oracle")
                        if variant == "omp" and layout == "full":
                            run.case(("rotT", info["cell"], info["smat"], info["pmat"], info.get("cutoff"), r),
                                     nontrivial=not (np.array(ops["rotations"][r]) == np.eye(3)).all() and float(np.abs(D[:nq]).max()) > 0)
                            c.setdefault("symops", []).append((r, mp))
                            c["T"] = Tt
                # acoustic modes at Gamma (sum rule holds: pair potential or symmetrised)
                if kind in ("pair-short", "pair-long", "symmetrised"):
                    DG, FG = dyn(ph, [np.zeros(3)])
                    eg = np.linalg.eigvalsh((DG[0] + DG[0].conj().T) / 2)
                    nd = norm(DG[0], floor)
                    nzero = int((np.abs(eg) <= TOL * nd).sum())
                    s = np.sqrt(np.array(pc.masses))
                    res = 0.0
                    for a in range(3):
                        v = np.zeros(3 * npa)
                        v[a::3] = s
                        res = max(res, float(np.abs(DG[0] @ v).max()) / float(np.linalg.norm(v)))
                    if nzero < 3:
                        viol("Phonopy.run_qpoints", "acoustic/%s/%s" % (kind, layout),
                             "%d eigenvalues vanish at Gamma (need 3); |D v_acoustic| = %.3g, ||D|| = %.3g" % (nzero, res, nd), np.zeros(3))
                    elif res > TOL * nd:
                        modelstmt("acoustic_kernel: |D(Gamma) v_acoustic| = %.3g, ||D|| = %.3g" % (res, nd), np.zeros(3))
                    fz = FG[0]
                    if int((np.abs(np.sign(fz) * (fz / factor) ** 2) <= TOL * nd).sum()) < 3:
                        viol("Phonopy.run_qpoints", "acoustic-frequencies/%s/%s" % (kind, layout),
                             "fewer than three zero frequencies at Gamma", np.zeros(3))
                    run.count("acoustic %s/%s" % (kind, layout), section="oracle")
                    if variant == "omp" and layout == "full":
                        run.case(("ac", info["cell"], info["smat"], info["pmat"], kind, info.get("fc_seed"), info.get("cutoff")),
                                 nontrivial=float(np.abs(DG[0]).max()) > 0 or npa == 1)

                # scaling through the masses setter
                m0 = np.array(pc.masses, dtype=float)
                sm0 = np.array(ph.supercell.masses, dtype=float)
                um0 = np.array(ph.unitcell.masses, dtype=float)
                D0, F0 = D[:nq], F[:nq]
                ph.force_constants = arr * c["s"]
                ph.masses = m0 * c["t"]
                bad_prop = (np.abs(np.array(ph.supercell.masses) - sm0 * c["t"]).max() > 1e-12 * sm0.max() * c["t"]
                            or np.abs(np.array(ph.unitcell.masses) - um0 * c["t"]).max() > 1e-12 * um0.max() * c["t"]
                            or np.abs(np.array(ph.primitive.masses) - m0 * c["t"]).max() > 1e-12 * m0.max() * c["t"])
                if bad_prop:
                    # an observation only: what the property states about the setter is the scaling of the eigenvalues below
                    run.count("observation: masses setter did not propagate t*m to primitive, supercell and unit cell", section="oracle")
                D1, F1 = dyn(ph, qlist)
                ratio = c["s"] / c["t"]
                for n, qq in enumerate(qlist):
                    nd = norm(D0[n], floor)
                    if np.abs(D1[n] - ratio * D0[n]).max() > TOL * nd * ratio:
                        modelstmt("dynmat_scaling: D(s*fc, t*m) != (s/t) D(fc, m): max diff %.3g" % np.abs(D1[n] - ratio * D0[n]).max(), qq, s=c["s"], t=c["t"])
                    l0 = np.sign(F0[n]) * (F0[n] / factor) ** 2
                    l1 = np.sign(F1[n]) * (F1[n] / factor) ** 2
                    if np.abs(l1 - ratio * l0).max() > TOL * nd * ratio:
                        viol("Phonopy.masses", "scaling-eigenvalues/%s/%s" % (kind, layout),
                             "eigenvalues do not scale by s/t: max diff %.3g" % np.abs(l1 - ratio * l0).max(), qq, s=c["s"], t=c["t"])
                    run.count("scaling %s/%s" % (kind, layout), section="oracle")
                ph.masses = m0
                ph.force_constants = arr.copy()

                # the same clause on ONE object that has already been run: evaluate, change masses / force constants through
                # the public setters, evaluate again -- in both orders, through four public access paths
                if layout == "full":
                    qt = [qq for qk, qq in zip(kinds, qlist) if qk != "gamma"][:2]
                    path = [np.array([qt[0] + (qt[1] - qt[0]) * x for x in (0.0, 0.5, 1.0)])]

                    def spectra():
                        out = {}
                        ph.run_qpoints(np.array(qt))
                        out["run_qpoints"] = np.array(ph.get_qpoints_dict()["frequencies"])
                        ph.run_mesh([2, 2, 2])
                        out["run_mesh"] = np.array(ph.get_mesh_dict()["frequencies"])
                        ph.run_band_structure(path)
                        out["run_band_structure"] = np.array(ph.get_band_structure_dict()["frequencies"][0])
                        for k in out:
                            out[k] = np.sign(out[k]) * (out[k] / factor) ** 2
                        dmo = ph.dynamical_matrix
                        ev = []
                        for qq in qt:
                            dmo.run(qq)
                            ev.append(np.linalg.eigvalsh(dmo.dynamical_matrix))
                        out["dynamical_matrix.run"] = np.array(ev)
                        return out

                    def compare(base, now, ratio_, order, step):
                        for k in base:
                            sc_ = max(float(np.abs(base[k]).max()), floor) * max(ratio_, 1.0)
                            run.count("in-place scaling %s" % k, section="oracle")
                            if base[k].shape != now[k].shape or np.abs(now[k] - ratio_ * base[k]).max() > TOL * sc_ * 10:
                                dev = float("nan") if base[k].shape != now[k].shape else float(np.abs(now[k] - ratio_ * base[k]).max())
                                viol("Phonopy.masses" if step == "masses" else "Phonopy.force_constants", "scaling-in-place/%s/%s" % (k, order),
                                     "one object, already evaluated: after %s the eigenvalues through %s are not %.4g x the previous ones (max diff %.3g, scale %.3g)"
                                     % ("masses = t*masses" if step == "masses" else "force_constants = s*force_constants", k, ratio_, dev, sc_),
                                     None, s=c["s"], t=c["t"], order=order)

                    s_, t_ = c["s"], c["t"]
                    base = spectra()
                    ph.masses = m0 * t_
                    compare(base, spectra(), 1.0 / t_, "masses-then-fc", "masses")
                    ph.force_constants = arr * s_
                    compare(base, spectra(), s_ / t_, "masses-then-fc", "force_constants")
                    ph.masses = m0
                    ph.force_constants = arr.copy()
                    base = spectra()
                    ph.force_constants = arr * s_
                    compare(base, spectra(), s_, "fc-then-masses", "force_constants")
                    ph.masses = m0 * t_
                    compare(base, spectra(), s_ / t_, "fc-then-masses", "masses")
                    ph.masses = m0
                    ph.force_constants = arr.copy()
                    if variant == "omp":
                        run.case(("inplace", info["cell"], info["smat"], info["pmat"], kind, s_, t_), nontrivial=float(np.abs(base["run_qpoints"]).max()) > 0)

    oracle_pass("omp")
    common.switch_variant("ser")
    oracle_pass("ser")
    common.switch_variant("omp")

    # ------------------------------------------------------------------ description invariance (gen.relabelled_cell):
    # the clauses of the property ON left-handed / sheared / permuted descriptions of a crystal (rotations from the
    # relabelled primitive cell's own symmetry) and the spectrum at qmap(q) against the original description; without
    # NAC and with the two NAC methods (cubic binaries, isotropic Born charges and dielectric constant so that the
    # tensors have the crystal's symmetry; Cartesian tensors are the same in every description).
    from phonopy.structure.cells import get_primitive_matrix_by_centring

    nac_cases = [("nacl_prim", (2, 2, 2)), ("zincblende_prim", (2, 2, 2)), ("cscl", (2, 2, 2)), ("nacl", (2, 2, 2))]
    picks = U.relabel_picks(rng, 5 if thorough else 3)
    # the left-handed pick with both NAC methods, the others without NAC / with a random method
    plan_rl = [(picks[0], "wang"), (picks[0], "gonze")] + [(m_, [None, rng.choice([None, "wang", "gonze"])][k_ % 2]) for k_, m_ in enumerate(picks[1:])]
    for mname, method in plan_rl:
        for _try in range(20):
            name, dims = (nac_cases if method else U.RELABEL_CASES)[rng.randrange(len(nac_cases if method else U.RELABEL_CASES))]
            cell, cen = U.get_cell(name)
            smat = np.diag(dims)
            ph0 = Phonopy(cell, supercell_matrix=smat, primitive_matrix=get_primitive_matrix_by_centring(cen), log_level=0)
            minv = gen.min_lattice_vector(ph0.supercell.cell)
            cutoff = minv * rng.uniform(0.42, 0.495)
            if cutoff >= U.nn_distance(cell) * 1.001:
                break
        else:
            continue
        kfun, kdesc = U.make_kfun(rng)
        ph2, qmap = U.relabelled_phonopy(cell, cen, smat, mname, dense=rng.random() < 0.7)
        zsp = sorted(set(int(z) for z in ph0.primitive.numbers))
        zeff = rng.choice([0.5, 1.0, 1.5, 2.0])
        eps = rng.choice([1.5, 2.5, 4.0])
        info = dict(cell=name, smat=smat.tolist(), centring=cen, relabelling=mname, M=gen.UNIMODULAR[mname],
                    volume_sign=float(np.sign(ph2.unitcell.volume)), nac=method, cutoff=float(cutoff), kfun=kdesc,
                    born="+-%g I" % zeff if method else None, dielectric="%g I" % eps if method else None)
        qlist0 = [np.array([rng.uniform(-0.5, 0.5) for _ in range(3)]) for _ in range(2)] + [np.array([0.5, 0.0, 0.0]), np.array([0.02, 0.01, 0.0])]
        spectra = {}
        for tag, ph, qm in (("original", ph0, lambda x: np.array(x)), (mname, ph2, qmap)):
            ph.force_constants = gen.pair_fc(ph.supercell, cutoff, kfun=kfun, images=U.images_needed(ph.supercell.cell, cutoff))
            if method:
                born = np.array([(zeff if int(z) == zsp[0] else -zeff) * np.eye(3) for z in ph.primitive.numbers])
                ph.nac_params = {"born": born, "dielectric": eps * np.eye(3), "factor": 14.4, "method": method}
            pc = ph.primitive
            floor = float(np.abs(ph.force_constants).max()) / float(min(pc.masses))
            ql = [qm(x) for x in qlist0]
            G = np.array([rng.randint(-2, 2) for _ in range(3)], dtype=float)
            D, F = dyn(ph, ql + [-x for x in ql] + [x + G for x in ql])
            nq_ = len(ql)
            spectra[tag] = np.sign(F[:nq_]) * (F[:nq_] / factor) ** 2

            def viol2(klass, what, qq=None, **kw):
                run.violation("Phonopy.run_qpoints", klass, "%s description%s: %s" % (tag, " (NAC %s)" % method if method else "", what),
                              dict(info, description=tag, q=None if qq is None else list(map(float, qq)), **kw))

            for n in range(nq_):
                nd = norm(D[n], floor)
                if np.abs(D[n] - D[n].conj().T).max() > TOL * nd:
                    viol2("relabelled/hermitian", "D(q) is not Hermitian (%.3g)" % np.abs(D[n] - D[n].conj().T).max(), ql[n])
                if np.abs(D[nq_ + n] - D[n].conj()).max() > TOL * nd:
                    viol2("relabelled/time-reversal", "D(-q) != conj D(q) (%.3g)" % np.abs(D[nq_ + n] - D[n].conj()).max(), ql[n])
                e0 = np.linalg.eigvalsh((D[n] + D[n].conj().T) / 2)
                if method is None:
                    eg = np.linalg.eigvalsh((D[2 * nq_ + n] + D[2 * nq_ + n].conj().T) / 2)
                    if np.abs(eg - e0).max() > TOL * nd:
                        viol2("relabelled/G-shift-spectrum", "spectrum changes under q -> q+G by %.3g" % np.abs(eg - e0).max(), ql[n], G=G.tolist())
                run.count("relabelled identities %s nac=%s" % ("original" if tag == "original" else "relabelled", method), section="oracle")
            # rotations of this description's own primitive symmetry
            rops = ph.primitive_symmetry.reciprocal_operations
            sel = list(range(len(rops))) if len(rops) <= 12 else sorted(rng.sample(range(len(rops)), 12))
            for n in range(2):
                DR, FR = dyn(ph, [rops[r] @ ql[n] for r in sel])
                nd = norm(D[n], floor)
                e0 = np.linalg.eigvalsh((D[n] + D[n].conj().T) / 2)
                for r, dr in zip(sel, DR):
                    er = np.linalg.eigvalsh((dr + dr.conj().T) / 2)
                    # the Gonze-Lee reciprocal sum is truncated at a cutoff: invariance holds to its convergence level
                    if np.abs(er - e0).max() > (1e-5 if method == "gonze" else TOL) * nd:
                        viol2("relabelled/rotation", "spectrum at Rq differs from spectrum at q by %.3g (||D|| = %.3g)" % (np.abs(er - e0).max(), nd),
                              ql[n], R=np.array(rops[r]).tolist())
                run.count("relabelled rotation pairs nac=%s" % method, len(sel), section="oracle")
            # scaling: masses x t (and force constants x s without NAC) on the evaluated object
            t_ = rng.choice([0.5, 2.0, 4.0])
            s_ = rng.choice([0.5, 2.0, 3.0]) if method is None else 1.0
            m0 = np.array(pc.masses, dtype=float)
            fc_keep = np.array(ph.force_constants, copy=True)
            ph.masses = m0 * t_
            if method is None:
                ph.force_constants = fc_keep * s_
            D1, F1 = dyn(ph, ql)
            l1 = np.sign(F1) * (F1 / factor) ** 2
            sc_ = max(float(np.abs(spectra[tag]).max()), floor)
            if np.abs(l1 - (s_ / t_) * spectra[tag]).max() > 10 * TOL * sc_ * max(1.0, s_ / t_):
                viol2("relabelled/scaling", "eigenvalues do not scale by s/t = %g (max diff %.3g)" % (s_ / t_, np.abs(l1 - (s_ / t_) * spectra[tag]).max()), None, s=s_, t=t_)
            ph.masses = m0
            if method is None:
                ph.force_constants = fc_keep
        sc_ = max(float(np.abs(spectra["original"]).max()), floor)
        dev = float(np.abs(spectra[mname] - spectra["original"]).max())
        run.count("description invariance %s nac=%s" % (mname, method), section="oracle")
        run.cov["oracle"]["description invariance: worst eigenvalue deviation / scale (nac=%s)" % method] = max(
            run.cov["oracle"].get("description invariance: worst eigenvalue deviation / scale (nac=%s)" % method, 0.0), dev / sc_)
        if dev > (1e-5 if method == "gonze" else 10 * TOL) * sc_:
            run.violation("Phonopy.run_qpoints", "description-invariance/nac=%s" % method,
                          "spectrum at qmap(q) in the relabelled description (%s, volume sign %+d) differs from the spectrum at q in the original "
                          "description by %.3g (scale %.3g)" % (mname, int(info["volume_sign"]), dev, sc_),
                          dict(info, q_original=[list(map(float, x)) for x in qlist0]))
        run.case(("relabel", name, dims, mname, method, float(cutoff), float(qlist0[0][0])), nontrivial=True)
        run.count("relabelled: %s nac=%s" % (mname, method))
        run.sample(dict(kind="relabelled", **info), limit=10)

    # ------------------------------------------------------------------ coordinates with noise inside symprec
    # hexagonal cells whose fractional coordinates are written with six decimals (0.333333 / 0.666667: ~1e-6 Angstrom
    # off the ideal sites, a factor >= 2 inside the default symprec = 1e-5).  Force constants: pair potential on the
    # IDEAL sites (full symmetry, any range: periodic-image sums), supercells n x n x m that keep the point group, so
    # the spectrum at Rq must equal the spectrum at q (observed on the unchanged tree: 1e-15 ||D||; tolerance 1e-7 ||D||; images on the
    # supercell Wigner-Seitz boundary must keep their multiplicity).
    from phonopy.structure.atoms import PhonopyAtoms

    noisy_smats = [np.diag(d) for d in ((2, 2, 1), (2, 2, 2), (3, 3, 2))] + ([np.diag(d) for d in ((4, 4, 2), (4, 4, 1), (2, 2, 3))] if thorough else [])
    for name in ("wurtzite", "hcp"):
        ideal, _cen = U.get_cell(name)
        for decimals in ((6,) if not thorough else (6, 7)):
            noisy = PhonopyAtoms(cell=ideal.cell, symbols=ideal.symbols, scaled_positions=np.round(ideal.scaled_positions, decimals))
            for smat in noisy_smats:
                ph_i = Phonopy(ideal, supercell_matrix=smat, primitive_matrix="P", log_level=0)
                ph_n = Phonopy(noisy, supercell_matrix=smat, primitive_matrix="P", log_level=0)
                info = dict(cell=name, positions_rounded_to_decimals=decimals, smat=smat.tolist(), pmat="P",
                            n_satom=len(ph_n.supercell), n_patom=len(ph_n.primitive))
                rops = ph_n.primitive_symmetry.reciprocal_operations
                if len(rops) != len(ph_i.primitive_symmetry.reciprocal_operations):
                    run.count("noisy cell: symmetry search finds fewer operations", section="oracle")
                    continue
                minv = gen.min_lattice_vector(ph_i.supercell.cell)
                cutoff = minv * rng.uniform(0.75, 1.1)
                kfun, kdesc = U.make_kfun(rng)
                fc = gen.pair_fc(ph_i.supercell, cutoff, kfun=kfun, images=U.images_needed(ph_i.supercell.cell, cutoff))
                info.update(cutoff=float(cutoff), kfun=kdesc)
                ph_n.force_constants = fc
                floor = float(np.abs(fc).max()) / float(min(ph_n.primitive.masses))
                for _ in range(2):
                    qq = np.array([rng.uniform(-0.5, 0.5) for _ in range(3)])
                    DR, FR = dyn(ph_n, [qq] + [r @ qq for r in rops])
                    nd = norm(DR[0], floor)
                    e0 = np.linalg.eigvalsh((DR[0] + DR[0].conj().T) / 2)
                    worst = 0.0
                    for r, dr in zip(rops, DR[1:]):
                        er = np.linalg.eigvalsh((dr + dr.conj().T) / 2)
                        dev = float(np.abs(er - e0).max())
                        worst = max(worst, dev)
                        if dev > 1e-7 * nd:
                            run.violation("Phonopy.run_qpoints", "rotation/noisy-coordinates",
                                          "spectrum at Rq differs from spectrum at q by %.3g (||D|| = %.3g) for coordinates rounded to %d decimals"
                                          % (dev, nd, decimals), dict(info, q=list(map(float, qq)), R=np.array(r).tolist()))
                    run.cov["oracle"]["noisy coordinates: worst spectrum deviation / ||D||"] = max(
                        run.cov["oracle"].get("noisy coordinates: worst spectrum deviation / ||D||", 0.0), worst / nd)
                    run.count("rotation pairs, coordinates with noise inside symprec", len(rops), section="oracle")
                    run.case(("noisy", name, decimals, smat.tolist(), info["cutoff"], tuple(map(float, qq))), nontrivial=True)
                run.count("noisy-coordinate cells")

    # ------------------------------------------------------------------ primitive cell with a prescribed atom order
    # (positions_to_reorder: p2s_map not ascending) x {full, compact} force constants: Hermitian, D(-q) = conj D(q), spectrum unchanged
    # by q -> q+G, three zero eigenvalues at Gamma, compact and full layouts one spectrum  (seeded change r7-c03: index lookup by
    # searchsorted assumed an ascending p2s_map)
    from phonopy.harmonic.dynamical_matrix import DynamicalMatrix
    from phonopy.harmonic.force_constants import full_fc_to_compact_fc
    from phonopy.structure.cells import Primitive
    n_ro = tries_ro = 0
    while n_ro < (8 if thorough else 3) and tries_ro < 100:
        tries_ro += 1
        name = rng.choice(["cscl", "nacl_prim", "zincblende_prim", "hcp", "wurtzite", "triclinic", "rutile", "perovskite", "mono_P"])
        cell, cen = U.get_cell(name)
        smat = rng.choice([np.diag([2, 2, 2]), np.diag([2, 2, 1]), np.diag([3, 1, 2]), np.array([[2, 1, 0], [0, 2, 0], [0, 0, 1]])])
        if len(cell) * int(round(abs(np.linalg.det(smat)))) > 72:
            continue
        try:
            ph = Phonopy(cell, supercell_matrix=smat, primitive_matrix=cen, log_level=0)
        except Exception:
            continue
        prim0, sc = ph.primitive, ph.supercell
        npa = len(prim0)
        if npa < 2:
            continue
        perm = list(range(npa))
        while perm == list(range(npa)):
            rng.shuffle(perm)
        prim = Primitive(sc, prim0.primitive_matrix, positions_to_reorder=np.array(prim0.scaled_positions)[perm])
        if list(prim.p2s_map) == sorted(prim.p2s_map):
            continue
        n_ro += 1
        fc = gen.pair_fc(sc, max(gen.min_lattice_vector(sc.cell) * 0.45, U.nn_distance(cell) * 1.05))
        fcc = full_fc_to_compact_fc(prim, fc)
        info = dict(cell=name, smat=np.array(smat).tolist(), centring=cen, permutation=perm, p2s_map=list(map(int, prim.p2s_map)), n_satom=len(sc), n_patom=npa)
        qq = np.array([rng.choice([-3, -2, -1, 1, 2, 3, 5]) / rng.choice([7.0, 8.0, 11.0]) for _ in range(3)])
        Gv = np.array([rng.choice([-2, -1, 0, 1, 2]) for _ in range(3)], dtype="double")
        if not Gv.any():
            Gv[0] = 1.0
        spec = {}
        for layout, arr in (("full", fc), ("compact", fcc)):
            for lang in ("C", "Py"):
                dm = DynamicalMatrix(sc, prim, arr.copy())
                def _D(q_):
                    dm.run(q_, lang=lang)
                    return dm.dynamical_matrix.copy()
                Dq, Dm, DG, D0 = _D(qq), _D(-qq), _D(qq + Gv), _D(np.zeros(3))
                sc_ = max(float(np.abs(Dq).max()), 1e-300)
                site = "DynamicalMatrix.run(lang=%s), %s force constants, reordered primitive cell" % (lang, layout)
                run.count("oracle-reordered-primitive %s/%s" % (layout, lang), section="oracle")
                run.case(("reordered", name, np.array(smat).tolist(), tuple(perm), layout, lang, tuple(qq)), nontrivial=True)
                if np.abs(Dq - Dq.conj().T).max() > 1e-12 * sc_:
                    run.violation(site, "not-hermitian", "|D - D^dagger| = %.3g (scale %.3g)" % (np.abs(Dq - Dq.conj().T).max(), sc_), dict(info, q=qq.tolist()))
                if np.abs(Dm - Dq.conj()).max() > 1e-10 * sc_:
                    run.violation(site, "time-reversal", "|D(-q) - conj D(q)| = %.3g (scale %.3g)" % (np.abs(Dm - Dq.conj()).max(), sc_), dict(info, q=qq.tolist()))
                e1, e2, e0 = np.linalg.eigvalsh(Dq), np.linalg.eigvalsh(DG), np.linalg.eigvalsh(D0)
                if np.abs(e1 - e2).max() > 1e-9 * sc_:
                    run.violation(site, "G-shift", "eigenvalues at q and q+G differ by %.3g (scale %.3g)" % (np.abs(e1 - e2).max(), sc_), dict(info, q=qq.tolist(), G=Gv.tolist()))
                if np.sort(np.abs(e0))[2] > 1e-9 * sc_:
                    run.violation(site, "acoustic-sum-rule", "third smallest |eigenvalue| at Gamma is %.3g (scale %.3g) for force constants obeying the sum rule" % (np.sort(np.abs(e0))[2], sc_), info)
                spec[(layout, lang)] = e1
        ref_ = spec[("full", "Py")]
        for k_, v_ in spec.items():
            if np.abs(v_ - ref_).max() > 1e-9 * max(float(np.abs(ref_).max()), 1e-300):
                run.violation("DynamicalMatrix.run(lang=%s), %s force constants, reordered primitive cell" % (k_[1], k_[0]), "layouts-differ",
                              "spectrum at q differs from that of the full layout / Python path by %.3g" % np.abs(v_ - ref_).max(), dict(info, q=qq.tolist()))
    run.count("reordered-primitive cells", n_ro)

    # ------------------------------------------------------------------ correspondence sample (model <-> code)
    small = [c for c in cases if c["info"]["n_satom"] * c["info"]["n_patom"] <= 64][: (10 if thorough else 4)]
    lines, meta = [], []
    for c in small:
        ph = c["ph"]
        ph.force_constants = c["fc"].copy()
        dm = ph.dynamical_matrix
        T = U.dm_tables(dm)
        for qk, qq in c["qs"][:2]:
            for sign in (1.0, -1.0):
                q2 = sign * qq
                dm.run(q2, lang="C")
                lines.append(U.model_line("c", T, False, U.c_phases(q2, T["svecs"]), c["fc"]))
                meta.append((c, qk, q2, dm.dynamical_matrix.copy(), T))
    # certificates of dynmat_rotation, evaluated by the Lean model on the implementation's tables for every
    # (crystal, supercell-preserving operation) met above whose tables are small enough
    budget = 400 if thorough else 90
    for c in cases:
        if "symops" not in c or budget <= 0:
            continue
        Tt = c["T"]
        if Tt["np"] * Tt["ns"] * len(Tt["svecs"]) > (200000 if thorough else 60000):
            continue
        for r, mp in c["symops"]:
            if budget <= 0:
                break
            budget -= 1
            lines.append(U.svinv_line(Tt, False, mp))
            meta.append(("svinv", c, r))
            lines.append(U.svinv_line(Tt, True, mp))
            meta.append(("svinv", c, r))
            lines.append(U.svdev_line(Tt, mp))
            meta.append(("svdev", c, r))
    # get_pointgroup_operations on every prototype (unit cell with its centring, and the primitive cell), with and
    # without time reversal: exact comparison with the model, group certificate evaluated on spglib's rotations
    from phonopy.structure.symmetry import get_pointgroup_operations

    seen_rot = set()
    for name in sorted(gen.PROTOTYPES):
        cell_, cen_ = U.get_cell(name)
        try:
            ph_ = Phonopy(cell_, supercell_matrix=np.eye(3, dtype=int), primitive_matrix=cen_, log_level=0)
        except Exception:
            continue
        for symobj, which in ((ph_.symmetry, "supercell"), (ph_.primitive_symmetry, "primitive")):
            rots = np.array(symobj.symmetry_operations["rotations"], dtype=int)
            key = rots.tobytes()
            if key in seen_rot and not thorough:
                continue
            seen_rot.add(key)
            for tr in (True, False):
                p_, r_ = get_pointgroup_operations(rots, is_time_reversal=tr)
                lines.append("ptgops %d %d %s" % (int(tr), len(rots), " ".join(str(int(x)) for x in rots.ravel())))
                meta.append(("ptgops", dict(cell=name, which=which, time_reversal=tr, n_rot=len(rots)), (np.array(p_), np.array(r_))))
            if (np.array(symobj.pointgroup_operations) != np.array(get_pointgroup_operations(rots)[0])).any() or \
                    (np.array(symobj.reciprocal_operations) != np.array(get_pointgroup_operations(rots)[1])).any():
                run.broke("correspondence", "Symmetry.pointgroup_operations/reciprocal_operations are not get_pointgroup_operations(rotations)",
                          dict(cell=name, which=which))
    if lines:
        out = common.lean_run_driver("C03", lines)
        if len(out) != len(lines):
            run.broke("correspondence", "driver answered %d lines for %d requests" % (len(out), len(lines)))
        ncmp = 0
        for mt, line in zip(meta, out):
            if mt[0] == "ptgops":
                run.count("pointgroup-operation lists", section="correspondence")
                p_, r_ = mt[2]
                want = "true %d %s | %d %s" % (len(p_), " ".join(str(int(x)) for x in p_.ravel()), len(r_),
                                               " ".join(str(int(x)) for x in r_.ravel()))
                if " ".join(line.split()) != " ".join(want.split()):
                    run.broke("correspondence", "get_pointgroup_operations differs from the model (or the rotations are not a group: %s)"
                              % line.split()[0], mt[1])
                continue
            if mt[0] in ("svinv", "svdev"):
                run.count("%s-certificates" % mt[0], section="correspondence")
                if line != "true":
                    what = ("svecsInvariantOk = %s" if mt[0] == "svinv" else "image of a stored vector is not the stored vector named by sig (svdev = %s)") % line
                    run.broke("correspondence", what + " on the implementation's tables", dict(mt[1]["info"], op=int(mt[2])))
                continue
            (c, qk, q2, impl, T) = mt
            model = U.parse_dm(line, T["np"])
            if model is None:
                run.broke("correspondence", "model rejected input", c["info"])
                continue
            floor = float(np.abs(c["fc"]).max()) / float(min(T["masses"]))
            scale = max(float(np.abs(model).max()), floor)
            ncmp += 1
            if np.abs(impl - model).max() > TOL_MODEL * scale:
                run.broke("correspondence", "DynamicalMatrix.run differs from the model by %.3g (scale %.3g)" % (np.abs(impl - model).max(), scale),
                          dict(c["info"], q=list(map(float, q2))))
            # the model's own output obeys the theorem it is the subject of (exact rational arithmetic, up to the cos/sin inputs)
            if np.abs(model - model.conj().T).max() > 0:
                run.broke("correspondence", "model output is not exactly Hermitian", c["info"])
        run.cov["correspondence"]["compared"] = ncmp
