"""C13 helpers: kernel metadata (which argument is written, how), capture of the calls the Python layer
makes, replay of a captured call inside guard zones with sentinel patterns, thread-count control."""

from __future__ import annotations

import ctypes
import hashlib
import os
import re

import numpy as np

from .. import common

GUARD = 64  # elements on each side of every output buffer
THREADS_ALL = [1, 2, 3, 4, 8, 16]

# kernel -> {argument index: mode}; mode: assign (cells are overwritten), accumulate (`+=` on what the
# Python layer pre-fills, normally zeros), inplace (output is a function of the previous content)
OUTS = {
    "transform_dynmat_to_fc": {0: "accumulate"},
    "perm_trans_symmetrize_fc": {0: "inplace"},
    "perm_trans_symmetrize_compact_fc": {0: "inplace"},
    "transpose_compact_fc": {0: "inplace"},
    "dynamical_matrices_with_dd_openmp_over_qpoints": {0: "assign"},
    "recip_dipole_dipole": {0: "assign"},
    "recip_dipole_dipole_q0": {0: "assign"},
    "derivative_dynmat": {0: "accumulate"},
    "thermal_properties": {0: "accumulate"},
    "distribute_fc2": {0: "accumulate"},
    "compute_permutation": {0: "assign"},
    "gsv_set_smallest_vectors_sparse": {0: "assign", 1: "assign"},
    "gsv_set_smallest_vectors_dense": {0: "assign", 1: "assign"},
    "tetrahedra_relative_grid_address": {0: "assign"},
    "all_tetrahedra_relative_grid_address": {0: "assign"},
    "tetrahedra_integration_weight": {},
    "tetrahedra_integration_weight_at_omegas": {0: "assign"},
    "tetrahedra_frequencies": {0: "assign"},
    "tetrahedron_method_dos": {0: "accumulate"},
}
NUMERICAL = sorted(OUTS)
NON_NUMERICAL = ["use_openmp", "omp_max_threads"]


def ints(a):
    return " ".join(str(int(x)) for x in np.asarray(a).ravel())


def ws_requests(name, args, after):
    """Model requests (one per output argument) for a captured call. `after` = the output arrays after a
    reference run (needed where the write set depends on computed multiplicities)."""
    a = args
    if name == "transform_dynmat_to_fc":
        ns, np_ = a[4].shape[0], a[4].shape[1]
        return {0: "ws dynmat_to_fc %d %d %d %s" % (np_, ns, a[0].shape[0], ints(a[7]))}
    if name == "perm_trans_symmetrize_fc":
        return {0: "ws sym_fc %d %d" % (a[0].shape[0], a[1])}
    if name == "perm_trans_symmetrize_compact_fc":
        return {0: "ws sym_compact_fc %d %d %d %s" % (a[0].shape[0], a[0].shape[1], a[5], ints(a[3]))}
    if name == "transpose_compact_fc":
        return {0: "ws transpose_compact_fc %d %d" % (a[0].shape[0], a[0].shape[1])}
    if name == "dynamical_matrices_with_dd_openmp_over_qpoints":
        return {0: "ws dynmats %d %d" % (a[1].shape[0], a[8].shape[0])}
    if name == "recip_dipole_dipole":
        return {0: "ws recip_dd %d" % a[7].shape[0]}
    if name == "recip_dipole_dipole_q0":
        return {0: "ws recip_dd_q0 %d" % a[4].shape[0]}
    if name == "derivative_dynmat":
        return {0: "ws deriv_dynmat %d" % a[9].shape[0]}
    if name == "thermal_properties":
        return {0: "ws thermal %d" % a[1].shape[0]}
    if name == "distribute_fc2":
        return {0: "ws distribute_fc2 %d %d %s %s %d %s" % (a[4].shape[1], a[1].shape[0], ints(a[1]), ints(a[2]), a[5].shape[0], ints(a[5]))}
    if name == "compute_permutation":
        return {0: "ws compute_permutation %d" % a[2].shape[0]}
    if name == "gsv_set_smallest_vectors_sparse":
        npairs = a[2].shape[0] * a[3].shape[0]
        return {0: "ws gsv_sparse_vecs %d %s" % (npairs, ints(after[1])), 1: "ws gsv_sparse_mult %d" % npairs}
    if name == "gsv_set_smallest_vectors_dense":
        npairs = a[2].shape[0] * a[3].shape[0]
        ini = int(a[7])
        counts = after[1].reshape(-1, 2)[:, 0]
        return {0: "ws gsv_dense_vecs %d %d %s" % (ini, npairs, ints(counts)), 1: "ws gsv_dense_mult %d %d" % (ini, npairs)}
    if name == "tetrahedra_relative_grid_address":
        return {0: "ws rel_grid"}
    if name == "all_tetrahedra_relative_grid_address":
        return {0: "ws all_rel_grid"}
    if name == "tetrahedra_integration_weight_at_omegas":
        return {0: "ws iw_at_omegas %d" % a[1].shape[0]}
    if name == "tetrahedra_frequencies":
        return {0: "ws tetra_freqs %d %d" % (a[1].shape[0], a[6].shape[1])}
    if name == "tetrahedron_method_dos":
        return {0: "ws dos %d %d %d %d" % (a[3].shape[0], a[3].shape[1], a[2].shape[0], a[4].shape[1])}
    return {}


def reads_request(name, a):
    """(request line, {model array name: actual numpy array}) for the read-footprint model, or None"""
    if name in ("dynamical_matrices_with_dd_openmp_over_qpoints", "derivative_dynmat"):
        fc, svecs, multi, s2p, p2s = (a[2], a[3], a[4], a[7], a[8]) if name.startswith("dyn") else (a[1], a[5], a[6], a[8], a[9])
        np_, ns = p2s.shape[0], s2p.shape[0]
        return ("reads dynmat %d %d %d %d %s %s %s" % (np_, ns, fc.shape[0], svecs.shape[0], ints(p2s), ints(s2p), ints(multi)),
                {"fc": fc, "multi": multi, "svecs": svecs})
    if name == "transform_dynmat_to_fc":
        fc, dm, comm, svecs, multi, masses, s2pp, fim = a[:8]
        ns, np_ = multi.shape[0], multi.shape[1]
        return [("reads dynmat %d %d %d %d %s %s %s" % (np_, ns, fc.shape[0], svecs.shape[0], ints(fim), ints(s2pp), ints(multi)),
                 {"fc": fc, "multi": multi, "svecs": svecs}),
                ("reads d2f %d %d %d %s" % (np_, ns, comm.shape[0], ints(s2pp)), {"dm": dm, "masses": masses})]
    if name == "tetrahedra_frequencies":
        ft, gps, mesh, ga, gpir, rga, fr = a
        return ("reads tetra_freqs %d %d %d %d %d %d %s %s" % (len(gps), fr.shape[1], ga.shape[0], fr.shape[0], len(gpir), int(np.prod(mesh)), ints(gps), ints(gpir)),
                {"grid_address": ga, "gp_ir_index": gpir, "frequencies": fr})
    if name == "tetrahedron_method_dos":
        dos, mesh, fpts, fr, coef, ga, gmt, rga = a
        return ("reads dos %d %d %d %d %d %d %d %s" % (ga.shape[0], fr.shape[0], fr.shape[1], len(fpts), coef.shape[1], len(gmt), int(np.prod(mesh)), ints(gmt)),
                {"frequencies": fr, "coef": coef, "grid_mapping_table": gmt})
    if name == "distribute_fc2":
        fc2, al, fi, rc, perms, ma, ms = a
        if perms.size > 200000:
            return None
        return ("reads distribute_fc2 %d %d %d %d %s %s %s %s %s" % (perms.shape[1], perms.shape[0], len(al), fc2.shape[0], ints(al), ints(fi), ints(ma), ints(ms), ints(perms)),
                {"permutations": perms, "fc2": fc2, "map_atoms": ma})
    if name in ("perm_trans_symmetrize_compact_fc", "transpose_compact_fc"):
        fc, perms, s2pp, p2s, nsym = a[:5]
        return ("reads compact %d %d %d %s %s %s %s" % (fc.shape[0], fc.shape[1], perms.shape[0], ints(p2s), ints(s2pp), ints(nsym), ints(perms)),
                {"permutations": perms, "fc": fc})
    if name == "thermal_properties":
        return ("reads thermal %d %d" % (a[2].shape[0], a[2].shape[1]), {"frequencies": a[2]})
    return None


def parse_ranges(line):
    s = set()
    if line in ("empty", ""):
        return s
    for tok in line.split():
        lo, hi = tok.split(":")
        s.update(range(int(lo), int(hi)))
    return s


# --------------------------------------------------------------------------
# the glue's element types: which C type each ndarray parameter is cast to
# --------------------------------------------------------------------------

def glue_contract(repo):
    """kernel name -> list over parameters of ('a', ctype) | ('i',) | ('d',) | ('s',) parsed from c/_phonopy.cpp."""
    src = open(os.path.join(repo, "c", "_phonopy.cpp")).read()
    exported = dict(re.findall(r'm\.def\("(\w+)",\s*&(\w+)\)', src))
    out = {}
    for pyname, cname in exported.items():
        m = re.search(r"\b%s\s*\(([^)]*)\)\s*\{" % re.escape(cname), src)
        if not m:
            continue
        params = [p.strip() for p in m.group(1).replace("\n", " ").split(",") if p.strip()]
        start = m.end()
        depth, j = 1, start
        while depth and j < len(src):
            depth += {"{": 1, "}": -1}.get(src[j], 0)
            j += 1
        body = src[start:j]
        spec = []
        for p in params:
            pname = p.split()[-1].lstrip("*&")
            if "ndarray" in p:
                cm = re.search(r"=\s*\(\s*(double|int64_t|int)\b[^;]*?\)\s*%s\.data\(\)" % re.escape(pname), body)
                spec.append(("a", cm.group(1) if cm else None, pname))
            elif "char" in p:
                spec.append(("s", None, pname))
            elif "double" in p:
                spec.append(("d", None, pname))
            else:
                spec.append(("i", None, pname))
        out[pyname] = spec
    return out


# complex128 is layout-compatible with the glue's `double (*)[2]`
CTYPE_DTYPES = {"double": ("float64", "complex128"), "int64_t": ("int64",), "int": ("int32",)}


# --------------------------------------------------------------------------
# OpenMP thread control
# --------------------------------------------------------------------------

_gomp = None


def set_threads(n):
    global _gomp
    if _gomp is None:
        _gomp = ctypes.CDLL("libgomp.so.1")
    _gomp.omp_set_num_threads(int(n))


# --------------------------------------------------------------------------
# build variants in one process
# --------------------------------------------------------------------------
# Two differently built libraries live in one process; each must dispatch to its own kernels (an earlier
# nbstub shared one registry process-wide, so "ser" silently ran the OpenMP code).  The switch is therefore
# verified on every use: the serial library must report use_openmp() == 0, the OpenMP one 1.


def lib_path(variant):
    return common.build_lib(variant)


def switch_build(variant):
    """common.switch_variant + verification that the switch took effect"""
    shim = common.switch_variant(variant)
    got = int(shim.call("use_openmp"))
    if got != (1 if variant == "omp" else 0):
        raise RuntimeError("build variant %s reports use_openmp()=%d" % (variant, got))
    return shim


# --------------------------------------------------------------------------
# capture and replay
# --------------------------------------------------------------------------

class Capture:
    """Shim.trace hook: copies the arguments of every kernel call (before the call)."""

    def __init__(self, per_kernel=40):
        self.calls = []
        self.seen = {}
        self.count = {}
        self.per_kernel = per_kernel

    def __call__(self, name, args):
        self.count[name] = self.count.get(name, 0) + 1
        if name not in OUTS:
            return
        sig = (name,) + tuple((a.shape, str(a.dtype)) if isinstance(a, np.ndarray) else ("s", a) for a in args)
        h = hashlib.sha1(repr(sig).encode())
        for a in args:
            if isinstance(a, np.ndarray) and a.size <= 64:
                h.update(a.tobytes())
        key = h.hexdigest()
        if key in self.seen or sum(1 for c in self.calls if c[0] == name) >= self.per_kernel:
            return
        self.seen[key] = True
        self.calls.append((name, [a.copy() if isinstance(a, np.ndarray) else a for a in args]))


def sig_of(name, args):
    return [name] + [[list(a.shape), str(a.dtype)] if isinstance(a, np.ndarray) else (a if isinstance(a, (int, float, str, bool)) else repr(a)) for a in args]


def _bits(a):
    return np.ascontiguousarray(a).view(np.uint8).reshape(-1)


def _guarded(arr, pattern, rng_salt=0):
    """A copy of `arr` embedded in a larger buffer with GUARD cells on both sides. Returns (big, view)."""
    n = arr.size
    big = np.empty(n + 2 * GUARD, dtype=arr.dtype)
    if arr.dtype.kind == "f":
        big[:] = -777.25 - rng_salt
    else:
        big[:] = -7777 - rng_salt
    view = big[GUARD:GUARD + n].reshape(arr.shape)
    view[...] = pattern
    return big, view


def _guard_ok(big, n, dtype, rng_salt=0):
    g = (-777.25 - rng_salt) if dtype.kind == "f" else (-7777 - rng_salt)
    return bool((big[:GUARD] == g).all() and (big[GUARD + n:] == g).all())


def sentinel_for(arr, mode, which):
    """Pre-fill pattern `which` (0 = what the Python layer passed, 1 = a different one)."""
    if which == 0:
        return arr
    if mode == "assign":
        if arr.dtype.kind == "f":
            return np.full(arr.shape, 3.0e5) + np.arange(arr.size).reshape(arr.shape) * 0.5
        return np.full(arr.shape, -4242, dtype=arr.dtype)
    # accumulate / inplace: a perturbed version of the captured content keeps the call meaningful
    if arr.dtype.kind == "f":
        k = np.arange(arr.size, dtype="double").reshape(arr.shape)
        return arr + 0.37 + 0.011 * np.cos(k * 1.7)
    return arr


def replay(shim, name, args, which=0):
    """Run one captured call with every output argument inside guard zones.
    Returns dict: ret, outs {idx: array after}, pre {idx: array before}, changed {idx: set of flat indices},
    guards_ok, inputs_ok."""
    outs = OUTS[name]
    call_args = []
    bigs = {}
    pre = {}
    in_sums = {}
    for k, a in enumerate(args):
        if isinstance(a, np.ndarray):
            if k in outs:
                pat = sentinel_for(a, outs[k], which)
                big, view = _guarded(a, pat)
                bigs[k] = (big, view)
                pre[k] = view.copy()
                call_args.append(view)
            else:
                c = a.copy()
                in_sums[k] = (c, hashlib.sha1(_bits(c).tobytes()).hexdigest())
                call_args.append(c)
        else:
            call_args.append(a)
    ret = shim.call(name, *call_args)
    res = {"ret": ret, "outs": {}, "pre": pre, "changed": {}, "guards_ok": True, "inputs_ok": True}
    for k, (big, view) in bigs.items():
        res["guards_ok"] = res["guards_ok"] and _guard_ok(big, view.size, view.dtype)
        res["outs"][k] = view.copy()
        isz = view.dtype.itemsize
        diff = (_bits(view).reshape(-1, isz) != _bits(pre[k]).reshape(-1, isz)).any(axis=1)
        res["changed"][k] = set(np.nonzero(diff)[0].tolist())
    for k, (c, h) in in_sums.items():
        if hashlib.sha1(_bits(c).tobytes()).hexdigest() != h:
            res["inputs_ok"] = False
    return res


def out_bytes(res):
    h = hashlib.sha1()
    h.update(repr(res["ret"]).encode())
    for k in sorted(res["outs"]):
        h.update(_bits(res["outs"][k]).tobytes())
    return h.hexdigest()
