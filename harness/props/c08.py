"""C08 — non-analytical term correction has the right limits."""

import math
import warnings
from fractions import Fraction

import numpy as np

from .. import common, gen
from ..common import q
from . import dm_util as U

TOL = 1e-9
QTOL = 1e-5  # q_zero_tolerance of c/dynmat.c == DynamicalMatrixNAC.Q_DIRECTION_TOLERANCE
TOLSQ = Fraction(QTOL) ** 2


def _cell(name):
    cell, cen = gen.make_cell(name)
    if cell.masses is None:
        cell.masses = [209.0] * len(cell)
    return cell, cen


def _q_cart(rec, qv):
    """get_q_cart of c/dynmat.c"""
    out = []
    for i in range(3):
        s = 0.0
        for j in range(3):
            s += float(rec[i][j]) * float(qv[j])
        out.append(s)
    return np.array(out)


def _dielectric_part(v, eps):
    s = 0.0
    for i in range(3):
        for j in range(3):
            s += float(v[i]) * float(eps[i][j]) * float(v[j])
    return s


def _dyn_in(dm, fc, qv):
    """`np ns nr p2s s2p fc ms phases` as run_dynamical_matrix_solver_c hands them to the kernel"""
    prim = dm.primitive
    svecs, multi = U.dense_svecs(prim)
    npa, ns = len(prim), multi.shape[0]
    if fc.shape[0] == fc.shape[1]:
        p2s, s2p = np.array(prim.p2s_map), np.array(prim.s2p_map)
    else:
        p2s, s2p = np.arange(npa), U.s2pp_map(prim)
    return "%d %d %d %s %s %s %s %s" % (npa, ns, fc.shape[0], U.ints(p2s), U.ints(s2p), U.flat(fc), U.flat(U.mass_sqrt(prim.masses)),
                                        U.phases_line(qv, svecs, multi, +1))


def _nac_in(rec, qv, direction, eps, born):
    qc = _q_cart(rec, qv)
    if direction is None:
        d = np.zeros(3)
        hd = 0
    else:
        d = _q_cart(rec, direction)
        hd = 1
    return "%s %d %s %s %s %s" % (U.flat(qc), hd, U.flat(d), q(TOLSQ), U.flat(eps), U.flat(born)), qc, (d if hd else None)


def _g_in(G_list, qc, eps, Lambda, pos):
    """`nG G expv phG`: exp(-K.eps.K/(4 Lambda^2)) and the phases of get_dd_at_g as the C code forms them"""
    L2 = 4 * Lambda * Lambda
    nG = len(G_list)
    expv = []
    for g in range(nG):
        K = [float(G_list[g][i]) + float(qc[i]) for i in range(3)]
        norm = 0.0
        for i in range(3):
            norm += K[i] * K[i]
        if math.sqrt(norm) < QTOL:
            expv.append(0.0)
        else:
            expv.append(math.exp(-_dielectric_part(K, eps) / L2))
    npa = len(pos)
    ph = []
    for g in range(nG):
        for i in range(npa):
            for j in range(npa):
                phase = 0.0
                for k in range(3):
                    phase += (float(pos[i][k]) - float(pos[j][k])) * float(G_list[g][k])
                phase *= 2 * U.PI
                ph.append(q(math.cos(phase)))
                ph.append(q(math.sin(phase)))
    return "%d %s %s %s" % (nG, U.flat(G_list), U.flat(expv), " ".join(ph))


def _margin_ok(rec, qv, direction):
    """keep away from the zone-centre tolerance edge (factor 1e3 either side)"""
    n = np.linalg.norm(_q_cart(rec, qv))
    ok = n < QTOL * 1e-3 or n > QTOL * 1e3
    if direction is not None:
        nd = np.linalg.norm(_q_cart(rec, direction))
        ok = ok and nd > QTOL * 1e3
    return ok


def _phys_factor(prim, unit_factor):
    """f of the statement: unit factor * 4 pi / Omega with the PHYSICAL volume Omega = |det(lattice)| > 0 (never taken from
    the implementation: a left-handed basis must not change the sign of the non-analytical term)"""
    return float(unit_factor) * 4.0 * math.pi / abs(float(np.linalg.det(np.asarray(prim.cell, dtype=float))))


def _closed_form(prim, Z, E, f, n_red):
    nc = np.linalg.inv(prim.cell) @ np.array(n_red, dtype=float)
    m = prim.masses
    npa = len(m)
    pred = np.zeros((3 * npa, 3 * npa))
    den = nc @ E @ nc
    for i in range(npa):
        for j in range(npa):
            pred[3 * i:3 * i + 3, 3 * j:3 * j + 3] = f * np.outer(nc @ Z[i], nc @ Z[j]) / den / math.sqrt(m[i] * m[j])
    return pred


SEARCH = {}


def _search_symmetric_born(run, c, line):
    """the model/implementation comparison of the Born-charge symmetrisation broke: look for a failing input of the property itself.
    Zm = the model's symmetrised charges (symmetric under the crystal's operations by born_symmetrize_projection); with Zm and eps set,
    D(Gamma; n) - D(Gamma) must be (4 pi/V) f (n.Zm_j)(n.Zm_j')/(n.eps.n)/sqrt(m m') for both methods."""
    try:
        Zm = np.array(U.parse_rats(line, c["shape"]), dtype="double")
        common.switch_variant(c["variant"])
        for method in ("wang", "gonze"):
            ph = gen.make_phonopy(c["cell"], c["smat"], pmat="P")
            ph.force_constants = c["fc"].copy()
            plain = _run_dm(ph, np.zeros(3))
            ph.nac_params = {"born": Zm.copy(), "dielectric": c["eps"].copy(), "factor": c["factor"], "method": method}
            got = _run_dm(ph, np.zeros(3), c["n"]) - plain
            pred = _closed_form(ph.primitive, Zm, c["eps"], _phys_factor(ph.primitive, c["factor"]), c["n"])
            sc = max(float(np.abs(pred).max()), float(np.abs(plain).max()), 1e-300)
            run.count("failing-input search: symmetric Born charges through the public API (%s)" % method, section="oracle")
            if np.abs(got - pred).max() > 1e-8 * sc:
                run.violation("Phonopy.run_qpoints(nac_q_direction)", "gamma-limit-symmetric-born-%s" % method,
                              "with Born charges that are symmetric under the crystal's operations set, D(Gamma; n) - D(Gamma) differs from (4pi/V) f (n.Z)(n.Z)/(n.eps.n)/sqrt(mm') "
                              "of the charges that were set by %.3g (scale %.3g)" % (np.abs(got - pred).max(), sc),
                              dict(c["info"], method=method, born=Zm.tolist(), dielectric=c["eps"].tolist(), direction=c["n"].tolist()))
                return
    except Exception as exc:  # noqa: BLE001
        run.count("failing-input search for symmetric Born charges could not run: %s" % type(exc).__name__, section="oracle")
    finally:
        common.switch_variant("omp")


def _run_dm(ph, qv, direction=None):
    ph.run_qpoints([qv], nac_q_direction=direction, with_dynamical_matrices=True)
    return np.array(ph.get_qpoints_dict()["dynamical_matrices"][0])


def _sym_ops_tables(cell, symprec=1e-5):
    """rotation matrices in Cartesian coordinates, their inverses and the atom maps exactly as
    _take_average_of_borns forms them"""
    from phonopy.structure.symmetry import Symmetry
    from phonopy.utils import similarity_transformation

    sym = Symmetry(cell, symprec=symprec)
    rots = sym.symmetry_operations["rotations"]
    trans = sym.symmetry_operations["translations"]
    lattice = cell.cell
    pos = cell.scaled_positions
    R, Ri, perm = [], [], []
    for r, t in zip(rots, trans):
        rc = similarity_transformation(lattice.T, r)
        R.append(rc)
        Ri.append(np.linalg.inv(rc))
        row = []
        for i in range(len(pos)):
            diff = np.dot(pos, r.T) + t - pos[i]
            diff -= np.rint(diff)
            dist = np.sqrt(np.sum(np.dot(diff, lattice) ** 2, axis=1))
            row.append(int(np.nonzero(dist < symprec)[0][0]))
        perm.append(row)
    ptg = sym.pointgroup_operations
    Rp = [similarity_transformation(lattice.T, r) for r in ptg]
    Rpi = [np.linalg.inv(r) for r in Rp]
    # multiplication table: mul[h][g] = an operation with rotation r_h r_g and atom map perm_g o perm_h
    ng = len(rots)
    perm = np.array(perm)
    mul = -np.ones((ng, ng), dtype=int)
    rep_err = 0.0
    for h in range(ng):
        used = set()
        for g in range(ng):
            rr = rots[h] @ rots[g]
            pp = perm[g][perm[h]]
            for x in range(ng):
                if x not in used and (rots[x] == rr).all() and (perm[x] == pp).all():
                    mul[h, g] = x
                    used.add(x)
                    break
            if mul[h, g] >= 0:
                rep_err = max(rep_err, float(np.abs(R[mul[h, g]] - R[h] @ R[g]).max()), float(np.abs(R[g] @ Ri[g] - np.eye(3)).max()))
    # point group (dielectric tensor): multiplication table on the distinct rotations
    ptg = np.array(ptg)
    npg = len(ptg)
    mulp = -np.ones((npg, npg), dtype=int)
    for h in range(npg):
        for g in range(npg):
            rr = ptg[h] @ ptg[g]
            for x in range(npg):
                if (ptg[x] == rr).all():
                    mulp[h, g] = x
                    break
            if mulp[h, g] >= 0:
                rep_err = max(rep_err, float(np.abs(Rp[mulp[h, g]] - Rp[h] @ Rp[g]).max()), float(np.abs(Rp[g] @ Rpi[g] - np.eye(3)).max()))
    return np.array(rots), np.array(R), np.array(Ri), perm, np.array(Rp), np.array(Rpi), mul, rep_err, ptg, mulp


def main(run):
    rng = run.rng
    common.setup_phonopy("omp")
    warnings.simplefilter("ignore")
    thorough = run.tier == "thorough"
    run.proof_step(leancheck=thorough)
    from phonopy.harmonic import force_constants as F
    from phonopy.harmonic.dynmat_to_fc import get_commensurate_points
    from phonopy.interface.calculator import get_default_physical_units
    from phonopy.structure.symmetry import symmetrize_borns_and_epsilon

    run.cov["rule"] = (
        "polar prototypes (nacl_prim, zincblende_prim, cscl, wurtzite, perovskite) x supercell matrix (det <= 4) x full/compact x "
        "OpenMP/serial x nac factor of several calculators x {wang, gonze}, interleaved with low-symmetry cells (triclinic P1 with 3 atoms, "
        "monoclinic, random P1 cells with 2-3 atoms) where the Born tensors stay non-symmetric (Z_ab != Z_ba, counted); Born charges random "
        "non-symmetric with the acoustic sum rule, dielectric tensor random symmetric positive definite (entries k/8), both "
        "symmetrised by phonopy; q in {Gamma with direction, Gamma without, non-zero commensurate, generic}; directions random "
        "with lengths 1e-2..3e2. Non-trivial = non-zero Born charges and (direction at Gamma or q != 0). Each case also runs the "
        "zero-Born-charge variant and the three limits on the implementation.")
    run.cov["trusted_base"] = [
        "Lean 4.33 kernel; Mathlib v4.33; axioms per theorem in coverage.theorems",
        "hand-written model Model/NAC.lean tied to c/dynmat.c, dynamical_matrix.py, symmetry.py by this correspondence run",
        "libm exp/cos/sin/sqrt are parameters: the model receives the values the kernel computes (recomputed with the same expressions)",
        "G_list, Lambda, dd_q0, short-range force constants, symmetry operations are taken from the implementation",
        "nanobind replaced by harness/nbstub (c/_phonopy.cpp itself is compiled unchanged)",
        "float rounding outside the model: comparison tolerance 1e-9*max|entry|",
    ]
    run.assumptions += [
        "IEEE rounding of the C/Python code is not modelled",
        "Gonze-Lee real-space part (with_full_terms=True, erfc) is not modelled",
        "zone-centre tolerance edge (|q| within 1e3x of 1e-5) is not exercised with a definite expectation",
        "Gonze-Lee no-op at commensurate q: 1e-6 of the dipole scale at points strictly inside the first zone (1e-4 on the reduced sum), 1e-3 on the zone boundary, recorded and bounded by 1e-2 outside the first zone (truncated reciprocal sum is not G-periodic); Wang 1e-9",
    ]

    # high-symmetry polar prototypes interleaved with low-symmetry cells (P1 / monoclinic), where the
    # symmetrised Born tensors stay non-symmetric (Z_ab != Z_ba) and dd_q0 blocks are not symmetric
    # before their Hermitisation
    names = ["nacl_prim", "triclinic", "zincblende_prim", "mono_P", "cscl", "random_p1", "wurtzite", "perovskite"]
    low_sym = ("triclinic", "mono_P", "random_p1")
    # every calculator's nac_factor of the unit table (the table C17.nac_consistent is proved about:
    # each entry is e^2/(4 pi eps0) in that calculator's force-constant and length units)
    from phonopy.interface.calculator import calculator_info

    calc_factor = {}
    for cname in sorted(list(calculator_info) + ["vasp"]):
        try:
            v = get_default_physical_units(cname)["nac_factor"]
        except Exception:
            v = None
        if v is not None:
            calc_factor[cname] = float(v)
    calcs = sorted(calc_factor)
    run.cov["nac_factor_table"] = calc_factor
    ncases = 48 if thorough else 8
    nmax = 24 if thorough else 16
    lines, meta = [], []
    made = attempts = 0
    while made < ncases and attempts < 30 * ncases:
        attempts += 1
        name = names[made % len(names)] if attempts < 3 * ncases else rng.choice(names[:3])
        if name == "random_p1":
            cell, cen = gen.random_cell(rng, natom=rng.choice([2, 3])), "P"
        else:
            cell, cen = _cell(name)
        smat = rng.choice(gen.supercell_matrices(rng, max_det=4, count=12))
        if len(cell) * int(round(np.linalg.det(smat))) > nmax or int(round(np.linalg.det(smat))) < 2:
            continue
        try:
            ph = gen.make_phonopy(cell, smat, pmat="P")
        except Exception:
            run.count("constructor-rejected")
            continue
        variant = "omp" if made % 2 == 0 else "ser"
        common.switch_variant(variant)
        prim, scell = ph.primitive, ph.supercell
        npa, ns = len(prim), len(scell)
        full = rng.choice([True, False])
        cutoff = max(rng.choice([0.5, 0.8]) * gen.min_lattice_vector(scell.cell), 0.85 * min(np.linalg.norm(prim.cell, axis=1)))
        phi = U.pair_fc(scell, cutoff)
        fc_used = phi if full else F.full_fc_to_compact_fc(prim, phi)
        calc = calcs[(made + run.seed) % len(calcs)] if made < 2 * len(calcs) else rng.choice(calcs)
        factor = calc_factor[calc]
        run.count("calculator unit system %s" % calc)
        born0, eps0 = U.random_born_eps(rng, npa)
        born0 = born0 - born0.mean(axis=0)  # acoustic sum rule; tensors themselves are NOT symmetric
        born_s, eps_s = symmetrize_borns_and_epsilon(born0, eps0, prim)
        z_asym = float(max(np.abs(z - z.T).max() for z in born_s))
        run.count("Born tensors non-symmetric after symmetrisation (Z_ab != Z_ba)" if z_asym > 1e-3 else "Born tensors symmetric after symmetrisation")
        if name in low_sym and z_asym <= 1e-3:
            run.count("low-symmetry cell whose symmetrised Born tensors happen to be symmetric")
        rec = np.array(np.linalg.inv(prim.cell), dtype="double", order="C")
        smat_p = np.rint(np.linalg.inv(prim.primitive_matrix)).astype(int)
        cp = get_commensurate_points(smat_p)
        from phonopy.structure.brillouin_zone import BrillouinZone

        bz = BrillouinZone(np.linalg.inv(prim.cell))
        bz.run(cp)
        # a commensurate point strictly inside the first zone (unique shortest representative) when there is one:
        # there the Gonze-Lee subtraction/addition cancels exactly; on the zone boundary the truncated reciprocal
        # sum is not G-periodic and the cancellation holds only to its precision
        interior = [i for i in range(1, len(cp)) if len(bz.shortest_qpoints[i]) == 1]
        iq = rng.choice(interior) if interior and rng.random() < 0.75 else rng.randrange(1, len(cp))
        q_comm = cp[iq]
        q_comm_interior = len(bz.shortest_qpoints[iq]) == 1
        q_comm_bz = np.array(bz.shortest_qpoints[iq][0], dtype="double")  # the representative make_Gonze_nac_dataset uses
        q_gen = np.array([rng.randint(-16, 16) / 16.0 + 0.0173 for _ in range(3)])
        n1 = np.array([rng.randint(-8, 8) / 4.0 for _ in range(3)])
        if np.abs(n1).max() == 0:
            n1 = np.array([1.0, 0, 0])
        lam = rng.choice([0.01, 0.25, 3.0, 300.0])
        extra_dirs = [np.array([rng.randint(-9, 9) / 3.0 + 0.05 * (k + 1) for k in range(3)]) * rng.choice([0.02, 1.0, 50.0]) for _ in range(2 if name in low_sym else 1)]
        info0 = dict(cell=name, smat=np.asarray(smat).tolist(), layout="full" if full else "compact", variant=variant, factor=factor,
                     born=born_s.tolist(), dielectric=eps_s.tolist())
        made += 1
        run.sample(dict(kind="nac", **{k: info0[k] for k in ("cell", "smat", "layout", "variant", "factor")}, direction=n1.tolist(), scale=lam, q_commensurate=q_comm.tolist()))

        # certificate of the structural phase description used by wang_commensurate_noop /
        # gl_commensurate_partial (the same Lat.wf as in C06), on this case's tables
        from .c06 import _lat_data

        svecs_c, multi_c = U.dense_svecs(prim)
        s2pp_c, p2s_c = U.s2pp_map(prim), np.array(prim.p2s_map, dtype=int)
        Ncell = ns // npa
        kq_c, R_c, herr = _lat_data(prim, cp, svecs_c, multi_c, s2pp_c, p2s_c, Ncell)
        if kq_c is None or herr > 1e-9:
            run.broke("correspondence", "phases of the shortest vectors do not have the structural form assumed by the commensurate theorems (err %.3g)" % herr, info0)
        else:
            lines.append("latwf %d %d %d %d %s %s %s %s" % (npa, ns, Ncell, Ncell, U.ints(s2pp_c), U.ints(p2s_c), U.ints(kq_c), U.ints(R_c)))
            meta.append(("lattice-certificate", info0, lambda line: None if line == "true" else "Lat.wf = %s on the implementation's tables" % line))

        # plain matrices
        ph.force_constants = fc_used.copy()
        ph.nac_params = None
        gam = np.zeros(3)
        plain = {k: _run_dm(ph, v) for k, v in (("gamma", gam), ("comm", q_comm), ("comm_bz", q_comm_bz), ("gen", q_gen))}
        sc = max(1.0, max(float(np.abs(v).max()) for v in plain.values()))

        # ---- symmetrisation of Born charges / dielectric tensor: correspondence + projection oracle
        rots, R, Ri, perm, Rp, Rpi, mul, rep_err, ptg, mulp = _sym_ops_tables(prim)
        run.count("representation hypothesis R(hg)=R(h)R(g), R R^-1 = 1 checked (max err %.0e)" % (10 ** np.ceil(np.log10(max(rep_err, 1e-17)))), section="correspondence")
        if (mul < 0).any() or (mulp < 0).any() or rep_err > 1e-9:
            run.broke("correspondence", "symmetry operations do not form a group table / Cartesian rotations are not a representation (err %.3g)" % rep_err, info0)
            mul = np.maximum(mul, 0)
            mulp = np.maximum(mulp, 0)
        lines.append("groupwf 1 %d %s %s %s" % (len(ptg), U.ints(ptg), U.ints(np.zeros(len(ptg), dtype=int)), U.ints(mulp)))
        meta.append(("group-certificate", info0, lambda line: None if line == "true" else "groupWf = %s on the point-group operations" % line))
        lines.append("groupwf %d %d %s %s %s" % (npa, len(R), U.ints(rots), U.ints(perm), U.ints(mul)))
        meta.append(("group-certificate", info0, lambda line: None if line == "true" else "groupWf = %s on the implementation's operations" % line))
        lines.append("symborns %d %d %s %s %s %s" % (npa, len(R), U.flat(R), U.flat(Ri), U.ints(perm), U.flat(born0)))
        meta.append(("symmetrize-borns", info0, lambda line, b=born_s: _cmp(U.parse_rats(line, b.shape), b)))
        # failing-input search, run only when the comparison above breaks: Born charges that ARE symmetric (the model's group
        # average, a proved projection) set through the public API must give the closed form of the statement with those charges
        SEARCH[id(info0)] = dict(cell=cell, smat=smat, fc=np.array(fc_used).copy(), eps=eps_s.copy(), shape=born_s.shape, n=n1.copy(), factor=factor,
                                 variant=variant, info={k: v for k, v in info0.items() if k not in ("born", "dielectric")})
        lines.append("symeps %d %s %s %s" % (len(Rp), U.flat(Rp), U.flat(Rpi), U.flat(eps0)))
        meta.append(("symmetrize-epsilon", info0, lambda line, e=eps_s: _cmp(U.parse_rats(line, (1, 3, 3))[0] if line != "bad-op" else None, e)))
        b2, e2 = symmetrize_borns_and_epsilon(born_s, eps_s, prim)
        if not U.close(b2, born_s, 1e-12, max(1.0, float(np.abs(born0).max()))) or not U.close(e2, eps_s, 1e-12, max(1.0, float(np.abs(eps0).max()))):
            # not in the statement of C08 (it quantifies over symmetrised tensors): a claim of the model (born_symmetrize_projection)
            run.broke("correspondence", "symmetrize_borns_and_epsilon is not idempotent on the implementation (%.3g / %.3g), the model says it is" % (U.maxdiff(b2, born_s), U.maxdiff(e2, eps_s)), info0)
        if np.abs(born_s.sum(axis=0)).max() > 1e-12 * max(1.0, float(np.abs(born0).max())) * npa:
            run.broke("correspondence", "sum of symmetrised Born charges is %.3g (the model imposes the sum rule)" % np.abs(born_s.sum(axis=0)).max(), info0)
        run.count("symmetrisation projection oracle", section="oracle")

        # Gonze-Lee: the model is compared on a reduced reciprocal sum (about 40 G points; exact rational
        # sums over 300 different denominators are too slow), the limits are checked on the default one too
        n_g = rng.choice([30, 40, 50]) if npa <= 2 else (24 if npa <= 3 else (20 if npa <= 4 else 14))
        if thorough:
            n_g *= 2
        g_small = (3 * n_g / (4 * np.pi) / abs(float(np.linalg.det(prim.cell)))) ** (1.0 / 3)
        for method, extra, corr in (("wang", {}, True), ("gonze", {"G_cutoff": g_small}, True), ("gonze", {}, False)):
            info = dict(info0, method=method, **extra)
            ph.nac_params = dict({"born": born_s.copy(), "dielectric": eps_s.copy(), "factor": factor, "method": method}, **extra)
            dm = ph.dynamical_matrix
            Z, E, f = np.array(dm.born), np.array(dm.dielectric_constant), _phys_factor(prim, factor)
            if abs(float(dm.nac_factor) - f) > 1e-12 * abs(f):
                run.count("observation: DynamicalMatrixNAC.nac_factor differs from unit factor * 4 pi / |volume|")
            run.count("method %s / %s / %s" % (method, "full" if full else "compact", variant))
            run.count("cell %s" % name)
            run.count("nac factor %.4g" % factor)

            requests = [(gam, n1, "gamma+dir"), (gam, None, "gamma"), (q_comm, None, "commensurate"), (q_gen, None, "generic"), (q_gen, n1, "generic+dir")]
            if method == "gonze":
                requests[2] = (q_comm_bz, None, "commensurate-bz")
                if not extra:
                    requests.append((q_comm, None, "commensurate"))
            results = {}
            for qv, dr, tag in requests:
                if not _margin_ok(rec, qv, dr):
                    run.count("skipped: tolerance edge")
                    continue
                impl = _run_dm(ph, qv, dr)
                results[tag] = impl
                run.case(("nac", name, np.asarray(smat).tolist(), full, method, factor, born_s.tobytes(), eps_s.tobytes(), tuple(qv), None if dr is None else tuple(dr)),
                         nontrivial=(dr is not None or np.abs(qv).max() > 0))
                if z_asym > 1e-3:
                    run.count("requests with Z_ab != Z_ba (%s)" % method)
                # Hermiticity of every returned matrix
                if np.abs(impl - impl.conj().T).max() > 1e-9 * max(sc, 1.0):
                    msg = "dynamical matrix with NAC is not Hermitian (max |D - D^H| = %.3g) at %s" % (float(np.abs(impl - impl.conj().T).max()), tag)
                    cse = dict(info, q=list(map(float, qv)), direction=None if dr is None else list(map(float, dr)))
                    if tag.startswith("generic"):
                        # at a general q the statement fixes nothing; Hermiticity there is a claim of the model (gl_hermitian)
                        run.broke("correspondence", msg, {k: v for k, v in cse.items() if k not in ("born", "dielectric")})
                    else:
                        # zone centre / commensurate q: the statement equates D with the (Hermitian) uncorrected matrix plus a symmetric term
                        run.violation("Phonopy.run_qpoints", "not-hermitian-%s" % method, msg, cse)
                # the API only forwards the direction at the zone centre in the serial build; the kernel ignores it elsewhere
                dr_eff = dr if np.abs(qv).max() < 1e-5 else None
                nacl, qc, dcart = _nac_in(rec, qv, dr_eff, E, Z)
                if not corr or (method == "gonze" and tag in ("gamma", "generic+dir") and not thorough):
                    continue
                if method == "wang":
                    lines.append("wang %s %s %s" % (_dyn_in(dm, np.array(dm.force_constants), qv), q(f), nacl))
                else:
                    fcsr, ddq0, Gc, Gl, Lam = dm.Gonze_nac_dataset
                    if tag == "gamma" and variant == "ser":
                        # serial build, Gamma without direction: DynamicalMatrixNAC.run falls back to the plain matrix
                        lines.append("wang %s %s %s" % (_dyn_in(dm, np.array(dm.force_constants), qv), q(f), nacl))
                    else:
                        lines.append("gl %s %s %s %s %s" % (_dyn_in(dm, np.array(fcsr), qv), nacl, _g_in(Gl, qc, E, Lam, prim.positions),
                                                            U.flat_complex(ddq0), q(f)))
                meta.append(("%s-%s" % (method, tag), dict(info, q=list(map(float, qv)), direction=None if dr is None else list(map(float, dr))),
                             lambda line, impl=impl, npa=npa: _cmp(U.parse_complex(line, (3 * npa, 3 * npa)), impl)))
            if method == "gonze":
                fcsr, ddq0, Gc, Gl, Lam = dm.Gonze_nac_dataset
                run.count("G points %d" % (10 * (len(Gl) // 10)))
                z0 = np.array(ddq0)
                herr0 = float(np.abs(z0 - z0.conj().transpose(0, 2, 1)).max())
                if herr0 > 1e-9 * max(1.0, float(np.abs(z0).max())):
                    # private attribute: a claim of the model (dd_q0_hermitian_real), the end effect is the Hermiticity check above
                    run.broke("correspondence", "a 3x3 block of the implementation's dd_q0 is not Hermitian (max deviation %.3g, scale %.3g)" % (herr0, float(np.abs(z0).max())),
                              {k: v for k, v in info.items() if k not in ("born", "dielectric")})
                run.count("dd_q0 Hermitian/real compared with the model claim", section="correspondence")
                if np.abs(z0.imag).max() > 1e-9 * max(1.0, float(np.abs(z0).max())):
                    run.broke("correspondence", "the implementation's dd_q0 has an imaginary part %.3g (model: real for a symmetric G list)" % float(np.abs(z0.imag).max()),
                              {k: v for k, v in info.items() if k not in ("born", "dielectric")})
                # certificate: the list is symmetric under G -> -G (hypothesis of gl_time_reversal / dd_q0_hermitian_real)
                key = {tuple(g): k for k, g in enumerate(np.asarray(Gl).tolist())}
                nu = [key.get(tuple((-g + 0.0).tolist()), -1) for g in np.asarray(Gl)]
                if min(nu) < 0:
                    run.broke("correspondence", "the implementation's G_list is not symmetric under G -> -G (hypothesis of gl_time_reversal)",
                              {k: v for k, v in info.items() if k not in ("born", "dielectric")})
                elif len(Gl) <= 400:
                    lines.append("glistwf %d %s %s" % (len(Gl), U.flat(Gl), U.ints(nu)))
                    meta.append(("g-list-certificate", info, lambda line: None if line == "true" else "gListWf = %s on the implementation's G_list" % line))
                # the list itself: model _get_G_list at the implementation's index radius
                # (index radius re-derived from the public list: n = cell . G; the private routine is an optional refinement)
                n_idx = np.rint(np.asarray(Gl) @ np.asarray(prim.cell).T)
                r_eff = int(np.abs(n_idx).max()) if len(n_idx) else 0
                r_impl = _index_radius(run, dm, Gc)
                if r_eff <= 8:
                    lines.append("glist %s %s %s %d" % (U.flat(rec), U.flat(np.array(prim.cell)), q(Fraction(float(Gc)) ** 2), r_eff))
                    meta.append(("g-list", info, lambda line, Gl=np.array(Gl), rec=rec, r=r_impl: _cmp_glist(line, Gl, rec, r, run)))
                # time reversal on the implementation: D(-q) = conj D(q) exactly (same list, -K for K)
                dq = _run_dm(ph, -q_gen)
                if "generic" in results and not U.close(dq, results["generic"].conj(), 1e-12, sc_dd):
                    run.broke("correspondence", "gonze: D(-q) differs from conj D(q) by %.3g at a general q (model: gl_time_reversal)" % U.maxdiff(dq, results["generic"].conj()),
                              dict({k: v for k, v in info.items() if k not in ("born", "dielectric")}, q=q_gen.tolist()))
                run.count("time-reversal at a general q compared (gonze)", section="correspondence")
            if method == "wang":
                dq = _run_dm(ph, -q_gen)
                if "generic" in results and not U.close(dq, results["generic"].conj(), 1e-12, sc):
                    run.broke("correspondence", "wang: D(-q) differs from conj D(q) by %.3g at a general q (model: dynmat_time_reversal + even charge sum)" % U.maxdiff(dq, results["generic"].conj()),
                              dict({k: v for k, v in info.items() if k not in ("born", "dielectric")}, q=q_gen.tolist()))
                run.count("time-reversal at a general q compared (wang)", section="correspondence")
            if method == "gonze" and corr:
                lines.append("ddq0 %d %s %s %s %s" % (npa, q(TOLSQ), U.flat(E), U.flat(Z), _g_in(Gl, np.zeros(3), E, Lam, prim.positions)))
                meta.append(("gonze-dd_q0", info, lambda line, z=np.array(ddq0): _cmp(U.parse_complex(line, z.shape), z)))

            # ---- oracle: the limits of the property on the implementation
            # Gonze-Lee precision is relative to the size of the dipole-dipole term itself
            sc_dd = max(sc, float(np.abs(_closed_form(prim, Z, E, f, n1)).max()), float(np.abs(_closed_form(prim, Z, E, f, [1, 0, 0])).max()))
            if "gamma+dir" in results:
                pred = _closed_form(prim, Z, E, f, n1)
                diff = results["gamma+dir"] - plain["gamma"]
                if not U.close(diff, pred, TOL, sc):
                    run.violation("Phonopy.run_qpoints(nac_q_direction)", "gamma-limit-%s" % method,
                                  "D(Gamma; n) - D(Gamma) differs from (4pi/V) f (n.Z)(n.Z)/(n.eps.n)/sqrt(mm') by %.3g" % U.maxdiff(diff, pred),
                                  dict(info, direction=n1.tolist()))
                for n_extra in extra_dirs:
                    if not _margin_ok(rec, gam, n_extra):
                        continue
                    dg = _run_dm(ph, gam, n_extra) - plain["gamma"]
                    pe = _closed_form(prim, Z, E, f, n_extra)
                    if not U.close(dg, pe, TOL, sc_dd):
                        run.violation("Phonopy.run_qpoints(nac_q_direction)", "gamma-limit-%s" % method,
                                      "D(Gamma; n) - D(Gamma) differs from (4pi/V) f (n.Z)(n.Z)/(n.eps.n)/sqrt(mm') by %.3g" % U.maxdiff(dg, pe),
                                      dict(info, direction=list(map(float, n_extra))))
                    run.count("gamma-limit directions checked", section="oracle")
                if _margin_ok(rec, gam, lam * n1):
                    scaled = _run_dm(ph, gam, lam * n1)
                    if not U.close(scaled, results["gamma+dir"], TOL, sc):
                        run.violation("Phonopy.run_qpoints(nac_q_direction)", "direction-length-%s" % method,
                                      "result depends on |n|: scaling n by %g changes D by %.3g" % (lam, U.maxdiff(scaled, results["gamma+dir"])),
                                      dict(info, direction=n1.tolist(), scale=lam))
            if "gamma" in results and not U.close(results["gamma"], plain["gamma"], TOL if method == "wang" else 1e-6, sc if method == "wang" else sc_dd):
                run.violation("Phonopy.run_qpoints", "gamma-without-direction-%s" % method, "zone-centre matrix without direction differs from the uncorrected one by %.3g" % U.maxdiff(results["gamma"], plain["gamma"]), info)
            if "commensurate" in results and method == "wang":
                if not U.close(results["commensurate"], plain["comm"], TOL, sc):
                    run.violation("Phonopy.run_qpoints", "commensurate-noop-wang",
                                  "correction changes D at a non-zero commensurate q by %.3g (scale %.3g)" % (U.maxdiff(results["commensurate"], plain["comm"]), sc),
                                  dict(info, q=q_comm.tolist()))
            if "commensurate-bz" in results:
                # in the first zone what was subtracted is added back: 1e-6 of the dipole-dipole scale
                # (1e-4 for the artificially reduced sum used for the correspondence)
                tol_bz = (1e-6 if not extra else 1e-4) if q_comm_interior else 1e-3
                run.count("gonze commensurate no-op: %s point, tol %.0e" % ("interior" if q_comm_interior else "zone-boundary", tol_bz), section="oracle")
                if not U.close(results["commensurate-bz"], plain["comm_bz"], tol_bz, sc_dd):
                    run.violation("Phonopy.run_qpoints", "commensurate-noop-gonze",
                                  "correction changes D at a non-zero commensurate q of the first zone by %.3g (scale %.3g)" % (U.maxdiff(results["commensurate-bz"], plain["comm_bz"]), sc_dd),
                                  dict(info, q=q_comm_bz.tolist()))
            if "commensurate" in results and method == "gonze":
                # outside the first zone the truncated reciprocal sum is not G-periodic (documented in
                # make_Gonze_nac_dataset); default G_cutoff only, deviation recorded and bounded at 1e-2 of the dipole-dipole scale
                rel = U.maxdiff(results["commensurate"], plain["comm"]) / sc_dd
                run.count("gonze, commensurate q in [0,1): deviation <= 1e%d of dd scale" % int(np.ceil(np.log10(max(rel, 1e-17)))), section="oracle")
                if rel > 1e-2:
                    run.violation("Phonopy.run_qpoints", "commensurate-noop-gonze-outside-bz",
                                  "correction changes D at a commensurate q outside the first zone by %.3g (scale %.3g)" % (rel * sc_dd, sc_dd),
                                  dict(info, q=q_comm.tolist()))
            if "generic" in results and "generic+dir" in results and not U.close(results["generic"], results["generic+dir"], 1e-12, sc):
                run.broke("correspondence", "%s: nac_q_direction changes D at a non-zero q (model nacVector ignores it there)" % method,
                          {k: v for k, v in info.items() if k not in ("born", "dielectric")})
            if "generic" in results and U.close(results["generic"], plain["gen"], 1e-12, sc):
                run.count("generic q: correction numerically absent")
            # zero Born charges: identical matrices everywhere
            ph.nac_params = dict({"born": np.zeros_like(born_s), "dielectric": eps_s.copy(), "factor": factor, "method": method}, **extra)
            for qv, dr, key in ((gam, n1, "gamma"), (q_comm, None, "comm"), (q_gen, None, "gen")):
                z = _run_dm(ph, qv, dr)
                if not U.close(z, plain[key], 1e-9 if method == "gonze" else 1e-12, sc):
                    run.violation("Phonopy.nac_params", "zero-born-%s" % method, "zero Born charges change D at %s by %.3g" % (key, U.maxdiff(z, plain[key])), info)
            run.count("limits oracle (%s)" % method, section="oracle")
            ph.nac_params = dict({"born": born_s.copy(), "dielectric": eps_s.copy(), "factor": factor, "method": method}, **extra)
            _batched_oracle(run, rng, ph, prim, rec, cp, q_comm if method == "wang" else q_comm_bz, q_gen, n1, plain, sc, sc_dd, method, info, thorough, factor)
    common.switch_variant("omp")
    _full_terms_stream(run, rng, thorough)
    _sequence_stream(run, rng, thorough)
    _left_handed_stream(run, rng, thorough)
    _error_path_stream(run, rng, thorough)
    _glist_observations(run, rng, thorough)

    out = common.lean_run_driver("C08", lines)
    if len(out) != len(lines):
        run.broke("correspondence", "driver answered %d lines for %d requests" % (len(out), len(lines)))
    ncmp = 0
    for (kind, info, chk), line in zip(meta, out):
        ncmp += 1
        run.count(kind, section="correspondence")
        err = chk(line)
        if err is not None:
            run.broke("correspondence", "%s: %s" % (kind, err), {k: v for k, v in info.items() if k not in ("born", "dielectric")})
            if kind == "symmetrize-borns" and id(info) in SEARCH and line != "bad-op":
                _search_symmetric_born(run, SEARCH[id(info)], line)
    run.cov["correspondence"]["compared"] = ncmp


def _batched_oracle(run, rng, ph, prim, rec, cp, q_c, q_gen, n1, plain, sc, sc_dd, method, info, thorough, unit_factor):
    """Many q-points through ONE run_dynamical_matrix_solver_c call (the Mesh / QpointsPhonon batch path, OpenMP over
    q-points) must equal the one-q-at-a-time results entry-wise, the closed form at the zone centre and the uncorrected
    matrix at commensurate points."""
    import os

    from phonopy.harmonic.dynamical_matrix import run_dynamical_matrix_solver_c

    dm = ph.dynamical_matrix
    if not _margin_ok(rec, np.zeros(3), n1):
        return
    distinct = [np.zeros(3), np.array(q_c, dtype=float), np.array(q_gen, dtype=float), -np.array(q_gen, dtype=float)]
    distinct += [np.array(c, dtype=float) for c in cp[1:4]]
    distinct += [np.array([rng.randint(-16, 16) / 16.0 + 0.0137 * (k + 1) for _ in range(3)]) for k in range(5)]
    distinct = [d for d in distinct if _margin_ok(rec, d, None)]
    single = [np.array(run_dynamical_matrix_solver_c(dm, np.array([d]), n1)[0]) for d in distinct]
    nrep = rng.randint(50, 700) if not thorough else rng.randint(300, 1500)
    order = [rng.randrange(len(distinct)) for _ in range(nrep)]
    qs = np.array([distinct[k] for k in order], dtype="double", order="C")
    batch = np.array(run_dynamical_matrix_solver_c(dm, qs, n1))
    ref = np.array([single[k] for k in order])
    tol_sc = max(sc, sc_dd)
    run.count("batched solver oracle (%s): %d q-points in one call, OMP_NUM_THREADS=%s" % (method, 100 * (nrep // 100), os.environ.get("OMP_NUM_THREADS", "?")), section="oracle")
    case = dict(info, n_qpoints=nrep, distinct_qpoints=[d.tolist() for d in distinct], direction=n1.tolist(), order_head=order[:20])
    fixed_by_statement = np.array([pos in (0, 1) for pos in order])  # zone centre with direction, commensurate q

    def batched_vs_single(site, arr):
        devs = np.abs(arr - ref).reshape(nrep, -1).max(axis=1)
        if devs.max() <= 1e-12 * tol_sc:
            return
        bad = int(np.argmax(np.where(fixed_by_statement, devs, -1.0))) if (devs[fixed_by_statement] > 1e-12 * tol_sc).any() else int(np.argmax(devs))
        msg = "one call with %d q-points differs from the one-q-at-a-time result by %.3g (entry %d, q=%s)" % (nrep, float(devs[bad]), bad, qs[bad].tolist())
        if fixed_by_statement[bad]:
            # the statement gives the value at this q (closed form / uncorrected matrix): one of the two results violates it
            run.violation(site, "batched-ne-single-%s" % method, msg, case)
        else:
            # only general q-points differ: agreement of access paths is C14's property; here it is the tie to the modelled routine
            run.broke("correspondence", "%s (%s): %s" % (site, method, msg), {k: v for k, v in case.items() if k not in ("born", "dielectric")})

    batched_vs_single("run_dynamical_matrix_solver_c", batch)
    # closed form at the zone-centre entries, no-op at the commensurate entries
    pred = None
    for k, pos in enumerate(order):
        if pos == 0:
            if pred is None:
                pred = _closed_form(prim, np.array(dm.born), np.array(dm.dielectric_constant), _phys_factor(prim, unit_factor), n1)
            if not U.close(batch[k] - plain["gamma"], pred, TOL, tol_sc):
                run.violation("run_dynamical_matrix_solver_c", "batched-gamma-limit-%s" % method,
                              "batched zone-centre matrix differs from the closed form by %.3g" % U.maxdiff(batch[k] - plain["gamma"], pred), case)
                break
        elif pos == 1:
            pl = plain["comm"] if method == "wang" else plain["comm_bz"]
            if not U.close(batch[k], pl, TOL if method == "wang" else 1e-3, tol_sc):
                run.violation("run_dynamical_matrix_solver_c", "batched-commensurate-noop-%s" % method,
                              "batched matrix at a commensurate q differs from the uncorrected one by %.3g" % U.maxdiff(batch[k], pl), case)
                break
    # the public batch path: Phonopy.run_qpoints with all points at once
    ph.run_qpoints(qs, nac_q_direction=n1, with_dynamical_matrices=True)
    api = np.array(ph.get_qpoints_dict()["dynamical_matrices"])
    batched_vs_single("Phonopy.run_qpoints", api)


def _index_radius(run, dm, Gc):
    """optional hook: the index radius the implementation used (private routine); None when it is not there"""
    f = getattr(dm, "_get_minimum_g_rad", None)
    if f is None:
        run.count("intermediate hook unavailable: DynamicalMatrixGL._get_minimum_g_rad")
        return None
    try:
        return int(f(Gc, 100))
    except Exception:
        run.count("intermediate hook unavailable: DynamicalMatrixGL._get_minimum_g_rad")
        return None


def _cmp_glist(line, Gl, rec, r_impl, run):
    """model answer `minGRad safeGRad len n...` vs the implementation's G_list at its own index radius"""
    if line == "bad-op":
        return "model rejected the input"
    t = line.split()
    r_old, r_safe, ln = int(t[0]), int(t[1]), int(t[2])
    n = np.array(list(map(int, t[3:])), dtype=float).reshape(-1, 3)
    # the routine now in /repo (fix ce56bcc) is the model `safeGRad`; `minGRad` models the routine as found
    if r_impl is not None:
        if r_impl != r_safe:
            return "index radius %d of the implementation is not floor(G_cutoff max|a_i|)+1 = %d (model safeGRad; as-found routine: %d)" % (r_impl, r_safe, r_old)
        run.count("index radius = safeGRad" + (" (as-found routine gives the same)" if r_old == r_safe else " (as-found routine would give %d)" % r_old), section="correspondence")
    if ln != len(Gl) or len(n) != len(Gl):
        return "model list has %d vectors, implementation %d" % (ln, len(Gl))
    Gm = n @ np.asarray(rec).T
    if np.abs(Gm - Gl).max() > 1e-12 * max(1.0, float(np.abs(Gl).max())):
        return "G vectors differ (order or values) by %.3g" % float(np.abs(Gm - Gl).max())
    return None


def _exact_glist_count(prim_cell, rec, Gc):
    import itertools

    R = [int(np.floor(Gc * np.linalg.norm(prim_cell[i]))) + 1 for i in range(3)]
    grid = np.array(list(itertools.product(*[range(-r, r + 1) for r in R])))
    G = grid @ rec.T
    n2 = np.sum(G ** 2, axis=1)
    return G[n2 < Gc ** 2], np.sqrt(n2[n2 < Gc ** 2])


def _glist_observations(run, rng, thorough):
    """Observation outside the property (not an alarm): for skewed / non-reduced primitive bases
    `_get_minimum_g_rad` underestimates the index radius and the default G list misses vectors inside
    G_cutoff. The three limits of C08 are not affected (the same list is subtracted and added); recorded:
    how many vectors are missing, the largest omitted weight, and the first-zone commensurate no-op."""
    from phonopy import Phonopy
    from phonopy.harmonic.dynamical_matrix import DynamicalMatrix, DynamicalMatrixGL
    from phonopy.harmonic.dynmat_to_fc import get_commensurate_points
    from phonopy.structure.atoms import PhonopyAtoms
    from phonopy.structure.brillouin_zone import BrillouinZone

    obs = []
    cells = [("cubic a1=a+2b", np.array([[1, 2, 0], [0, 1, 0], [0, 0, 1]]) @ (np.eye(3) * 5.5), np.diag([1, 2, 1])),
             ("monoclinic beta=140", gen._c(6.0, 4.0, 9.0, 90, 140, 90), np.diag([2, 1, 1]))]
    for t in range(20 if thorough else 2):
        sh = np.array([[1, rng.randint(-3, 3), rng.randint(-3, 3)], [0, 1, rng.randint(-3, 3)], [0, 0, 1]])
        S = [np.diag([2, 1, 1]), np.diag([1, 2, 1]), np.diag([1, 1, 2])][rng.randrange(3)]
        cells.append(("cubic sheared by %s" % sh[np.triu_indices(3, 1)].tolist(), sh @ (np.eye(3) * rng.choice([3.5, 4.0, 5.5])), S))
    for tag, lat, S in cells:
        cell = PhonopyAtoms(cell=lat, symbols=["Na", "Cl"], scaled_positions=[[0, 0, 0], [0.5, 0.5, 0.5]])
        ph = Phonopy(cell, supercell_matrix=S, primitive_matrix="P", log_level=0)
        prim, sc = ph.primitive, ph.supercell
        phi = U.pair_fc(sc, 0.9 * gen.min_lattice_vector(sc.cell))
        Z = np.array([np.eye(3) * 1.1, -np.eye(3) * 1.1])
        E = np.eye(3) * 2.5
        ph.force_constants = phi
        rec = np.linalg.inv(prim.cell)
        cp = get_commensurate_points(np.rint(np.linalg.inv(prim.primitive_matrix)).astype(int))
        bz = BrillouinZone(rec)
        bz.run(cp)
        qs = np.array([bz.shortest_qpoints[i][0] for i in range(1, len(cp))])
        ph.run_qpoints(qs, with_dynamical_matrices=True)
        d0 = np.array(ph.get_qpoints_dict()["dynamical_matrices"])
        ph.nac_params = {"born": Z, "dielectric": E, "factor": 14.4, "method": "gonze"}
        ph.run_qpoints(qs, with_dynamical_matrices=True)
        d1 = np.array(ph.get_qpoints_dict()["dynamical_matrices"])
        dm = ph.dynamical_matrix
        _fcsr, _ddq0, g_cut, g_list, lam = dm.Gonze_nac_dataset  # public property
        Gtrue, norms = _exact_glist_count(prim.cell, rec, g_cut)
        have = {tuple(np.round(g, 9)) for g in g_list}
        miss = [nm for g, nm in zip(Gtrue, norms) if tuple(np.round(g, 9)) not in have]
        L2 = 4 * lam ** 2
        wmax = max([math.exp(-m * m * 2.5 / L2) for m in miss], default=0.0)
        dev = U.maxdiff(d1, d0)
        scale = max(float(np.abs(d0).max()), 1e-300)
        obs.append(dict(cell=tag, lattice=np.round(lat, 6).tolist(), supercell_matrix=S.tolist(), G_cutoff=float(g_cut),
                        index_radius=_index_radius(run, dm, g_cut),
                        listed=int(len(g_list)), inside_cutoff=int(len(Gtrue)), missing=len(miss),
                        smallest_missing_over_cutoff=(float(min(miss) / g_cut) if miss else None), largest_omitted_weight=wmax,
                        first_zone_commensurate_noop_deviation=dev, relative=dev / scale, q=qs.tolist()))
        run.case(("skewed", np.round(lat, 6).tolist(), S.tolist()), nontrivial=bool(miss))
        run.count("skewed-basis stream: default G list %s" % ("complete" if not miss else "incomplete"))
        run.count("skewed-basis commensurate no-op oracle", section="oracle")
        if dev > 1e-6 * scale:
            run.violation("Phonopy.run_qpoints", "commensurate-noop-gonze-skewed-basis",
                          "Gonze-Lee correction changes D at a first-zone commensurate q by %.3g (relative %.2g; default G list has %d of the %d vectors inside G_cutoff)"
                          % (dev, dev / scale, len(g_list), len(Gtrue)),
                          dict(lattice=np.round(lat, 6).tolist(), symbols=["Na", "Cl"], scaled_positions=[[0, 0, 0], [0.5, 0.5, 0.5]], supercell_matrix=S.tolist(),
                               born=Z.tolist(), dielectric=E.tolist(), factor=14.4, method="gonze", q=qs.tolist(), fc="pair potential, cutoff 0.9*min lattice vector"))
    run.cov["observations"] = {
        "what": "DynamicalMatrixGL._get_minimum_g_rad underestimates the index radius for skewed/non-reduced primitive bases: the default "
                "G list misses vectors inside G_cutoff; on the zone boundary the truncated sum is then far from G-periodic and the commensurate "
                "no-op fails beyond the stated precision (Lean: minGRad_insufficient, g_list_complete; proposed_fixes/c08-glist-index-radius.*)",
        "cases": obs,
    }


def _error_path_stream(run, rng, thorough):
    """Error paths on ONE Phonopy object: valid NAC parameters A -> query -> an INVALID assignment that raises (wrong
    number of Born tensors, missing keys, wrong shapes) -> query.  The second query must either raise or obey the limits
    for the parameters the object reports (`ph.nac_params`); it must never answer with the correction of the superseded A."""
    from phonopy.structure.symmetry import symmetrize_borns_and_epsilon

    names = ["nacl_prim", "zincblende_prim", "cscl", "triclinic", "wurtzite"]
    for c in range(6 if thorough else 2):
        name = names[(c + run.seed) % len(names)]
        cell, cen = _cell(name)
        S = np.diag([2, 1, 1])
        variant = "omp" if c % 2 == 0 else "ser"
        common.switch_variant(variant)
        ph = gen.make_phonopy(cell, S, pmat="P")
        prim = ph.primitive
        npa = len(prim)
        ph.force_constants = U.pair_fc(ph.supercell, 0.8 * gen.min_lattice_vector(ph.supercell.cell))
        rec = np.linalg.inv(prim.cell)
        n = np.array([rng.randint(-8, 8) / 4.0 + 0.15 for _ in range(3)])
        if not _margin_ok(rec, np.zeros(3), n):
            continue
        plain_g = _run_dm(ph, np.zeros(3))
        q_c = np.array([0.5, 0.0, 0.0])
        plain_c = _run_dm(ph, q_c)
        sc = max(1.0, float(np.abs(plain_g).max()), float(np.abs(plain_c).max()))

        def good():
            b, e = U.random_born_eps(rng, npa)
            b = b - b.mean(axis=0)
            Z, E = symmetrize_borns_and_epsilon(b, e, prim)
            return Z, E

        for method in ("wang", "gonze"):
            ZA, EA = good()
            ZB, EB = good()
            fA = rng.choice([14.4, 2.0])
            A = {"born": ZA, "dielectric": EA, "factor": fA, "method": method}
            bad_kinds = [
                ("wrong-born-count", {"born": np.concatenate([ZB] * 4)[: npa + 6], "dielectric": EB, "factor": fA, "method": method}),
                ("missing-factor", {"born": ZB, "dielectric": EB, "method": method}),
                ("missing-dielectric", {"born": ZB, "factor": fA, "method": method}),
                ("born-wrong-shape", {"born": ZB[:, :, :2], "dielectric": EB, "factor": fA, "method": method}),
            ]
            for kind, B in bad_kinds:
                info = dict(cell=name, smat=S.tolist(), variant=variant, method=method, invalid_assignment=kind, direction=n.tolist(),
                            born_A=ZA.tolist(), dielectric_A=EA.tolist(), factor_A=fA,
                            invalid_params={k: (np.asarray(v).tolist() if k in ("born", "dielectric") else v) for k, v in B.items()})
                run.case(("error-path", name, method, kind, ZA.tobytes(), ZB.tobytes()), nontrivial=True)
                run.count("error-path sequences (%s)" % method, section="oracle")
                ph.nac_params = dict(A)
                dA = _run_dm(ph, np.zeros(3), n)
                predA = _closed_form(prim, np.array(ph.dynamical_matrix.born), np.array(ph.dynamical_matrix.dielectric_constant), _phys_factor(prim, fA), n)
                scd = max(sc, float(np.abs(predA).max()))
                if not U.close(dA - plain_g, predA, TOL, scd):
                    run.violation("Phonopy.run_qpoints(nac_q_direction)", "gamma-limit-%s" % method, "closed form fails before the error path (%.3g)" % U.maxdiff(dA - plain_g, predA), info)
                raised = None
                try:
                    ph.nac_params = B
                except Exception as e:
                    raised = type(e).__name__
                if raised is None:
                    run.count("invalid assignment %s accepted without exception" % kind)
                else:
                    run.count("invalid assignment %s raises %s" % (kind, raised))
                # the query after the failed assignment
                try:
                    dq = _run_dm(ph, np.zeros(3), n)
                    dc = _run_dm(ph, q_c)
                except Exception as e:
                    run.count("query after the failed assignment raises %s" % type(e).__name__)
                    ph.nac_params = None
                    continue
                rep = ph.nac_params
                run.count("query after the failed assignment answers")
                corr = dq - plain_g
                problems = []
                rep_born = None if rep is None else np.asarray(rep.get("born"))
                reports_A = rep is not None and rep_born is not None and rep_born.shape == ZA.shape and np.array_equal(rep_born, ZA)
                if rep is None:
                    if not U.close(corr, 0 * corr, TOL, scd):
                        problems.append("object reports no NAC parameters but the zone-centre matrix carries a correction of %.3g" % float(np.abs(corr).max()))
                elif not reports_A and float(np.abs(predA).max()) > 1e-6 * scd and U.close(corr, predA, 1e-6, scd):
                    problems.append("object reports the new parameters (%s) but the zone-centre matrix carries the correction of the superseded ones "
                                    "(|correction - closed form of A| = %.3g, |closed form of A| = %.3g)" % (kind, U.maxdiff(corr, predA), float(np.abs(predA).max())))
                elif rep_born is not None and rep_born.shape == ZA.shape and np.asarray(rep.get("dielectric", np.zeros(1))).shape == (3, 3) and "factor" in rep:
                    Zr, Er = symmetrize_borns_and_epsilon(rep_born, np.asarray(rep["dielectric"]), prim)
                    predR = _closed_form(prim, Zr, Er, _phys_factor(prim, rep["factor"]), n)
                    if not U.close(corr, predR, TOL, max(scd, float(np.abs(predR).max()))):
                        problems.append("zone-centre correction differs from the closed form of the REPORTED parameters by %.3g" % U.maxdiff(corr, predR))
                if not U.close(dc, plain_c, TOL if method == "wang" else 1e-3, scd):
                    problems.append("commensurate no-op off by %.3g" % U.maxdiff(dc, plain_c))
                if problems:
                    run.violation("Phonopy.nac_params setter (error path)", "stale-after-failed-assignment-%s" % method, "; ".join(problems), info)
                ph.nac_params = None
    common.switch_variant("omp")


def _left_handed_stream(run, rng, thorough):
    """The same crystal described with LEFT-HANDED lattice vectors (two basis vectors swapped / one negated, fractional
    coordinates transformed accordingly, Cartesian positions unchanged): the three limits must hold with the physical
    volume, and the spectrum must equal the one of the right-handed description at the corresponding q."""
    from phonopy.harmonic.dynmat_to_fc import get_commensurate_points
    from phonopy.structure.atoms import PhonopyAtoms
    from phonopy.structure.brillouin_zone import BrillouinZone
    from phonopy.structure.symmetry import symmetrize_borns_and_epsilon

    names = ["nacl_prim", "zincblende_prim", "cscl", "triclinic", "wurtzite", "mono_P"]
    for c in range(8 if thorough else 2):
        name = names[(c + run.seed) % len(names)]
        cell, cen = _cell(name)
        d = [1, 1, 1]
        d[rng.randrange(3)] = 2
        # M: new basis vectors (rows) in terms of the old ones, det M = -1
        if c % 2 == 0:
            i, j = rng.sample(range(3), 2)
            M = np.eye(3, dtype=int)
            M[[i, j]] = M[[j, i]]
            how = "axes %d and %d swapped" % (i, j)
        else:
            i = rng.randrange(3)
            M = np.eye(3, dtype=int)
            M[i, i] = -1
            how = "axis %d negated" % i
        lat2 = M @ np.asarray(cell.cell)
        pos2 = np.asarray(cell.scaled_positions) @ np.linalg.inv(M)  # x' M = x
        cell2 = PhonopyAtoms(cell=lat2, symbols=list(cell.symbols), scaled_positions=pos2, masses=cell.masses)
        S1 = np.diag(d)
        S2 = np.diag(np.abs(M @ np.array(d)))  # same supercell
        variant = "omp" if c % 2 == 0 else "ser"
        common.switch_variant(variant)
        info0 = dict(cell=name, how=how, lattice_right=np.asarray(cell.cell).tolist(), lattice_left=lat2.tolist(), scaled_positions_left=pos2.tolist(),
                     symbols=list(cell.symbols), supercell_right=S1.tolist(), supercell_left=S2.tolist(), variant=variant)
        ph1 = gen.make_phonopy(cell, S1, pmat="P")
        try:
            ph2 = gen.make_phonopy(cell2, S2, pmat="P")
        except Exception as e:
            run.count("left-handed description rejected by the constructor (%s)" % type(e).__name__)
            continue
        prim1, prim2 = ph1.primitive, ph2.primitive
        if float(np.linalg.det(prim2.cell)) >= 0:
            run.count("generator: description not left-handed (skipped)")
            continue
        cutoff = 0.8 * gen.min_lattice_vector(ph1.supercell.cell)
        ph1.force_constants = U.pair_fc(ph1.supercell, cutoff)
        ph2.force_constants = U.pair_fc(ph2.supercell, cutoff)
        born0, eps0 = U.random_born_eps(rng, len(prim1))
        born0 = born0 - born0.mean(axis=0)
        Z, E = symmetrize_borns_and_epsilon(born0, eps0, prim1)
        unit_factor = rng.choice([14.4, 2.0, 1.0])
        Minv_T = np.linalg.inv(M).T  # reduced q of the left-handed description: q' = M^-T q
        n1 = np.array([rng.randint(-8, 8) / 4.0 + 0.15 for _ in range(3)])
        q_g = np.array([rng.randint(-16, 16) / 16.0 + 0.0173 for _ in range(3)])
        n2, q_g2 = Minv_T @ n1, Minv_T @ q_g
        rec2 = np.linalg.inv(prim2.cell)
        cp2 = get_commensurate_points(np.rint(np.linalg.inv(prim2.primitive_matrix)).astype(int))
        bz = BrillouinZone(rec2)
        bz.run(cp2)
        q_c2 = np.array(bz.shortest_qpoints[1][0])
        if not (_margin_ok(rec2, np.zeros(3), n2) and _margin_ok(rec2, q_g2, None) and _margin_ok(rec2, q_c2, None)):
            continue
        plain2 = {k: _run_dm(ph2, v) for k, v in (("gamma", np.zeros(3)), ("gen", q_g2), ("comm", q_c2))}
        plain1_gen = np.linalg.eigvalsh(_run_dm(ph1, q_g))
        sc = max(1.0, max(float(np.abs(v).max()) for v in plain2.values()))
        if not U.close(np.linalg.eigvalsh(plain2["gen"]), plain1_gen, 1e-8, sc):
            run.count("generator: right- and left-handed descriptions give different uncorrected spectra (skipped)")
            continue
        for method in ("wang", "gonze"):
            info = dict(info0, method=method, born=Z.tolist(), dielectric=E.tolist(), factor=unit_factor, direction_left=n2.tolist(), q_left=q_g2.tolist(), q_commensurate_left=q_c2.tolist())
            run.case(("left-handed", name, how, method, Z.tobytes()), nontrivial=True)
            run.count("left-handed lattice description (%s)" % method)
            run.count("left-handed oracle (%s)" % method, section="oracle")
            problems = []
            try:
                nacp = {"born": Z.copy(), "dielectric": E.copy(), "factor": unit_factor, "method": method}
                ph1.nac_params = dict(nacp)
                ph2.nac_params = dict(nacp)
                f = _phys_factor(prim2, unit_factor)
                pred = _closed_form(prim2, np.array(ph2.dynamical_matrix.born), np.array(ph2.dynamical_matrix.dielectric_constant), f, n2)
                scd = max(sc, float(np.abs(pred).max()))
                dg = _run_dm(ph2, np.zeros(3), n2)
                if not U.close(dg - plain2["gamma"], pred, TOL, scd):
                    problems.append("Gamma limit differs from (4pi/|V|) f (n.Z)(n.Z)/(n.eps.n)/sqrt(mm') by %.3g (scale %.3g)" % (U.maxdiff(dg - plain2["gamma"], pred), scd))
                dc = _run_dm(ph2, q_c2)
                if not U.close(dc, plain2["comm"], TOL if method == "wang" else 1e-3, scd):
                    problems.append("commensurate no-op off by %.3g" % U.maxdiff(dc, plain2["comm"]))
                # spectrum equal to the right-handed description (general q, and zone centre with direction)
                for qa, qb, da, db, tag in ((q_g, q_g2, None, None, "general q"), (np.zeros(3), np.zeros(3), n1, n2, "zone centre with direction")):
                    e1 = np.linalg.eigvalsh(_run_dm(ph1, qa, da))
                    e2 = np.linalg.eigvalsh(_run_dm(ph2, qb, db))
                    if not U.close(e2, e1, 1e-8 if method == "wang" else 1e-6, scd):
                        problems.append("eigenvalues at the %s differ from the right-handed description by %.3g (scale %.3g)" % (tag, U.maxdiff(e2, e1), float(np.abs(e1).max())))
                ph2.nac_params = dict(nacp, born=np.zeros_like(Z))
                dz = _run_dm(ph2, q_g2)
                if not U.close(dz, plain2["gen"], 1e-9, sc):
                    problems.append("zero Born charges change D by %.3g" % U.maxdiff(dz, plain2["gen"]))
            except (ValueError, FloatingPointError, ZeroDivisionError) as e:
                problems.append("implementation raises %s: %s on a left-handed lattice" % (type(e).__name__, str(e)[:100]))
            if problems:
                run.violation("Phonopy.run_qpoints", "left-handed-lattice-%s" % method, "; ".join(problems), info)
            ph1.nac_params = None
            ph2.nac_params = None
    common.switch_variant("omp")


def _sequence_stream(run, rng, thorough):
    """Sequences on ONE DynamicalMatrixWang / DynamicalMatrixGL object: compute, reassign nac_params through the public
    setter (new values, zero Born charges, back), change the masses of the primitive cell, compute again; every step is
    compared with a freshly built object in the current state and with the closed forms."""
    from phonopy.harmonic.dynamical_matrix import DynamicalMatrix, DynamicalMatrixGL, DynamicalMatrixWang, run_dynamical_matrix_solver_c
    from phonopy.harmonic.dynmat_to_fc import get_commensurate_points
    from phonopy.structure.brillouin_zone import BrillouinZone
    from phonopy.structure.symmetry import symmetrize_borns_and_epsilon

    names = ["nacl_prim", "triclinic", "cscl", "zincblende_prim", "mono_P", "wurtzite"]
    for c in range(6 if thorough else 2):
        name = names[(c + run.seed) % len(names)]
        cell, cen = _cell(name)
        S = np.diag([2, 1, 1]) if c % 2 == 0 else np.diag([1, 2, 1])
        variant = "omp" if c % 2 == 0 else "ser"
        common.switch_variant(variant)
        ph = gen.make_phonopy(cell, S, pmat="P")
        prim, sc = ph.primitive, ph.supercell
        full = rng.choice([True, False])
        phi = U.pair_fc(sc, 0.8 * gen.min_lattice_vector(sc.cell))
        from phonopy.harmonic import force_constants as F

        fc = phi if full else F.full_fc_to_compact_fc(prim, phi)
        rec = np.linalg.inv(prim.cell)

        def params(zero=False):
            b, e = U.random_born_eps(rng, len(prim))
            b = b - b.mean(axis=0)
            Z, E = symmetrize_borns_and_epsilon(b, e, prim)
            return {"born": np.zeros_like(Z) if zero else Z, "dielectric": E, "factor": rng.choice([14.4, 2.0, 1.0, 51.42])}

        A, B, Zr = params(), params(), params(zero=True)
        cp = get_commensurate_points(np.rint(np.linalg.inv(prim.primitive_matrix)).astype(int))
        bz = BrillouinZone(rec)
        bz.run(cp)
        q_c = np.array(bz.shortest_qpoints[1][0])
        q_g = np.array([rng.randint(-16, 16) / 16.0 + 0.0191 for _ in range(3)])
        n = np.array([rng.randint(-8, 8) / 4.0 + 0.15 for _ in range(3)])
        if not (_margin_ok(rec, np.zeros(3), n) and _margin_ok(rec, q_g, None) and _margin_ok(rec, q_c, None)):
            continue
        masses0 = np.array(prim.masses, dtype="double")

        def evaluate(d):
            out = []
            for qv, dr in ((np.zeros(3), n), (q_g, None), (q_c, None)):
                d.run(qv, q_direction=dr)
                out.append(np.array(d.dynamical_matrix))
            out.append(np.array(run_dynamical_matrix_solver_c(d, np.array([np.zeros(3), q_g, q_c, q_g]), n)))
            return out

        def plain_mats():
            p = DynamicalMatrix(sc, prim, fc.copy())
            out = []
            for qv in (np.zeros(3), q_g, q_c):
                p.run(qv)
                out.append(np.array(p.dynamical_matrix))
            return out

        for cls, method in ((DynamicalMatrixWang, "wang"), (DynamicalMatrixGL, "gonze")):
            dm = cls(sc, prim, fc.copy(), nac_params=A)
            evaluate(dm)
            steps = [("new-values", B, None), ("zero-born", Zr, None), ("masses-changed", None, masses0 * np.array([1.5 + 0.25 * k for k in range(len(masses0))])),
                     ("back", A, None), ("masses-restored", None, masses0)]
            state = A
            for tag, P, m in steps:
                if P is not None:
                    dm.nac_params = P
                    state = P
                if m is not None:
                    prim.masses = m
                got = evaluate(dm)
                fresh = evaluate(cls(sc, prim, fc.copy(), nac_params=state))
                pl = plain_mats()
                scale = max(1.0, max(float(np.abs(x).max()) for x in pl))
                info = dict(cell=name, smat=S.tolist(), layout="full" if full else "compact", variant=variant, method=method, step=tag,
                            sequence=[t for t, _, _ in steps], born=np.asarray(state["born"]).tolist(), dielectric=np.asarray(state["dielectric"]).tolist(),
                            factor=state["factor"], q_generic=q_g.tolist(), q_commensurate=q_c.tolist(), direction=n.tolist())
                run.case(("sequence", name, S.tolist(), full, method, tag, np.asarray(state["born"]).tobytes()), nontrivial=True)
                run.count("nac_params/masses sequence steps (%s)" % method, section="oracle")
                dev = max(U.maxdiff(g, f) for g, f in zip(got, fresh))
                problems = []
                fresh_note = ""
                if dev > 1e-12 * scale:
                    fresh_note = " (differs from a freshly built object in the same state by %.3g)" % dev
                f_now = _phys_factor(prim, state["factor"])
                pred = _closed_form(prim, np.array(dm.born), np.array(dm.dielectric_constant), f_now, n)
                scd = max(scale, float(np.abs(pred).max()))
                if not U.close(got[0] - pl[0], pred, TOL, scd):
                    problems.append("Gamma limit differs from the closed form of the CURRENT parameters by %.3g" % U.maxdiff(got[0] - pl[0], pred))
                if not U.close(got[2], pl[2], TOL if method == "wang" else 1e-3, scd):
                    problems.append("commensurate no-op off by %.3g" % U.maxdiff(got[2], pl[2]))
                if tag == "zero-born" and not U.close(got[1], pl[1], 1e-9, scale):
                    problems.append("zero Born charges change D at a general q by %.3g" % U.maxdiff(got[1], pl[1]))
                if problems:
                    run.violation("DynamicalMatrixNAC.nac_params setter" if P is not None or tag in ("zero-born",) else "Primitive.masses setter",
                                  "stale-after-reassign-%s" % method, "after step '%s': " % tag + "; ".join(problems) + fresh_note, info)
                elif fresh_note:
                    # the limits of the statement hold; only a general q differs from a fresh object: C15's property, here a model tie
                    run.broke("correspondence", "%s after step '%s'%s at a general q only" % (method, tag, fresh_note), {k: v for k, v in info.items() if k not in ("born", "dielectric")})
            prim.masses = masses0
    common.switch_variant("omp")


def _full_terms_stream(run, rng, thorough):
    """with_full_terms=True (real-space part with erfc; only reachable by constructing DynamicalMatrixGL directly):
    the three limits on the implementation."""
    from phonopy.harmonic.dynamical_matrix import DynamicalMatrix, DynamicalMatrixGL
    from phonopy.harmonic.dynmat_to_fc import get_commensurate_points
    from phonopy.structure.brillouin_zone import BrillouinZone
    from phonopy.structure.symmetry import symmetrize_borns_and_epsilon

    names = ["nacl_prim", "triclinic", "wurtzite", "zincblende_prim", "mono_P", "cscl"]
    for c in range(12 if thorough else 2):
        name = names[(c + run.seed) % len(names)]
        cell, cen = _cell(name)
        S = np.diag([2, 1, 1]) if len(cell) > 2 else np.diag([2, 2, 1])
        ph = gen.make_phonopy(cell, S, pmat="P")
        prim, sc = ph.primitive, ph.supercell
        phi = U.pair_fc(sc, 0.8 * gen.min_lattice_vector(sc.cell))
        born0, eps0 = U.random_born_eps(rng, len(prim))
        born0 = born0 - born0.mean(axis=0)
        Z, E = symmetrize_borns_and_epsilon(born0, eps0, prim)
        factor = 14.4
        info = dict(cell=name, smat=S.tolist(), born=Z.tolist(), dielectric=E.tolist(), factor=factor, with_full_terms=True)
        run.case(("full-terms", name, Z.tobytes(), E.tobytes()), nontrivial=True)
        run.count("with_full_terms=True cases")
        plain = DynamicalMatrix(sc, prim, phi.copy())
        dm = DynamicalMatrixGL(sc, prim, phi.copy(), nac_params={"born": Z, "dielectric": E, "factor": factor}, with_full_terms=True)
        f = _phys_factor(prim, factor)
        n = np.array([rng.randint(-8, 8) / 4.0 + 0.1 for _ in range(3)])
        plain.run(np.zeros(3))
        d0 = np.array(plain.dynamical_matrix)
        dm.run(np.zeros(3), q_direction=n)
        dg = np.array(dm.dynamical_matrix)
        pred = _closed_form(prim, Z, E, f, n)
        scd = max(1.0, float(np.abs(d0).max()), float(np.abs(pred).max()))
        problems = []
        if not U.close(dg - d0, pred, 1e-6, scd):
            problems.append("Gamma limit off by %.3g" % U.maxdiff(dg - d0, pred))
        if np.abs(dg - dg.conj().T).max() > 1e-9 * scd:
            problems.append("not Hermitian (%.3g)" % float(np.abs(dg - dg.conj().T).max()))
        cp = get_commensurate_points(np.rint(np.linalg.inv(prim.primitive_matrix)).astype(int))
        bz = BrillouinZone(np.linalg.inv(prim.cell))
        bz.run(cp)
        dev = 0.0
        for i in range(1, len(cp)):
            qb = np.array(bz.shortest_qpoints[i][0])
            dm.run(qb)
            plain.run(qb)
            dev = max(dev, U.maxdiff(dm.dynamical_matrix, plain.dynamical_matrix))
        if dev > 1e-6 * scd:
            problems.append("commensurate no-op off by %.3g" % dev)
        dmz = DynamicalMatrixGL(sc, prim, phi.copy(), nac_params={"born": np.zeros_like(Z), "dielectric": E, "factor": factor}, with_full_terms=True)
        qg = np.array([0.1, 0.2, 0.3])
        dmz.run(qg)
        plain.run(qg)
        zdev = U.maxdiff(dmz.dynamical_matrix, plain.dynamical_matrix)
        if zdev > 1e-9 * scd:
            problems.append("zero Born charges change D by %.3g" % zdev)
        run.count("with_full_terms limits oracle", section="oracle")
        if problems:
            run.violation("DynamicalMatrixGL(with_full_terms=True)", "full-terms-limits", "; ".join(problems), dict(info, direction=n.tolist(), q_zero_born=qg.tolist()))
        else:
            run.count("with_full_terms=True: all three limits hold")


def _cmp(model, impl):
    if model is None:
        return "model rejected the input"
    if not U.close(impl, model, TOL):
        return "implementation differs from model by %.3g (scale %.3g)" % (U.maxdiff(impl, model), float(np.abs(model).max()))
    return None
