"""C20 — equations of state and quasi-harmonic analysis recover known parameters."""

import math
import os
import struct
import subprocess
import sys
import warnings

import numpy as np

from .. import common

TOL = 1e-9


def fb(x):
    return str(struct.unpack("<Q", struct.pack("<d", float(x)))[0])


def bf(s):
    return struct.unpack("<d", struct.pack("<Q", int(s)))[0]


def fbs(a):
    return " ".join(fb(x) for x in np.asarray(a, dtype="double").ravel())


def close(a, b, scale, tol=TOL):
    a = np.asarray(a, dtype="double")
    b = np.asarray(b, dtype="double")
    if a.shape != b.shape:
        return False
    if not (np.all(np.isfinite(a)) and np.all(np.isfinite(b))):
        return bool(np.array_equal(np.isnan(a), np.isnan(b)) and np.array_equal(a[np.isfinite(a)], b[np.isfinite(b)]))
    return bool(np.abs(a - b).max(initial=0.0) <= tol * max(scale, 1e-300))


def regenerate_units_table(run):
    """Gen/Units.lean (T-units, tools/units2lean.py of C17) is imported by Props/C20 for the unit monomials: regenerate it from the
    working tree into a scratch file and replace the shared file only if the content differs."""
    import tempfile

    out = os.path.join(common.LEAN_DIR, "PhononModel", "Gen", "Units.lean")
    fd, tmp = tempfile.mkstemp(suffix=".lean", dir=os.path.join(common.VERIF, ".build"))
    os.close(fd)
    try:
        r = subprocess.run([sys.executable, os.path.join(common.VERIF, "tools", "units2lean.py"), common.REPO, tmp], capture_output=True, text=True, timeout=120)
        if r.returncode != 0:
            run.broke("proof", "translator tools/units2lean.py failed: phonopy/units.py left the translatable subset", (r.stdout + r.stderr)[-1500:])
            return
        new = open(tmp).read()
        try:
            old = open(out).read()
        except OSError:
            old = None
        if new != old:
            os.replace(tmp, out)
            tmp = None
    finally:
        if tmp and os.path.exists(tmp):
            os.remove(tmp)


def regenerate(run):
    r = subprocess.run([sys.executable, os.path.join(common.VERIF, "tools", "cexpr2lean.py"), "--repo", common.REPO, "--only", "units"],
                       capture_output=True, text=True, timeout=120)
    if r.returncode != 0:
        run.broke("proof", "translator tools/cexpr2lean.py failed (unit constants of phonopy/units.py)", (r.stdout + r.stderr)[-1500:])


# reference formulas, written independently of eos.py (documented forms), used only by the oracle
def ref_eos(kind, v, E0, B0, Bp, V0):
    v = np.asarray(v, dtype="double")
    if kind == "murnaghan":
        return E0 + B0 * v / Bp * ((V0 / v) ** Bp / (Bp - 1) + 1) - B0 * V0 / (Bp - 1)
    if kind == "birch_murnaghan":
        y = (V0 / v) ** (2.0 / 3)
        return E0 + 9.0 * V0 * B0 / 16 * ((y - 1) ** 3 * Bp + (y - 1) ** 2 * (6 - 4 * y))
    x = (v / V0) ** (1.0 / 3)
    xi = 1.5 * (Bp - 1)
    return E0 + 9 * B0 * V0 / xi ** 2 * (1 + (xi * (1 - x) - 1) * np.exp(xi * (1 - x)))


KINDS = ["vinet", "birch_murnaghan", "murnaghan"]


def ref_fit(kind, vs, en):
    """the documented algorithm, independently of eos.py: unconstrained Levenberg-Marquardt (scipy.optimize.leastsq) from the
    documented starting point [E(mid), 1.0, 4.0, V(mid)].  Used only to tell a numerical non-convergence of that algorithm
    (exact data, yet a spurious stationary point — e.g. Vinet at B0' -> 1) from a wrong implementation."""
    from scipy.optimize import leastsq

    vs = np.asarray(vs, dtype="double")
    en = np.asarray(en, dtype="double")
    try:
        with warnings.catch_warnings():
            warnings.simplefilter("ignore")
            with np.errstate(all="ignore"):
                r = leastsq(lambda p_: ref_eos(kind, vs, *p_) - en, [en[len(en) // 2], 1.0, 4.0, vs[len(vs) // 2]], full_output=1)
        return np.array(r[0], dtype="double")
    except Exception:
        return None


def same_as_reference(kind, vs, en, fitted):
    """fitted = (E0, B0, B0', V0); B0' may be None when only public results (G, B, V) are available"""
    r = ref_fit(kind, vs, en)
    if r is None or not np.all(np.isfinite(r)):
        return False
    idx = [i_ for i_ in range(4) if fitted[i_] is not None]
    f_ = np.array([fitted[i_] for i_ in idx], dtype="double")
    return bool(np.all(np.abs(f_ - r[idx]) <= 1e-6 * np.maximum(1.0, np.abs(r[idx]))))


def rand_params(rng):
    V0 = rng.uniform(12.0, 180.0)
    B0 = rng.uniform(0.15, 1.8)  # eV/A^3  (24 .. 290 GPa)
    Bp = rng.uniform(3.0, 6.5)
    E0 = rng.uniform(-60.0, 4.0)
    return E0, B0, Bp, V0


def gen_qha_case(rng, thorough, kind=None, outside=None, offset=None, dT=None):
    """outside: None | 'below' | 'above' — the equilibrium volume at every temperature lies below / above the sampled volume grid
    by 2-10 % of the grid width (the free energies are still exactly an EOS, so an unconstrained least-squares fit recovers it)"""
    kind = rng.choice(KINDS) if kind is None else kind
    E00, B00, Bp0, V00 = rand_params(rng)
    # the zero of energy is arbitrary (all-electron codes: thousands of eV per cell); the temperature step from 0.5 K to 50 K
    offset = rng.choice([0.0, 0.0, 10.0, -10.0, 1e3, -1e3, 1e4, -1e4, -7870.0]) if offset is None else offset
    E00 = E00 + offset
    nt = rng.randint(6, 16 if thorough else 12)
    dT = rng.choice([0.5, 1.0, 2.0, 5.0, 10.0, 20.0, 50.0]) if dT is None else dT
    t0 = rng.choice([0.0, 0.0, 100.0])
    temps = t0 + dT * np.arange(nt)
    if rng.random() < 0.25:
        # unequal spacing
        temps = np.sort(temps + np.array([rng.uniform(-0.3, 0.3) * dT for _ in range(nt)]))
        temps[0] = max(temps[0], 0.0)
    a1, a2 = rng.uniform(5e-6, 6e-5), rng.uniform(1e-9, 2e-8)
    if outside is not None:
        a1, a2 = rng.uniform(2e-6, 8e-6), rng.uniform(1e-10, 1e-9)
    g1 = rng.uniform(2e-7, 3e-6)
    b1 = rng.uniform(2e-5, 3e-4)
    c1 = rng.uniform(-2e-4, 2e-4)
    tp = temps
    pars = dict(V0=V00 * (1 + a1 * tp + a2 * tp ** 2), E0=E00 - g1 * tp ** 2, B0=B00 * (1 - b1 * tp), Bp=Bp0 + c1 * tp)
    nv = rng.randint(5, 15)
    lo, hi = rng.uniform(0.88, 0.95), rng.uniform(1.06, 1.14)
    vols = V00 * np.linspace(lo, hi, nv)
    if outside is not None:
        width = (hi - lo) * V00
        margin = rng.uniform(0.02, 0.10) * width
        if outside == "below":  # V0(T) below the grid
            vols = np.linspace(pars["V0"].max() + margin, pars["V0"].max() + margin + width, nv)
        else:
            vols = np.linspace(pars["V0"].min() - margin - width, pars["V0"].min() - margin, nv)
    if rng.random() < 0.3:
        vols = np.sort(vols * (1 + np.array([rng.uniform(-0.004, 0.004) for _ in range(nv)])))
    pressure = rng.choice([None, None, 0.0, rng.uniform(0.5, 8.0), -rng.uniform(0.2, 2.0)])
    shape = rng.choice(["V", "TV"])
    # electronic part: itself an EOS (PhonopyQHA also fits it alone), optionally with T-dependent parameters
    eE0, eB0, eBp, eV0 = E00 + rng.uniform(-0.5, 0.5), B00 * rng.uniform(0.9, 1.1), Bp0 + rng.uniform(-0.3, 0.3), V00 * rng.uniform(0.98, 1.01)
    if outside is not None:
        eV0 = V00 * rng.uniform(0.998, 1.002)
    if shape == "V":
        el = ref_eos(kind, vols, eE0, eB0, eBp, eV0)
    else:
        s1 = rng.uniform(1e-7, 1e-6)
        el = np.array([ref_eos(kind, vols, eE0 - s1 * t * t, eB0, eBp, eV0 * (1 + 1e-6 * t)) for t in temps])
    tmax_sel = rng.choice(["none", "none", "grid", "between", "beyond", "below"])
    if tmax_sel == "none":
        tmax = None
    elif tmax_sel == "grid":
        tmax = float(temps[rng.randint(2, nt - 1)])
    elif tmax_sel == "between":
        k = rng.randint(2, nt - 2)
        tmax = float(temps[k] + rng.uniform(0.1, 0.9) * (temps[k + 1] - temps[k]))
    elif tmax_sel == "beyond":
        tmax = float(temps[-1] + 3 * dT)
    else:
        tmax = float(temps[2] - 0.4 * dT)
    # C_V and S: exact quartics in V at every T (np.polyfit(…, 4) then reproduces them)
    vm = vols.mean()
    q = [rng.uniform(20, 70), rng.uniform(-0.5, 0.5), rng.uniform(-0.02, 0.02), rng.uniform(-1e-3, 1e-3), rng.uniform(-1e-5, 1e-5)]
    cv = np.array([[(t / (t + 150.0)) * sum(qk * (v - vm) ** k for k, qk in enumerate(q)) for v in vols] for t in temps])
    ent = np.array([[(t / (t + 90.0)) * (1.3 * q[0] + 0.4 * (v - vm) + 0.01 * (v - vm) ** 2) for v in vols] for t in temps])
    dV0dT = V00 * (a1 + 2 * a2 * tp)
    return dict(kind=kind, temps=temps, pars=pars, vols=vols, pressure=pressure, shape=shape, el=el, tmax=tmax, tmax_sel=tmax_sel, cv=cv, ent=ent,
                q=q, vm=vm, dV0dT=dV0dT, outside=outside, el_params=(eE0, eB0, eBp, eV0), offset=offset, dT=dT)


def build_inputs(c, units):
    """phonon free energies (kJ/mol) such that F_ph/EvTokJmol + E_el + P V/EVAngstromToGPa IS the EOS with the known parameters"""
    nt = len(c["temps"])
    tot = np.array([ref_eos(c["kind"], c["vols"], c["pars"]["E0"][i], c["pars"]["B0"][i], c["pars"]["Bp"][i], c["pars"]["V0"][i]) for i in range(nt)])
    el = c["el"] if c["shape"] == "TV" else np.tile(c["el"], (nt, 1))
    pv = 0.0 if c["pressure"] is None else c["vols"][None, :] * c["pressure"] / units.EVAngstromToGPa
    return (tot - el - pv) * units.EvTokJmol


def caller_arrays(c, fph, el=None, as_view=False):
    """the caller's own float64 ndarrays (optionally strided views into larger buffers), handed to phonopy WITHOUT copying"""
    src = dict(volumes=c["vols"], electronic_energies=(c["el"] if el is None else el), temperatures=c["temps"], free_energy=fph, cv=c["cv"], entropy=c["ent"])
    out = {}
    for k, a in src.items():
        a = np.array(a, dtype="double")
        if as_view:
            big = np.full(tuple(n + 2 for n in a.shape), 12345.678)
            sl = tuple(slice(1, -1) for _ in a.shape)
            big[sl] = a
            a = big[sl]
        out[k] = a
    return out


def snapshot(arrs):
    return {k: np.array(v, copy=True).tobytes() for k, v in arrs.items()}


def run_qha(c, fph, pressure="case", el=None, tmax="case", arrays=None):
    from phonopy import PhonopyQHA

    a = caller_arrays(c, fph, el=el) if arrays is None else arrays
    with warnings.catch_warnings():
        warnings.simplefilter("ignore", DeprecationWarning)
        return PhonopyQHA(volumes=a["volumes"], electronic_energies=a["electronic_energies"], temperatures=a["temperatures"],
                          free_energy=a["free_energy"], cv=a["cv"], entropy=a["entropy"],
                          pressure=(c["pressure"] if pressure == "case" else pressure), eos=c["kind"],
                          t_max=(c["tmax"] if tmax == "case" else tmax), verbose=False)


def hook(run, obj, name):
    """optional access to a private attribute of the implementation: None (and a counted observation) if it does not exist"""
    if obj is None or not hasattr(obj, name):
        run.count("intermediate hook unavailable: " + name, section="oracle")
        return None
    return getattr(obj, name)


def total_energies(c, fph, units):
    nt = len(c["temps"])
    el = np.array(c["el"], dtype="double") if c["shape"] == "TV" else np.tile(np.array(c["el"], dtype="double"), (nt, 1))
    pv = 0.0 if c["pressure"] is None else np.array(c["vols"])[None, :] * c["pressure"] / units.EVAngstromToGPa
    return np.array(fph) / units.EvTokJmol + el + pv


def fitted_state(run, c, fph, qha, units):
    """V, G, B (GPa) at ALL fitted temperatures (the public arrays hide the last one, which the finite differences read), the fitted
    parameter rows and the fitted energies.  Taken from the private arrays of QHA when they exist; otherwise re-derived from public
    results: the public part as returned, the hidden last point by the documented algorithm (reference leastsq) on the same energies."""
    L = len(qha.volume_temperature)
    Q = hook(run, qha, "_qha")
    V, G, B, P, FE = (hook(run, Q, n_) for n_ in ("_equiv_volumes", "_equiv_energies", "_equiv_bulk_modulus", "_equiv_parameters", "_free_energies"))
    if all(x is not None for x in (V, G, B, P, FE)) and len(V) == L + 1:
        return dict(V=np.array(V, dtype="double"), G=np.array(G, dtype="double"), B=np.array(B, dtype="double"), P=np.array(P, dtype="double"),
                    FE=np.array(FE, dtype="double"), exact=True)
    tot = total_energies(c, fph, units)
    V, G, B = list(qha.volume_temperature), list(qha.gibbs_temperature), list(qha.bulk_modulus_temperature)
    r = ref_fit(c["kind"], c["vols"], tot[L]) if L < len(tot) else None
    if r is None:
        run.broke("correspondence", "model input unavailable: the fitted point after the last public temperature (QHA._equiv_volumes absent and the reference fit failed)", c.get("info"))
        r = [G[-1], B[-1] / units.EVAngstromToGPa, 4.0, V[-1]]
    V.append(r[3]); G.append(r[0]); B.append(r[1] * units.EVAngstromToGPa)
    return dict(V=np.array(V, dtype="double"), G=np.array(G, dtype="double"), B=np.array(B, dtype="double"), P=None, FE=tot[:L + 1], exact=False)


def check_untouched(run, site, before, arrs, info, when):
    after = snapshot(arrs)
    changed = [k for k in before if before[k] != after[k]]
    if changed:
        # (audit) the property does not speak about the caller's arrays: this is a statement of the model (`QHA.construct` copies its
        # inputs, theorem repeated_construction); its end effect — a repeated analysis on the same arrays giving other results, +PV
        # applied twice — is what the failing-input search below looks for.
        run.broke("correspondence", "%s modified the caller's own array(s) %s (%s); the model copies its inputs" % (site, ", ".join(changed), when), info)
        run.count("caller arrays modified by the implementation", section="oracle")
    return not changed


def main(run):
    rng = run.rng
    common.setup_phonopy("omp")
    try:
        import scipy  # noqa: F401
    except ImportError:
        raise RuntimeError("scipy is not available: run `cd /verif && ./setup.sh` (installs the wheel into /verif/.deps)")
    from phonopy import units
    from phonopy.qha import eos as EOS

    thorough = run.tier == "thorough"
    regenerate(run)
    regenerate_units_table(run)
    run.proof_step(leancheck=thorough)
    run.cov["rule"] = (
        "eos: vinet / birch_murnaghan / murnaghan / an unknown name (falls through to vinet), V0 in [12,180] A^3, B0 in [0.15,1.8] eV/A^3, "
        "B0' in [3,6.5], E0 in [-60,4] eV, 9-25 volumes in [0.6,1.6] V0: phonopy.qha.eos vs the Lean definitions at binary64 (1e-9*scale). "
        "qha: synthetic inputs whose total F(T,V) is exactly an EOS with T-dependent parameters (5-15 volumes, equally or unequally spaced; 6-16 "
        "temperatures, equal or unequal spacing; pressure None/0/+/-; electronic energies of shape (V) or (T,V); t_max None/on grid/between/beyond/below) "
        "through PhonopyQHA: helmholtz_volume vs model; thermal expansion, C_P, Grueneisen, lengths vs the model's finite differences applied to the "
        "implementation's own fitted V(T), G(T), B(T). Non-trivial = at least 3 fitted temperatures (one interior finite difference).")
    run.cov["trusted_base"] = [
        "Lean 4.33 kernel; Mathlib v4.33 (Real.rpow, exp, derivative library); axioms per theorem in coverage.theorems",
        "hand-written Model/EOS.lean, Model/QHA.lean tied to qha/eos.py and qha/core.py by this correspondence run (binary64 bit patterns on the wire)",
        "scipy.optimize.leastsq (convergence is numerical; recovery checked by the oracle to 1e-9), numpy.polyfit (quartic C_V(V) fit: its value at V_i is an input of the model)",
        "libm pow/exp (implementation: numpy) vs Lean Float.pow/exp: tolerance 1e-9",
    ]
    run.assumptions += [
        "theorems are over the reals; uniqueness of the least-squares minimiser and convergence of leastsq are not proved",
        "heat_capacity_P_polyfit and plotting/writing methods are outside this property",
    ]

    lines, meta = ["consts"], [("consts", None)]

    # ---------------------------------------------------------------- EOS functions
    neos = 8000 if thorough else 80
    for n in range(neos):
        name = (KINDS + ["no_such_eos"])[n % 4]
        E0, B0, Bp, V0 = rand_params(rng)
        nv = rng.randint(9, 25)
        vs = np.sort(np.array([V0 * rng.uniform(0.6, 1.6) for _ in range(nv)]))
        vs[nv // 2] = V0
        f = EOS.get_eos(name)
        impl = np.array(f(vs, E0, B0, Bp, V0), dtype="double")
        lines.append("eos %s %s %s %s %s %d %s" % (name, fb(E0), fb(B0), fb(Bp), fb(V0), nv, fbs(vs)))
        meta.append(("eos", (name, (E0, B0, Bp, V0), vs, impl)))
        run.case(("eos", name, E0, B0, Bp, V0, vs.tobytes()), nontrivial=True)
        run.count("eos " + name)
        # ---- oracle on the implementation: the parameters mean what the names say
        kind = name if name in KINDS else "vinet"
        site = "phonopy.qha.eos.get_eos('%s')" % name
        case = dict(eos=name, E0=E0, B0=B0, Bp=Bp, V0=V0)
        sc = max(abs(E0), B0 * V0)
        if abs(float(f(V0, E0, B0, Bp, V0)) - E0) > 1e-12 * sc:
            run.violation(site, "E-at-V0", "E(V0) = %r, E0 = %r" % (float(f(V0, E0, B0, Bp, V0)), E0), case)
        if not close(impl, ref_eos(kind, vs, E0, B0, Bp, V0), np.abs(impl).max() + sc):
            run.violation(site, "formula", "differs from the documented formula by %.3g" % np.abs(impl - ref_eos(kind, vs, E0, B0, Bp, V0)).max(), case)
        h = 2e-3 * V0
        e = [float(f(V0 + k * h, E0, B0, Bp, V0)) for k in (-3, -2, -1, 0, 1, 2, 3)]
        d1 = (e[0] * -1 + e[1] * 9 + e[2] * -45 + e[4] * 45 + e[5] * -9 + e[6]) / (60 * h)
        d2 = (e[0] * 2 + e[1] * -27 + e[2] * 270 + e[3] * -490 + e[4] * 270 + e[5] * -27 + e[6] * 2) / (180 * h * h)
        d3 = (e[0] * 1 + e[1] * -8 + e[2] * 13 + e[4] * -13 + e[5] * 8 + e[6] * -1) / (8 * h ** 3)
        if abs(d1) > 1e-7 * B0:
            run.violation(site, "pressure-at-V0", "E'(V0) = %r (B0 = %r)" % (d1, B0), case)
        if abs(V0 * d2 / B0 - 1) > 1e-6:
            run.violation(site, "bulk-modulus", "V0 E''(V0) = %r, B0 = %r" % (V0 * d2, B0), case)
        bp_num = -1 - V0 * d3 / d2
        if abs(bp_num - Bp) > 2e-3:
            run.violation(site, "bulk-modulus-derivative", "dB/dP at V0 = %r, B0' = %r" % (bp_num, Bp), case)
        run.count("oracle-eos", section="oracle")

    # ---------------------------------------------------------------- fit_to_eos / BulkModulus on exact data, equilibrium inside and OUTSIDE the volume grid
    from phonopy.qha.core import BulkModulus

    nfit = 60 if thorough else 18
    for n in range(nfit):
        kind = KINDS[n % 3]
        side = ["inside", "below", "above"][(n // 3) % 3]
        E0, B0, Bp, V0 = rand_params(rng)
        nv = rng.randint(5, 15)
        width = rng.uniform(0.15, 0.25) * V0
        margin = rng.uniform(0.02, 0.10) * width
        if side == "inside":
            vs = np.linspace(V0 - 0.45 * width, V0 + 0.55 * width, nv)
        elif side == "below":
            vs = np.linspace(V0 + margin, V0 + margin + width, nv)
        else:
            vs = np.linspace(V0 - margin - width, V0 - margin, nv)
        en = ref_eos(kind, vs, E0, B0, Bp, V0)
        case = dict(eos=kind, E0=E0, B0=B0, Bp=Bp, V0=V0, volumes=vs.tolist(), equilibrium_volume=side)
        fe_, fb_, fbp_, fv_ = EOS.fit_to_eos(vs, en, EOS.get_eos(kind))
        bm = BulkModulus(vs, en, eos=kind)
        for site, (pe, pb, pbp, pv) in (("phonopy.qha.eos.fit_to_eos", (fe_, fb_, fbp_, fv_)), ("BulkModulus", bm.get_parameters())):
            if abs(pv / V0 - 1) > 1e-9 or abs(pe - E0) > 1e-9 * max(1.0, abs(E0)) or abs(pb / B0 - 1) > 1e-7 or abs(pbp - Bp) > 1e-6:
                if same_as_reference(kind, vs, en, (pe, pb, pbp, pv)):
                    # the unchanged algorithm (unconstrained leastsq from the documented start) stops at a spurious
                    # stationary point on exact data: a genuine, recorded limitation (known_findings.json), matched
                    # by "the independent reference run of that algorithm gives the implementation's answer"
                    run.count("leastsq itself does not converge to the exact parameters (reference algorithm agrees with the implementation)", section="oracle")
                    run.violation("EOSFit.fit (scipy.optimize.leastsq)", "exact-data-spurious-stationary-point",
                                  "fitted (E0, B0, B0', V0) = (%r, %r, %r, %r) for exact %s data with (%r, %r, %r, %r); an independent leastsq run from the documented start gives the same" % (pe, pb, pbp, pv, kind, E0, B0, Bp, V0), case)
                    continue
                run.violation(site, "recovery" + ("" if side == "inside" else "-outside-grid"),
                              "fitted (E0, B0, B0', V0) = (%r, %r, %r, %r) for exact %s data with (%r, %r, %r, %r)" % (pe, pb, pbp, pv, kind, E0, B0, Bp, V0), case)
        run.case(("fit", kind, side, E0, B0, Bp, V0, vs.tobytes()), nontrivial=True)
        run.count("fit " + side)
        run.count("oracle-fit", section="oracle")
    # Murnaghan under a physical pressure: E(V) + PV is again a Murnaghan curve with V1 = V0 (1 + B0' P/B0)^(-1/B0'), B1 = B0 + B0' P
    for n in range(12 if thorough else 4):
        E0, B0, Bp, V0 = rand_params(rng)
        pg = rng.uniform(15.0, 40.0) if n % 2 == 0 else -0.5 * B0 * units.EVAngstromToGPa / Bp * rng.uniform(0.2, 0.5)
        pe = pg / units.EVAngstromToGPa
        V1 = V0 * (1 + Bp * pe / B0) ** (-1.0 / Bp)
        B1 = B0 + Bp * pe
        nv = rng.randint(6, 12)
        width = 0.2 * V0
        margin = rng.uniform(0.02, 0.10) * width
        vs = np.linspace(V1 + margin, V1 + margin + width, nv) if V1 < V0 else np.linspace(V1 - margin - width, V1 - margin, nv)
        en = ref_eos("murnaghan", vs, E0, B0, Bp, V0)
        E1 = float(ref_eos("murnaghan", V1, E0, B0, Bp, V0)) + pe * V1
        bm = BulkModulus(vs.copy(), en.copy(), pressure=pg, eos="murnaghan")
        pe_, pb_, pbp_, pv_ = bm.get_parameters()
        case = dict(eos="murnaghan", E0=E0, B0=B0, Bp=Bp, V0=V0, pressure_GPa=pg, volumes=vs.tolist(), expected=dict(E=E1, B=B1, Bp=Bp, V=V1))
        if (abs(pv_ / V1 - 1) > 1e-9 or abs(pe_ - E1) > 1e-9 * max(1.0, abs(E1)) or abs(pb_ / B1 - 1) > 1e-7 or abs(pbp_ - Bp) > 1e-6) and not same_as_reference(
                "murnaghan", vs, en + vs * pe, (pe_, pb_, pbp_, pv_)):
            run.violation("BulkModulus", "recovery-pressure-outside-grid",
                          "at %.3g GPa: fitted (E, B, B', V) = (%r, %r, %r, %r), closed form (%r, %r, %r, %r)" % (pg, pe_, pb_, pbp_, pv_, E1, B1, Bp, V1), case)
        run.case(("murnaghan-pressure", E0, B0, Bp, V0, pg, vs.tobytes()), nontrivial=True)
        run.count("fit murnaghan under pressure, minimum outside the grid")
        run.count("oracle-fit", section="oracle")

    # ---------------------------------------------------------------- QHA
    nq = 8000 if thorough else 40
    qcases = []
    specs = [(k_, side, None, None) for k_ in KINDS for side in ("below", "above")]
    # arbitrary zero of energy (all-electron total energies) and fine temperature grids: tolerances relative to |F| or to the change of F
    # between neighbouring temperatures must not matter
    specs += [(KINDS[0], None, -7870.0, 10.0), (KINDS[1], None, -10.0, 1.0), (KINDS[2], None, 1e4, 0.5), (None, None, -1e4, 2.0), (None, None, 0.0, 0.5), (None, None, 1e3, 50.0)]
    specs += [(None, rng.choice([None, None, None, None, None, "below", "above"]), None, None) for _ in range(nq)]
    for (k_, side, off_, dT_) in specs:
        c = gen_qha_case(rng, thorough, kind=k_, outside=side, offset=off_, dT=dT_)
        fph = build_inputs(c, units)
        c["as_view"] = rng.random() < 0.4
        arrs = caller_arrays(c, fph, as_view=c["as_view"])
        snap = snapshot(arrs)
        qha = run_qha(c, fph, arrays=arrs)
        nt, nv = len(c["temps"]), len(c["vols"])
        st = fitted_state(run, c, fph, qha, units)
        c["state"] = st
        hasP = c["pressure"] is not None
        lines.append("fe %d %s %d %d %d %s %s %s" % (int(hasP), fb(c["pressure"] if hasP else 0.0), int(c["shape"] == "TV"), nt, nv,
                                                    fbs(c["vols"]), fbs(c["el"]), fbs(fph)))
        meta.append(("fe", (c, np.array(qha.helmholtz_volume, dtype="double"))))
        num = len(st["V"])
        cvat = []
        cvc = np.zeros((num, 5))
        scf = np.zeros((num, 5))
        for i in range(num):
            vv = st["V"][i]
            par = np.polyfit(c["vols"], c["cv"][i], 4)  # the same public numpy call as the implementation's: an input of the model
            cvat.append(float(np.dot(par, [vv ** 4, vv ** 3, vv ** 2, vv, 1])))
            if 1 <= i < num - 1:
                cvc[i] = par
                scf[i] = np.polyfit(c["vols"], c["ent"][i], 4)
        lines.append("fd %d %s %d %s %d %s %s %s %s" % (int(c["tmax"] is not None), fb(c["tmax"] if c["tmax"] is not None else 0.0), nt, fbs(c["temps"]),
                                                       num, fbs(st["V"]), fbs(st["G"]), fbs(st["B"]), fbs(cvat)))
        meta.append(("fd", (c, qha, num)))
        # heat_capacity_P_polyfit: the quartic fits (np.polyfit) are inputs of the model as coefficient rows
        lines.append("cpfit %d %s %s %s %s" % (num, fbs(np.array(c["temps"], dtype="double")[:num]), fbs(st["V"]), fbs(cvc), fbs(scf)))
        meta.append(("cpfit", (c, qha, num)))
        if st["P"] is not None:
            lines.append("bulkgpa %d %s" % (num, fbs(st["P"][:, 1])))
            meta.append(("bulkgpa", (c, np.array(st["B"]))))
        qcases.append((c, fph, qha))
        info = dict(eos=c["kind"], nt=nt, nv=nv, pressure=c["pressure"], el_shape=c["shape"], t_max=c["tmax"], t_max_kind=c["tmax_sel"], equilibrium_volume=c["outside"] or "inside", energy_offset_eV=c["offset"], temperature_step_K=c["dT"],
                    temperatures=c["temps"].tolist(), volumes=c["vols"].tolist())
        c["info"] = info
        run.count("caller arrays: " + ("strided views" if c["as_view"] else "own ndarrays"))
        # ---- oracle: the analysis copies its inputs — caller arrays untouched, and a second analysis on the SAME arrays gives the same result
        untouched = check_untouched(run, "PhonopyQHA", snap, arrs, info, "after construction and run()")
        from phonopy.qha.core import QHA as _QHA, BulkModulus as _BM

        q2 = _QHA(arrs["volumes"], arrs["electronic_energies"], arrs["temperatures"], arrs["cv"], arrs["entropy"], arrs["free_energy"],
                  pressure=c["pressure"], eos=c["kind"], t_max=c["tmax"])
        check_untouched(run, "QHA.__init__", snap, arrs, info, "after construction")
        q2.run()
        check_untouched(run, "QHA.run", snap, arrs, info, "after run()")
        _BM(arrs["volumes"], arrs["electronic_energies"], pressure=c["pressure"], eos=c["kind"])
        check_untouched(run, "BulkModulus.__init__", snap, arrs, info, "after construction")
        again = run_qha(c, fph, arrays=arrs)
        for nm in ("volume_temperature", "gibbs_temperature", "bulk_modulus_temperature", "thermal_expansion", "helmholtz_volume"):
            a1, a2, a3 = np.array(getattr(qha, nm)), np.array(getattr(again, nm)), np.array(getattr(q2, nm))
            if not close(a2, a1, float(np.abs(a1).max()), 1e-10) or not close(a3, a1, float(np.abs(a1).max()), 1e-10):
                run.violation("PhonopyQHA", "repeated-analysis" + ("-pressure" if c["pressure"] else ""),
                              "%s of a second / third analysis on the same input arrays differs from the first by %.3g" % (nm, max(np.abs(a2 - a1).max(), np.abs(a3 - a1).max())), info)
                break
        run.count("oracle-inputs-preserved", section="oracle")
        run.case(("qha", c["kind"], c["temps"].tobytes(), c["vols"].tobytes(), c["pressure"], c["shape"], c["tmax"]), nontrivial=num >= 3)
        run.count("qha " + c["kind"])
        run.count("pressure " + ("None" if c["pressure"] is None else "0" if c["pressure"] == 0 else "+" if c["pressure"] > 0 else "-"))
        run.count("electronic (%s)" % c["shape"])
        run.count("t_max " + c["tmax_sel"])
        run.count("equilibrium volume " + ("inside the volume grid" if c["outside"] is None else c["outside"] + " the volume grid"))
        run.count("energy offset %g eV" % c["offset"])
        run.count("temperature step %g K" % c["dT"])
        run.sample({k: v for k, v in info.items() if k not in ("temperatures", "volumes")})

        # ---- oracle on the implementation: recovery of the known parameters
        L = len(qha.volume_temperature)
        Vk, Ek, Bk = c["pars"]["V0"], c["pars"]["E0"], c["pars"]["B0"] * units.EVAngstromToGPa
        site = "PhonopyQHA"
        # public per-temperature results; the last fitted point (right neighbour of the finite differences only) is hidden state: its
        # end effect is the thermal expansion / C_P of the last public temperature, checked below
        vt, gt, bt = np.array(qha.volume_temperature), np.array(qha.gibbs_temperature), np.array(qha.bulk_modulus_temperature)
        errV = float(np.abs(vt / Vk[:L] - 1).max())
        errG = float(np.abs(gt - Ek[:L]).max())
        errB = float(np.abs(bt / Bk[:L] - 1).max())
        hv, hg, hb = st["V"], st["G"], st["B"]
        if not (np.array_equal(hv[:L], vt) and np.array_equal(hg[:L], gt) and np.array_equal(hb[:L], bt)):
            run.broke("correspondence", "volume/gibbs/bulk_modulus_temperature are not the leading part of the fitted arrays the model's finite differences were fed with", info)
        run.cov["oracle"]["max recovery error V (rel)"] = max(run.cov["oracle"].get("max recovery error V (rel)", 0.0), errV)
        run.cov["oracle"]["max recovery error G (eV)"] = max(run.cov["oracle"].get("max recovery error G (eV)", 0.0), errG)
        run.cov["oracle"]["max recovery error B (rel)"] = max(run.cov["oracle"].get("max recovery error B (rel)", 0.0), errB)
        # accuracy the unchanged leastsq reaches on exact data (measured on /repo): its stopping rule is relative to the norm of the
        # parameter vector, which a large |E0| dominates -> relative error of V about 1e-14 |E|^2 (1e-6 at 1e4 eV), of B ten times that
        sf = max(1.0, float(np.abs(Ek).max()))
        nz = max(1e-9, 1e-13 * sf * sf)
        tolV, tolG, tolB = nz, max(1e-9 * sf, 1e-13 * sf * sf), max(1e-7, 1e-11 * sf * sf)
        nonconv = False
        nfit_ = len(hv)
        err_hidden = max(float(np.abs(hv / Vk[:nfit_] - 1).max()), float(np.abs(hb / Bk[:nfit_] - 1).max()) * 1e-2)
        if errV > tolV or errG > tolG or errB > tolB or err_hidden > tolV:
            fes = st["FE"]
            if st["P"] is not None:
                pars_impl = [tuple(r_) for r_ in st["P"]]
            else:  # public results only: (G, B in eV/A^3, -, V)
                pars_impl = [(hg[i_], hb[i_] / units.EVAngstromToGPa, None, hv[i_]) for i_ in range(len(hv))]
            bad_t = [i_ for i_ in range(len(pars_impl))
                     if abs(pars_impl[i_][3] / Vk[i_] - 1) > tolV or abs(pars_impl[i_][1] * units.EVAngstromToGPa / Bk[i_] - 1) > tolB or abs(pars_impl[i_][0] - Ek[i_]) > tolG]
            nonconv = len(bad_t) > 0 and all(same_as_reference(c["kind"], c["vols"], fes[i_], pars_impl[i_]) for i_ in bad_t)
        if nonconv:
            run.count("leastsq itself does not converge to the exact parameters (reference algorithm agrees with the implementation)", section="oracle")
            run.violation("EOSFit.fit (scipy.optimize.leastsq)", "exact-data-spurious-stationary-point",
                          "QHA fit at temperature indices %r stops where an independent leastsq run from the documented start stops: rel V %.3g, G %.3g eV, rel B %.3g" % (bad_t[:6], errV, errG, errB), info)
            continue
        if errV > tolV or errG > tolG or errB > tolB:
            run.violation(site, "recovery" + ("-pressure" if c["pressure"] else "") + ("-outside-grid" if c["outside"] else ""),
                          "fitted V(T), G(T), B(T) differ from the parameters of the generating EOS: rel V %.3g, G %.3g eV, rel B %.3g" % (errV, errG, errB), info)
        # ---- oracle: the order in which the volume points are listed is a choice of description — every array permuted consistently
        # along its volume axis (a 3-cycle of list positions: not its own inverse) must give the same V(T), G(T), B(T)
        # (seeded change r7-c20: inputs sorted along the volume axis with the inverse permutation for the energies)
        if c["outside"] is None and nv >= 4 and not (errV > tolV or errG > tolG or errB > tolB):
            # a 3-cycle (not its own inverse) of list positions that leaves position nv//2 alone: the unconstrained leastsq starts from
            # [E, 1, 4, V] of the MIDDLE list entry, and how the fit depends on that start is the territory of the known finding
            # (a rotated list moved the start and, in the thorough tier, one fit in ~1000 stopped at another stationary point)
            k_ = 1 + (len(qcases) % 2)
            cyc = [i_ for i_ in (0, 1, nv - 1, nv - 2) if i_ != nv // 2][:3]
            perm = np.arange(nv)
            if k_ == 1:
                perm[cyc[0]], perm[cyc[1]], perm[cyc[2]] = cyc[1], cyc[2], cyc[0]
            else:
                perm[cyc[0]], perm[cyc[1]], perm[cyc[2]] = cyc[2], cyc[0], cyc[1]
            arrs_p = {k2: (np.array(v2)[..., perm].copy() if k2 != "temperatures" else np.array(v2).copy()) for k2, v2 in caller_arrays(c, fph).items()}
            try:
                qp = run_qha(c, fph, arrays=arrs_p)
                vtp, gtp, btp = np.array(qp.volume_temperature), np.array(qp.gibbs_temperature), np.array(qp.bulk_modulus_temperature)
                eVp, eGp, eBp_ = float(np.abs(vtp / Vk[:L] - 1).max()), float(np.abs(gtp - Ek[:L]).max()), float(np.abs(btp / Bk[:L] - 1).max())
            except Exception as exc:  # noqa: BLE001
                eVp = eGp = eBp_ = float("inf")
                run.count("volume-order oracle: analysis of the rotated list raised %s" % type(exc).__name__, section="oracle")
            run.count("oracle-volume-order-independence", section="oracle")
            if eVp > 10 * tolV or eGp > 10 * tolG or eBp_ > 10 * tolB:
                run.violation(site, "volume-order" + ("-pressure" if c["pressure"] else ""),
                              "with the volume points listed in another order (3-cycle no. %d of list positions, all arrays permuted consistently) the fitted V(T), G(T), B(T) "
                              "differ from the parameters of the generating EOS: rel V %.3g, G %.3g eV, rel B %.3g (listed ascending: %.3g, %.3g, %.3g)" % (
                                  k_, eVp, eGp, eBp_, errV, errG, errB), dict(info, volume_order=perm.tolist()))
        if c["pressure"] is None and c["shape"] == "V":
            be, bb, bbp, bv = qha.get_bulk_modulus_parameters()
            eE0, eB0, eBp, eV0 = c["el_params"]
            if (abs(bv / eV0 - 1) > 1e-9 or abs(be - eE0) > 1e-9 * max(1.0, abs(eE0)) or abs(bb / eB0 - 1) > 1e-7 or abs(bbp - eBp) > 1e-6) and not same_as_reference(
                    c["kind"], c["vols"], c["el"], (be, bb, bbp, bv)):
                run.violation("BulkModulus", "recovery" + ("-outside-grid" if c["outside"] else ""),
                              "BulkModulus parameters (%r, %r, %r, %r) differ from those of the generating EOS (%r, %r, %r, %r)" % (be, bb, bbp, bv, eE0, eB0, eBp, eV0), info)
            run.count("oracle-bulk-modulus", section="oracle")
        # thermal expansion and C_P against the documented finite differences of the KNOWN V(T), G(T)
        T = c["temps"]
        beta_k = [0.0] + [(Vk[i + 1] - Vk[i - 1]) / (T[i + 1] - T[i - 1]) / Vk[i] for i in range(1, L)]
        gk = Ek * units.EvTokJmol * 1000
        cp_k = [0.0] + [-2 * T[i] * (((gk[i + 1] - gk[i]) / (T[i + 1] - T[i]) - (gk[i] - gk[i - 1]) / (T[i] - T[i - 1])) / (T[i + 1] - T[i - 1])) for i in range(1, L)]
        dts = np.diff(T).min()
        te = np.array(qha.thermal_expansion)
        cp = np.array(qha.heat_capacity_P_numerical)
        if len(te) != L or np.abs(te - np.array(beta_k)).max() > 0.5 * nz / dts + 1e-6 * float(np.abs(np.array(beta_k)).max()):
            run.violation(site, "thermal-expansion", "thermal expansion differs from the central difference of the known V(T) by %.3g" % np.abs(te - np.array(beta_k)).max(), info)
        # second differences of G amplify its rounding noise (~1e-13 |G|) by T/dT^2
        cptol = max(1e-6 * float(np.abs(np.array(cp_k)).max()), 0.4 * tolG * units.EvTokJmol * 1000 * float(T[:L + 1].max()) / dts ** 2)
        if len(cp) != L or np.abs(cp - np.array(cp_k)).max() > cptol:
            run.violation(site, "heat-capacity-P", "C_P differs from -T d2G/dT2 of the known G(T) by %.3g (tolerance %.3g)" % (np.abs(cp - np.array(cp_k)).max(), cptol), info)
        # C_P (polyfit) = C_V(V_i) + T_i (dV/dT)(dS/dV) with the KNOWN quartics and the known quadratic V(T)
        cpp = np.array(qha.heat_capacity_P_polyfit, dtype="double") if c["shape"] == "V" else None
        cp_known = [0.0]
        for i in range(1, L):
            t, vv = T[i], Vk[i]
            cv_k = (t / (t + 150.0)) * sum(qk * (vv - c["vm"]) ** k for k, qk in enumerate(c["q"]))
            dsdv_k = (t / (t + 90.0)) * (0.4 + 0.02 * (vv - c["vm"]))
            cp_known.append(cv_k + t * c["dV0dT"][i] * dsdv_k)
        cp_known = np.array(cp_known)
        if cpp is not None and (len(cpp) != L or np.abs(cpp - cp_known).max() > 1e-6 * max(1.0, float(np.abs(cp_known).max())) + 0.5 * nz / dts * float(np.abs(Vk).max()) * float(np.abs(np.array(T[:L])).max())):
            run.violation(site, "cp-polyfit", "heat_capacity_P_polyfit differs from C_V(V) + T (dV/dT)(dS/dV) of the known functions by %.3g" % np.abs(cpp - cp_known).max(), info)
        # Grueneisen parameter from the known functions: beta K_T / (C_V/V in GPa/K)
        gam = np.array(qha.gruneisen_temperature, dtype="double")
        g_known, g_tol = [0.0], [0.0]
        for i in range(1, L):
            t, vv = T[i], Vk[i]
            cvv = (t / (t + 150.0)) * sum(qk * (vv - c["vm"]) ** k for k, qk in enumerate(c["q"])) / vv / 1000 / units.EvTokJmol * units.EVAngstromToGPa
            g_known.append(0.0 if cvv < 1e-10 else beta_k[i] * Bk[i] / cvv)
            g_tol.append(0.0 if cvv < 1e-10 else (0.5 * nz / dts) * Bk[i] / cvv + (1e-6 + tolB + tolV) * abs(g_known[-1]))
        g_known, g_tol = np.array(g_known), np.array(g_tol)
        if len(gam) != L or np.any(np.abs(gam - g_known) > g_tol + 1e-9):
            run.violation(site, "gruneisen", "Grueneisen parameter differs from beta K_T V / C_V of the known functions by %.3g" % np.abs(gam - g_known).max(), info)
        run.count("oracle-recovery", section="oracle")

    # physical sign of the pressure term, (V) vs (T,V) with identical rows, t_max independence of the common prefix
    for (c, fph, qha) in [q_ for q_ in qcases if q_[0]["outside"] is None][: (1200 if thorough else 10)]:
        c0 = dict(c, pressure=None)
        fph0 = build_inputs(c0, units)  # total energy is the EOS itself when no pressure is applied
        base = run_qha(c0, fph0, pressure=None, tmax=None)
        comp = run_qha(c0, fph0, pressure=1.0, tmax=None)
        if not np.all(np.array(comp.volume_temperature) < np.array(base.volume_temperature)):
            def _is_reference(q_):
                Q_ = getattr(q_, "_qha", None)
                if not (hasattr(Q_, "_free_energies") and hasattr(Q_, "_equiv_parameters")):
                    return False
                fes_, par_ = np.array(Q_._free_energies), np.array(Q_._equiv_parameters)
                return all(same_as_reference(c["kind"], c["vols"], fes_[i_], par_[i_]) for i_ in range(len(par_)))
            if _is_reference(base) and _is_reference(comp):
                # both analyses are what the documented algorithm gives on these data: a spurious stationary point of leastsq, not the +PV term
                run.violation("EOSFit.fit (scipy.optimize.leastsq)", "exact-data-spurious-stationary-point",
                              "+1 GPa does not reduce the fitted equilibrium volume at every temperature, and an independent leastsq run from the documented start gives the same fits", c["info"])
            else:
                run.violation("PhonopyQHA", "pressure-sign", "+1 GPa does not reduce the equilibrium volume at every temperature", c["info"])
        if c["shape"] == "V":
            tiled = np.tile(c["el"], (len(c["temps"]), 1))
            other = run_qha(c, fph, el=tiled)
            for nm in ("volume_temperature", "gibbs_temperature", "bulk_modulus_temperature", "thermal_expansion"):
                if not close(getattr(other, nm), getattr(qha, nm), float(np.abs(np.array(getattr(qha, nm))).max()), 1e-10):
                    run.violation("PhonopyQHA", "electronic-shape", "%s differs between shape (V) and shape (T,V) with identical rows" % nm, c["info"])
        # the zero of energy is arbitrary: shifting the electronic energies by X shifts G by X and leaves V(T), B(T), thermal expansion alone
        X = rng.choice([1e3, -1e3, -7870.0, 12.5])
        shifted = run_qha(c, fph, el=np.array(c["el"]) + X)
        sfx = max(1.0, abs(X) + float(np.abs(np.array(qha.gibbs_temperature)).max()))
        nzx = max(1e-9, 1e-13 * sfx * sfx)
        if (not close(shifted.volume_temperature, qha.volume_temperature, float(np.abs(qha.volume_temperature).max()), 2 * nzx)
                or not close(shifted.bulk_modulus_temperature, qha.bulk_modulus_temperature, float(np.abs(qha.bulk_modulus_temperature).max()), max(2e-7, 2e-11 * sfx * sfx))
                or not close(np.array(shifted.gibbs_temperature) - X, qha.gibbs_temperature, 1.0, max(2e-9 * sfx, 2e-13 * sfx * sfx))
                or not close(shifted.thermal_expansion, qha.thermal_expansion, 1.0, nzx / float(np.diff(c["temps"]).min()) + 1e-6 * float(np.abs(np.array(qha.thermal_expansion)).max()))):
            run.violation("PhonopyQHA", "energy-offset", "shifting all energies by %g eV changes V(T), B(T) or the thermal expansion, or G(T) does not shift by the same amount" % X, c["info"])
        full = run_qha(c, fph, tmax=None)
        Lc = len(qha.volume_temperature)
        if not close(np.array(full.volume_temperature)[:Lc], qha.volume_temperature, float(np.abs(qha.volume_temperature).max()), 1e-12):
            run.violation("PhonopyQHA", "t_max-prefix", "volume_temperature with t_max is not the prefix of the result without t_max", c["info"])
        run.count("oracle-pressure-shape-tmax", section="oracle")

    # ---------------------------------------------------------------- argument TYPES: the result depends on the VALUES given, not on their container / dtype
    from phonopy import PhonopyQHA as _PQ2
    from phonopy.qha.core import QHA as _QHA2, BulkModulus as _BM2

    def _typed(a, kind):
        a = np.array(a, dtype="double")
        if kind == "list":
            return a.tolist()
        if kind == "int-list":
            return [[int(x) for x in r_] for r_ in a] if a.ndim == 2 else [int(x) for x in a]
        if kind == "tuple":
            return tuple(map(tuple, a.tolist())) if a.ndim == 2 else tuple(a.tolist())
        if kind == "fortran":
            return np.asfortranarray(a) if a.ndim == 2 else a[::-1].copy()[::-1]
        if kind == "strided":
            big = np.zeros(tuple(2 * n_ + 1 for n_ in a.shape))
            sl = tuple(slice(0, 2 * n_, 2) for n_ in a.shape)
            big[sl] = a
            return big[sl]
        return a.astype(kind)

    ntype = 9 if thorough else 3
    for n_ in range(ntype):
        kind = KINDS[n_ % 3]
        ntt = rng.randint(6, 9)
        tt = float(rng.choice([10, 20, 50])) * np.arange(ntt)
        v_lo = rng.choice([40, 60, 90])
        vols_t = np.arange(v_lo, v_lo + rng.choice([11, 13]) * 2, 2).astype("double")   # integer-valued grid: identical values in every type
        V0_ = (vols_t[0] + 0.45 * (vols_t[-1] - vols_t[0])) * (1 + 2e-5 * tt + 5e-9 * tt ** 2)
        E0_ = -rng.uniform(5, 40) - 1e-6 * tt ** 2
        B0_ = rng.uniform(0.3, 1.2) * (1 - 1e-4 * tt)
        Bp_ = rng.uniform(3.5, 5.5) + 0 * tt
        Pt = float(rng.choice([2, 3, 5, -1]))
        tot_t = np.array([ref_eos(kind, vols_t, E0_[i], B0_[i], Bp_[i], V0_[i]) for i in range(ntt)])
        el_t = ref_eos(kind, vols_t, E0_[0] + 0.3, B0_[0] * 1.03, Bp_[0] - 0.1, V0_[0] * 1.004)
        fph_t = (tot_t - el_t - vols_t * Pt / units.EVAngstromToGPa) * units.EvTokJmol
        cv_t = np.array([[t_ / (t_ + 150.0) * (40 + 0.1 * (v_ - vols_t.mean())) for v_ in vols_t] for t_ in tt])
        ent_t = 1.1 * cv_t
        base_args = dict(volumes=vols_t, electronic_energies=el_t, temperatures=tt, free_energy=fph_t, cv=cv_t, entropy=ent_t, pressure=Pt)
        pubs = ("volume_temperature", "gibbs_temperature", "bulk_modulus_temperature", "thermal_expansion", "heat_capacity_P_numerical", "gruneisen_temperature")

        def _run(cls, **kw):
            a_ = dict(base_args)
            a_.update(kw)
            a_ = {k_: (v_.copy() if isinstance(v_, np.ndarray) and v_.flags.owndata else v_) for k_, v_ in a_.items()}
            with warnings.catch_warnings():
                warnings.simplefilter("ignore")
                if cls == "PhonopyQHA":
                    q_ = _PQ2(eos=kind, **a_)
                else:
                    q_ = _QHA2(a_["volumes"], a_["electronic_energies"], a_["temperatures"], a_["cv"], a_["entropy"], a_["free_energy"], pressure=a_["pressure"], eos=kind)
                    q_.run()
            return [np.array(getattr(q_, nm_), dtype="double") for nm_ in (pubs if cls == "PhonopyQHA" else pubs[:4] + ("heat_capacity_P_numerical", "gruneisen_temperature"))]

        info_t = dict(eos=kind, volumes=vols_t.tolist(), temperatures=tt.tolist(), pressure=Pt, V0=V0_.tolist(), B0=B0_.tolist())
        base = _run("PhonopyQHA")
        Lb = len(base[0])
        if np.abs(base[0] / V0_[:Lb] - 1).max() > 1e-9 or np.abs(base[2] / (B0_[:Lb] * units.EVAngstromToGPa) - 1).max() > 1e-7:
            if not all(same_as_reference(kind, vols_t, tot_t[i_], (base[1][i_], base[2][i_] / units.EVAngstromToGPa, None, base[0][i_])) for i_ in range(Lb)):
                run.violation("PhonopyQHA", "recovery-pressure", "float64 arrays: fitted V(T), B(T) differ from the generating EOS (rel V %.3g)" % np.abs(base[0] / V0_[:Lb] - 1).max(), info_t)
            continue
        variants = [("volumes", "int-list"), ("volumes", rng.choice(["int32", "int64"])), ("volumes", rng.choice(["tuple", "list", "strided", "float32"])),
                    ("temperatures", rng.choice(["int-list", "int64", "float32", "tuple"])), ("pressure", rng.choice(["int", "float32", "int64", "float64"])),
                    ("electronic_energies", rng.choice(["list", "tuple", "strided"])), ("free_energy", rng.choice(["list", "fortran", "strided"])),
                    ("cv+entropy", rng.choice(["list", "fortran"]))]
        for (arg, tk) in variants:
            kw = {}
            if arg == "pressure":
                kw["pressure"] = int(Pt) if tk == "int" else getattr(np, tk)(Pt)
            elif arg == "cv+entropy":
                kw["cv"], kw["entropy"] = _typed(cv_t, tk), _typed(ent_t, tk)
            else:
                kw[arg] = _typed(base_args[arg], tk)
            tolt = 1e-5 if tk == "float32" else 1e-9   # a float32 volume grid carries the P*V product in single precision
            for cls in ("PhonopyQHA", "QHA"):
                site = "%s (argument types)" % cls
                desc = dict(argument=arg, given_as=tk, **info_t)
                try:
                    res_ = _run(cls, **kw)
                except Exception as e_:
                    run.violation(site, "argument-type", "%s given as %s is rejected: %s: %s" % (arg, tk, type(e_).__name__, e_), desc)
                    continue
                for nm_, a_, b_ in zip(pubs, res_, base):
                    if a_.shape != b_.shape or np.abs(a_ - b_).max(initial=0.0) > tolt * max(float(np.abs(b_).max(initial=0.0)), 1e-30):
                        run.violation(site, "argument-type", "%s given as %s: %s differs from the result for the same values as float64 arrays by %.3g (the float64 result equals the generating EOS)" % (
                            arg, tk, nm_, np.abs(a_ - b_).max() if a_.shape == b_.shape else float("nan")), desc)
                        break
                run.count("argument %s as %s" % (arg, tk))
            run.case(("argtype", kind, arg, tk, vols_t.tobytes(), Pt), nontrivial=True)
        # BulkModulus / fit_to_eos on the same integer-valued grid: energies E(V) - PV so that the fitted curve is the exact EOS
        en_b = tot_t[0] - vols_t * Pt / units.EVAngstromToGPa
        for tk in ("int-list", "int32", rng.choice(["tuple", "strided", "int64"])):
            for site, fn in (("BulkModulus (argument types)", lambda v_: _BM2(v_, en_b.copy(), pressure=Pt, eos=kind).get_parameters()),
                             ("phonopy.qha.eos.fit_to_eos (argument types)", lambda v_: EOS.fit_to_eos(v_, tot_t[0].copy(), EOS.get_eos(kind)))):
                try:
                    pe_, pb_, pbp_, pv_ = fn(_typed(vols_t, tk))
                except Exception as e_:
                    run.violation(site, "argument-type", "volumes given as %s are rejected: %s: %s" % (tk, type(e_).__name__, e_), dict(given_as=tk, **info_t))
                    continue
                if (abs(pv_ / V0_[0] - 1) > 1e-9 or abs(pb_ / B0_[0] - 1) > 1e-7 or abs(pe_ - E0_[0]) > 1e-9 * max(1.0, abs(E0_[0]))) and not same_as_reference(
                        kind, vols_t, tot_t[0], (pe_, pb_, pbp_, pv_)):
                    run.violation(site, "argument-type", "volumes given as %s: fitted (E0, B0, B0', V0) = (%r, %r, %r, %r), generating EOS (%r, %r, %r, %r)" % (
                        tk, pe_, pb_, pbp_, pv_, E0_[0], B0_[0], Bp_[0], V0_[0]), dict(given_as=tk, **info_t))
                run.count("argument volumes as %s (%s)" % (tk, site.split(" ")[0]))
        run.count("oracle-argument-types", section="oracle")

    # ---------------------------------------------------------------- observation (not a property clause): volumes are documented as numbers in A^3; no QHA path
    # takes PhonopyAtoms.volume itself, but a caller who feeds `cell.volume` of LEFT-HANDED cells (negative determinant) gets no error
    if qcases:
        c_, fph_, qha_ = next((q_ for q_ in qcases if q_[0]["outside"] is None and q_[0]["pressure"] is None), qcases[0])
        try:
            with warnings.catch_warnings():
                warnings.simplefilter("ignore")
                from phonopy import PhonopyQHA as _PQ
                qn = _PQ(volumes=-np.array(c_["vols"]), electronic_energies=np.array(c_["el"]), temperatures=np.array(c_["temps"]), free_energy=np.array(fph_),
                         cv=np.array(c_["cv"]), entropy=np.array(c_["ent"]), eos=c_["kind"], t_max=c_["tmax"])
            vneg = np.array(qn.volume_temperature)
            obs = "accepted silently: V(T) %s, G(T) %s, B(T) %s" % (
                "= -V(T) of the positive volumes" if close(-vneg, qha_.volume_temperature, float(np.abs(vneg).max()), 1e-6) else "differs",
                "unchanged" if close(qn.gibbs_temperature, qha_.gibbs_temperature, float(np.abs(np.array(qha_.gibbs_temperature)).max()) + 1.0, 1e-6) else "differs",
                "unchanged" if close(qn.bulk_modulus_temperature, qha_.bulk_modulus_temperature, float(np.abs(np.array(qha_.bulk_modulus_temperature)).max()), 1e-5)
                else "sign flipped" if close(-np.array(qn.bulk_modulus_temperature), qha_.bulk_modulus_temperature, float(np.abs(np.array(qha_.bulk_modulus_temperature)).max()), 1e-5) else "differs")
        except Exception as e_:
            obs = "rejected: %s" % type(e_).__name__
        run.cov["oracle"]["negative volumes (cell.volume of a left-handed cell fed by the caller; documented input: numbers in A^3)"] = obs

    # ================================================================== model run
    out = common.lean_run_driver("C20", lines)
    if len(out) != len(lines):
        run.broke("correspondence", "driver answered %d lines for %d requests" % (len(out), len(lines)))
        return
    ncmp = 0
    for (kind, info), line in zip(meta, out):
        if kind == "fd" and line == "bad-op":
            c, qha, num = info
            run.broke("correspondence", "number of fitted temperatures: implementation %d, model disagrees (t_max=%r, %d temperatures)" % (num, c["tmax"], len(c["temps"])), c["info"])
            continue
        if line == "bad-op":
            run.broke("correspondence", "model rejected a well-formed request (%s)" % kind)
            continue
        if kind == "consts":
            v = [bf(t) for t in line.split()]
            ncmp += 2
            if fb(v[0]) != fb(units.EVAngstromToGPa) or fb(v[1]) != fb(units.EvTokJmol):
                run.broke("correspondence", "unit constants: model %r, units.py %r" % (v, [units.EVAngstromToGPa, units.EvTokJmol]))
            if abs(units.EVAngstromToGPa / 160.21766 - 1) > 2e-6:
                run.violation("phonopy.units.EVAngstromToGPa", "unit-value", "EVAngstromToGPa = %r" % units.EVAngstromToGPa, {})
            continue
        if kind == "eos":
            name, p, vs, impl = info
            model = np.array([bf(t) for t in line.split()])
            ncmp += len(vs)
            if not close(impl, model, max(np.abs(impl).max(), abs(p[0]), p[1] * p[3])):
                run.broke("correspondence", "eos %s: implementation differs from model by %.3g" % (name, np.abs(impl - model).max()),
                          dict(eos=name, params=p, volumes=vs.tolist()))
            run.count("eos", section="correspondence")
            continue
        if kind == "fe":
            c, impl = info
            model = np.array([bf(t) for t in line.split()]).reshape(len(c["temps"]), len(c["vols"]))
            ncmp += impl.size
            if impl.shape[0] > model.shape[0] or not close(impl, model[: impl.shape[0]], float(np.abs(model).max())):
                run.broke("correspondence", "free energies F_ph/EvTokJmol + E_el + PV: implementation differs from model by %.3g" % np.abs(impl - model[: impl.shape[0]]).max(), c["info"])
            run.count("free-energy", section="correspondence")
            continue
        if kind == "bulkgpa":
            c, impl = info
            model = np.array([bf(t) for t in line.split()])
            ncmp += len(impl)
            if not close(impl, model, float(np.abs(model).max())):
                run.broke("correspondence", "bulk modulus in GPa differs from B0*EVAngstromToGPa by %.3g" % np.abs(impl - model).max(), c["info"])
            continue
        if kind == "cpfit":
            c, qha, num = info
            toks = line.split()
            mlen = int(toks[0])
            arr = np.array([bf(t) for t in toks[1:]]).reshape(2, mlen)
            Q = getattr(qha, "_qha", None)
            if c["shape"] == "TV":
                try:
                    qha.heat_capacity_P_polyfit
                    run.broke("correspondence", "heat_capacity_P_polyfit available for electronic energies of shape (T,V); model (cpPolyfitAvailable): NotImplementedError", c["info"])
                except NotImplementedError:
                    pass
                hcp = hook(run, Q, "_cp_polyfit")
                if hcp is None:
                    continue
                impl_cp = np.array(hcp[:mlen], dtype="double")
            else:
                impl_cp = np.array(qha.heat_capacity_P_polyfit, dtype="double")
            hds = hook(run, Q, "_dsdv")
            impl_ds = np.array(hds[:mlen], dtype="double") if hds is not None else arr[1]
            ncmp += 2 * mlen
            if len(impl_cp) != mlen:
                run.broke("correspondence", "heat_capacity_P_polyfit length %d, model %d" % (len(impl_cp), mlen), c["info"])
                continue
            # dV/dT comes from np.polyfit on three points (conditioning (T/dT)^2): allowance 1e-6 of the T*dvdt*dsdv term
            sc_cp = float(np.abs(arr[0]).max()) + float(np.abs(np.array(c["temps"][:mlen]) * arr[1]).max()) * 1e3
            if not close(impl_cp, arr[0], sc_cp, 1e-6) or not close(impl_ds, arr[1], float(np.abs(arr[1]).max())):
                run.broke("correspondence", "heat_capacity_P_polyfit / dsdv differ from model by %.3g / %.3g" % (np.abs(impl_cp - arr[0]).max(), np.abs(impl_ds - arr[1]).max()), c["info"])
            run.count("cp-polyfit", section="correspondence")
            continue
        if kind == "fd":
            c, qha, num = info
            toks = line.split()
            mnum, mlen = int(toks[0]), int(toks[1])
            arr = np.array([bf(t) for t in toks[2:]]).reshape(3, mlen)
            te, cp, gam = np.array(qha.thermal_expansion), np.array(qha.heat_capacity_P_numerical), np.array(qha.gruneisen_temperature, dtype="double")
            ncmp += 3 * mlen + 2
            lens = [len(qha.volume_temperature), len(qha.gibbs_temperature), len(qha.bulk_modulus_temperature), len(te), len(cp), len(gam), len(qha.helmholtz_volume)]
            if mnum != num or any(l != mlen for l in lens):
                run.broke("correspondence", "lengths: implementation num_elems=%d, public lengths %r; model num_elems=%d, length %d" % (num, lens, mnum, mlen), c["info"])
                continue
            tol_fd = TOL if c["state"]["exact"] else 1e-6  # hidden last point re-derived by the reference fit when the private arrays are absent
            if not close(te, arr[0], float(np.abs(arr[0]).max()), tol_fd):
                run.broke("correspondence", "thermal expansion differs from model by %.3g" % np.abs(te - arr[0]).max(), c["info"])
            # np.polyfit on three points solves a Vandermonde system (conditioning ~ (T/dT)^2: allowance 1e-6), and the second difference of
            # g = G*EvTokJmol*1000 cancels |g| (whose zero is arbitrary): rounding allowance 8 eps |g| T / dT^2 on both sides
            gmax_ = float(np.abs(c["state"]["G"]).max()) * units.EvTokJmol * 1000
            tt_ = np.array(c["temps"][:num], dtype="double")
            round_ = 8 * 2.22e-16 * gmax_ * float(tt_.max()) / float(np.diff(tt_).min()) ** 2 if len(tt_) > 1 else 0.0
            if np.abs(cp - arr[1]).max(initial=0.0) > 1e-6 * float(np.abs(arr[1]).max(initial=0.0)) + round_:
                run.broke("correspondence", "C_P (numerical) differs from model by %.3g (scale %.3g)" % (np.abs(cp - arr[1]).max(), np.abs(arr[1]).max()), c["info"])
            if not close(gam, arr[2], float(np.abs(arr[2]).max()), tol_fd):
                run.broke("correspondence", "Grueneisen parameter differs from model by %.3g" % np.abs(gam - arr[2]).max(), c["info"])
            run.count("finite-differences", section="correspondence")
    run.cov["correspondence"]["compared"] = ncmp
