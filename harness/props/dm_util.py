"""Helpers shared by the C06 and C08 checks: tables and phase factors exactly as the C kernels
of c/dynmat.c compute them, wire formatting for the Lean drivers."""

import math
import sys
from fractions import Fraction

import numpy as np

from ..common import q

sys.set_int_max_str_digits(0)  # exact rational answers of the Lean driver can be long

PI = 3.14159265358979323846  # the constant of c/dynmat.c (== math.pi as a double)


def flat(a):
    return " ".join(q(x) for x in np.asarray(a, dtype="double").ravel())


def flat_complex(a):
    a = np.asarray(a, dtype=complex).ravel()
    return " ".join(q(z.real) + " " + q(z.imag) for z in a)


def ints(a):
    return " ".join(str(int(x)) for x in np.asarray(a).ravel())


def parse_rats(line, shape=None):
    if line == "bad-op":
        return None
    a = np.array([float(Fraction(t)) for t in line.split()])
    return a if shape is None else a.reshape(shape)


def parse_complex(line, shape):
    a = parse_rats(line)
    if a is None:
        return None
    return (a[0::2] + 1j * a[1::2]).reshape(shape)


def dense_svecs(prim):
    from phonopy.structure.cells import sparse_to_dense_svecs

    svecs, multi = prim.get_smallest_vectors()
    if not prim.store_dense_svecs:
        svecs, multi = sparse_to_dense_svecs(svecs, multi)
    return svecs, multi


def s2pp_map(prim):
    p2p = prim.p2p_map
    return np.array([p2p[i] for i in prim.s2p_map], dtype="int64")


def c_phase(qv, vec, sign=+1):
    """cos/sin of the phase the way get_dm (sign=+1) / transform_dynmat_to_fc_ij (sign=-1)
    accumulate it: phase = 0; phase += q[m]*svec[m] (or -=); cos(phase*2*PI)."""
    phase = 0.0
    for m in range(3):
        if sign > 0:
            phase += float(qv[m]) * float(vec[m])
        else:
            phase -= float(qv[m]) * float(vec[m])
    x = phase * 2 * PI
    return math.cos(x), math.sin(x)


def phases_line(qv, svecs, multi, sign=+1):
    """for supercell atom k, primitive atom i: `m re im re im ...` (the images)"""
    ns, npa = multi.shape[:2]
    out = []
    for k in range(ns):
        for i in range(npa):
            m, adrs = int(multi[k, i, 0]), int(multi[k, i, 1])
            out.append(str(m))
            for l in range(m):
                c, s = c_phase(qv, svecs[adrs + l], sign)
                out.append(q(c))
                out.append(q(s))
    return " ".join(out)


def mass_sqrt(masses):
    masses = np.asarray(masses, dtype="double")
    n = len(masses)
    return np.array([[math.sqrt(masses[i] * masses[j]) for j in range(n)] for i in range(n)])


def tables_line(p2s, s2pp, nsym, perms):
    nt, ns = perms.shape
    return "%d %d %d %s %s %s %s" % (len(p2s), ns, nt, ints(p2s), ints(s2pp), ints(nsym), ints(perms))


def close(a, b, tol=1e-9, scale=None):
    a = np.asarray(a)
    b = np.asarray(b)
    scale = max(1.0, float(np.abs(b).max()) if scale is None and b.size else (scale or 1.0))
    return a.shape == b.shape and (a.size == 0 or float(np.abs(a - b).max()) <= tol * scale)


def maxdiff(a, b):
    a = np.asarray(a)
    b = np.asarray(b)
    return float(np.abs(a - b).max()) if a.size else 0.0


def pair_fc(scell, cutoff):
    """gen.pair_fc with enough periodic images for skewed supercells: a vector v = sum n_i a_i has
    |n_i| = |v . b_i| <= |v| |b_i| (b_i reciprocal vectors), fractional differences add at most 1."""
    from .. import gen

    rec = np.linalg.inv(scell.cell)
    k = int(np.ceil(cutoff * np.linalg.norm(rec, axis=0).max())) + 1
    return gen.pair_fc(scell, cutoff, images=max(2, k))


def random_born_eps(rng, npa, scale=2.0):
    """random (unsymmetrised) Born charges and a symmetric positive definite dielectric tensor
    with entries k/8."""
    born = np.array([[[rng.randint(-16, 16) / 8.0 for _ in range(3)] for _ in range(3)] for _ in range(npa)])
    born += np.array([np.eye(3) * (scale if a % 2 == 0 else -scale) for a in range(npa)])
    a = np.array([[rng.randint(-4, 4) / 8.0 for _ in range(3)] for _ in range(3)])
    eps = a @ a.T + np.eye(3) * (2.0 + rng.randint(0, 16) / 8.0)
    return born, eps
