"""C06 — force constants <-> dynamical matrices at commensurate points is lossless."""

import itertools

import numpy as np

from .. import common, gen
from . import dm_util as U

TOL = 1e-9


def _cell(name):
    """prototype cell; polonium has no tabulated mass, give it one (masses are inputs)"""
    cell, cen = gen.make_cell(name)
    if cell.masses is None:
        cell.masses = [209.0] * len(cell)
    return cell, cen


def _mat_tokens(m):
    return U.ints(np.asarray(m))


def _canon_points(pts, det):
    """float commensurate points -> integer numerators over det, or None if not k/det to 1e-9"""
    x = np.asarray(pts, dtype="double") * det
    k = np.rint(x)
    if np.abs(x - k).max() > 1e-9:
        return None
    return (k.astype(int) % det)


def _random_smat(rng, lim=3, max_det=12):
    while True:
        m = np.array([[rng.randint(-lim, lim) for _ in range(3)] for _ in range(3)])
        d = int(round(np.linalg.det(m)))
        if 1 <= d <= max_det:
            return m


# ------------------------------------------------------------------------------------------
# part A: the point sets
# ------------------------------------------------------------------------------------------

def _points_part(run, rng, lines, meta, thorough):
    from phonopy.harmonic.dynmat_to_fc import (
        categorize_commensurate_points,
        get_commensurate_points,
        get_commensurate_points_in_integers,
    )
    from phonopy.structure.snf import SNF3x3

    if thorough:
        mats = []
        ent = (-1, 0, 1, 2)
        for t in itertools.product(ent, repeat=9):
            m = np.array(t).reshape(3, 3)
            d = int(round(np.linalg.det(m)))
            if 1 <= d <= 8:
                mats.append(m)
        rng.shuffle(mats)
        mats = mats[:30000]
        mats += [_random_smat(rng) for _ in range(1500)]
        mats += [_random_smat(rng, lim=5, max_det=40) for _ in range(500)]
    else:
        mats = gen.supercell_matrices(rng, max_det=8, count=90)
        mats += [_random_smat(rng) for _ in range(50)]
        mats += [_random_smat(rng, lim=5, max_det=30) for _ in range(12)]
    for S in mats:
        S = np.array(S, dtype=int)
        det = int(round(np.linalg.det(S)))
        info = dict(supercell_matrix=S.tolist(), det=det)
        diag = bool((np.diag(np.diagonal(S)) == S).all())
        run.case(("points", S.tolist()), nontrivial=not diag)
        run.count("points: %s det=%d" % ("diagonal" if diag else "non-diagonal", det) if det <= 8 else "points: det>8")

        # ---- implementation
        pts = get_commensurate_points(S)
        ipts = np.array(get_commensurate_points_in_integers(S), dtype=int)
        snf = SNF3x3(S.T)
        snf.run()
        D, P, Q = np.array(snf.D), np.array(snf.P), np.array(snf.Q)
        ii, ij = categorize_commensurate_points(ipts)

        # ---- oracle: the property itself on the implementation
        K = _canon_points(pts, det)
        if len(pts) != det:
            run.violation("get_commensurate_points", "count", "%d points for |det S| = %d" % (len(pts), det), info)
        if K is None:
            run.violation("get_commensurate_points", "not-multiples-of-1/det", "points are not k/det", info)
        else:
            if len({tuple(k) for k in K}) != len(K):
                run.violation("get_commensurate_points", "duplicates-mod-1", "points coincide modulo reciprocal lattice vectors", info)
            if ((K @ S) % det != 0).any():
                run.violation("get_commensurate_points", "not-commensurate", "S^T q is not integral", info)
            if np.abs(np.asarray(pts) @ S - np.rint(np.asarray(pts) @ S)).max() > 1e-9:
                run.violation("get_commensurate_points", "not-commensurate", "S^T q is not integral (float)", info)
            if (np.asarray(pts) < -1e-9).any() or (np.asarray(pts) > 1 + 1e-9).any():
                # representation, not the property (points are only defined modulo reciprocal lattice vectors)
                run.count("observation: get_commensurate_points returned a representative outside [0,1]")
        if len(ipts) != det:
            run.violation("get_commensurate_points_in_integers", "count", "%d points for |det S| = %d" % (len(ipts), det), info)
        if len({tuple(k) for k in ipts % det}) != len(ipts):
            run.violation("get_commensurate_points_in_integers", "duplicates-mod-1", "integer points coincide modulo N", info)
        if ((ipts @ S) % det != 0).any():
            run.violation("get_commensurate_points_in_integers", "not-commensurate", "S^T q is not integral", info)
        if K is not None and {tuple(k) for k in K} != {tuple(k) for k in ipts % det}:
            run.violation("get_commensurate_points_in_integers", "differs-from-classic-set",
                          "the SNF point set differs from get_commensurate_points modulo 1", info)
        # categorisation is a partition into self-inverse points and +-pairs
        n = len(ipts)
        partners = []
        okc = True
        for i in ii:
            okc &= bool(((2 * ipts[i]) % n == 0).all())
        for i in ij:
            js = [j for j in range(n) if ((ipts[i] + ipts[j]) % n == 0).all()]
            okc &= len(js) == 1 and js[0] > i
            partners += js
        allidx = sorted(list(ii) + list(ij) + partners)
        if not okc or allidx != list(range(n)):
            # not part of the statement of C06: a statement about the model (categorize_partition) -> correspondence
            run.broke("correspondence", "categorize_commensurate_points: ii/ij/partners do not partition the points (model theorem categorize_partition says they do)",
                      dict(info, ii=list(map(int, ii)), ij=list(map(int, ij))))
        run.count("point-set oracle", section="oracle")

        # ---- correspondence
        lines.append("comm " + _mat_tokens(S))
        expect = None if K is None else " ".join(map(str, [det] + [int(x) for x in K.ravel()]))
        meta.append(("comm", info, lambda line, e=expect: None if line == e else "model %r vs implementation %r" % (line[:200], (e or "")[:200])))
        lines.append("snfwf %s %s %s %s" % (_mat_tokens(S), U.ints(D.diagonal()), _mat_tokens(P), _mat_tokens(Q)))
        meta.append(("snf-certificate", info, lambda line: None if line == "true" else "snfWf = %s on SNF3x3's D, P, Q" % line))
        lines.append("commint %s %s" % (U.ints(D.diagonal()), _mat_tokens(Q)))
        e2 = U.ints(ipts)
        meta.append(("commint", info, lambda line, e=e2: None if line == e else "model %r vs implementation %r" % (line[:200], e[:200])))
        lines.append("categorize %d %s" % (n, U.ints(ipts)))
        e3 = " ".join(map(str, [len(ii)] + list(map(int, ii)) + list(map(int, ij))))
        meta.append(("categorize", info, lambda line, e=e3: None if line == e else "model %r vs implementation %r" % (line[:200], e[:200])))
        if len(run.cov["samples"]) < 1:
            run.sample(dict(kind="points", supercell_matrix=S.tolist(), points=np.asarray(pts).tolist(), integer_points=ipts.tolist(), ii=list(map(int, ii)), ij=list(map(int, ij))))

    # malformed stream: det <= 0 must be rejected (or, if accepted, be correct)
    for S in ([[1, 0, 0], [0, 1, 0], [0, 0, -2]], [[0, 1, 0], [1, 0, 0], [0, 0, 1]], [[1, 1, 0], [1, 1, 0], [0, 0, 1]]):
        S = np.array(S)
        det = int(round(np.linalg.det(S)))
        try:
            pts = get_commensurate_points(S)
            K = _canon_points(pts, abs(det)) if det != 0 and len(pts) else None
            if det == 0 or K is None or len(K) != abs(det) or len({tuple(k) for k in K}) != abs(det) or ((K @ S) % abs(det) != 0).any():
                run.violation("get_commensurate_points", "malformed-accepted", "det = %d accepted with a wrong point set" % det,
                              dict(supercell_matrix=S.tolist()))
            run.count("malformed det<=0: accepted and correct")
        except Exception:
            run.count("malformed det<=0: rejected")
        lines.append("comm " + _mat_tokens(S))
        meta.append(("comm-malformed", dict(supercell_matrix=S.tolist()), lambda line: None if line == "none" else "model accepts det <= 0: %r" % line[:80]))


# ------------------------------------------------------------------------------------------
# part B: the transforms
# ------------------------------------------------------------------------------------------

def _lat_data(prim, cp, svecs, multi, s2pp, p2s, det):
    """integer data of the structural phase description + numeric check of the hypothesis"""
    ns = len(s2pp)
    kq = _canon_points(cp, det)
    R = np.zeros((ns, 3), dtype=int)
    bad = 0.0
    for k in range(ns):
        v = svecs[multi[k, s2pp[k], 1]]
        R[k] = np.rint(v).astype(int)
        bad = max(bad, float(np.abs(v - R[k]).max()))
    if kq is None:
        return None, R, 1.0
    # hypothesis: e_q(svec(k,i,l)) = e_q(svec(k0, i, 0)) * zeta^(kq.(R_k - R_k0)),  k0 = p2s[s2pp k]
    err = 0.0
    for iq, qv in enumerate(cp):
        e = np.exp(2j * np.pi * (svecs @ qv))
        for k in range(ns):
            k0 = p2s[s2pp[k]]
            z = np.exp(2j * np.pi * float(kq[iq] @ (R[k] - R[k0])) / det)
            for i in range(multi.shape[1]):
                m, a = multi[k, i]
                ref = e[multi[k0, i, 1]] * z
                err = max(err, float(np.abs(e[a:a + m] - ref).max()))
    return kq, R, max(err, bad)


def _transform_part(run, rng, lines, meta, thorough):
    from phonopy import Phonopy
    from phonopy.harmonic import force_constants as F
    from phonopy.harmonic.dynamical_matrix import DynamicalMatrix
    from phonopy.harmonic.dynmat_to_fc import DynmatToForceConstants

    names = ["sc", "cscl", "nacl_prim", "zincblende_prim", "hcp", "bcc", "bct", "triclinic", "mono_P", "rhombo", "fcc"]
    if thorough:
        names += ["wurtzite", "perovskite", "rutile", "ortho_C", "nacl"]
    ncases = 300 if thorough else 24
    nmax = 40 if thorough else 16
    made = attempts = 0
    while made < ncases and attempts < 20 * ncases:
        attempts += 1
        name = rng.choice(names)
        cell, cen = _cell(name)
        smat = rng.choice(gen.supercell_matrices(rng, max_det=8, count=16))
        pm = rng.choice(["auto", "P"]) if cen != "P" else "P"
        det_u = int(round(np.linalg.det(smat)))
        if len(cell) * det_u > nmax * (4 if pm == "auto" and cen != "P" else 1):
            continue
        try:
            ph = gen.make_phonopy(cell, smat, pmat=pm)
        except Exception:
            run.count("constructor-rejected")
            continue
        prim, scell = ph.primitive, ph.supercell
        npa, ns = len(prim), len(scell)
        if ns > nmax or ns // npa < 2:
            continue
        variant = "omp" if made % 2 == 0 else "ser"
        common.switch_variant(variant)
        svecs, multi = U.dense_svecs(prim)
        s2pp = U.s2pp_map(prim)
        p2s = np.array(prim.p2s_map, dtype=int)
        s2p = np.array(prim.s2p_map, dtype=int)
        N = ns // npa
        smat_p = np.rint(np.linalg.inv(prim.primitive_matrix)).astype(int)
        full = rng.choice([True, False])
        kind = rng.choice(["pair", "pair", "random-periodic"])
        if kind == "pair":
            cutoff = rng.choice([0.45, 0.75, 1.1]) * gen.min_lattice_vector(scell.cell)
            cutoff = max(cutoff, 1.05 * min(np.linalg.norm(prim.cell, axis=1)) * 0.8)
            phi_raw = U.pair_fc(scell, cutoff)
            phi = phi_raw
            if not U.close(F.compact_fc_to_full_fc(prim, F.full_fc_to_compact_fc(prim, phi)), phi, 1e-12):
                run.count("generator: pair fc not periodic (case skipped)")
                continue
        else:
            fcc0 = gen.rand_rational_array(rng, (npa, ns, 3, 3))
            phi_raw = F.compact_fc_to_full_fc(prim, fcc0)
            phi = (phi_raw + phi_raw.transpose(1, 0, 3, 2)) / 2
        fc_used = phi.copy() if full else F.full_fc_to_compact_fc(prim, phi)
        scale = max(1.0, float(np.abs(phi).max()))
        maxm = int(multi[:, :, 0].max())
        info = dict(cell=name, smat=np.asarray(smat).tolist(), pmat=pm, layout="full" if full else "compact", fc=kind,
                    n_patom=npa, n_satom=ns, max_multiplicity=maxm, variant=variant)
        run.case(("transform", name, np.asarray(smat).tolist(), pm, full, kind, fc_used.tobytes()), nontrivial=maxm > 1 or not (np.diag(np.diagonal(smat_p)) == smat_p).all())
        run.count("transform %s" % name)
        run.count("layout %s / %s" % ("full" if full else "compact", variant))
        if maxm > 1:
            run.count("transform: pair multiplicity > 1 present")
        run.sample(dict(kind="transform", **info))
        made += 1

        d2f = DynmatToForceConstants(prim, scell, is_full_fc=full, use_openmp=(variant == "omp" and rng.random() < 0.5))
        cp = np.array(d2f.commensurate_points)
        ms = U.mass_sqrt(prim.masses)

        # ---- implementation: forward at the commensurate points (public API)
        ph.force_constants = fc_used.copy()
        ph.run_qpoints(cp, with_dynamical_matrices=True)
        dms = np.array(ph.get_qpoints_dict()["dynamical_matrices"])

        # ---- correspondence, forward transform: DynamicalMatrix.run(q, lang) vs model
        dmobj = DynamicalMatrix(scell, prim, fc_used.copy())
        if full:
            t_p2s, t_s2p, nr = p2s, s2p, ns
        else:
            t_p2s, t_s2p, nr = np.arange(npa), s2pp, npa
        qs = [(cp[rng.randrange(len(cp))], "commensurate"), (np.array([rng.randint(-16, 16) / 16.0 + 0.013 for _ in range(3)]), "generic")]
        for qv, qk in qs:
            for lang in (["C", "Py"] if full else ["C"]):
                dmobj.run(qv, lang=lang)
                impl = np.array(dmobj.dynamical_matrix)
                lines.append("dynmat %d %d %d %s %s %s %s %s" % (npa, ns, nr, U.ints(t_p2s), U.ints(t_s2p), U.flat(fc_used), U.flat(ms),
                                                                  U.phases_line(qv, svecs, multi, +1)))
                meta.append(("dynmat-" + lang, dict(info, q=list(map(float, qv)), qkind=qk),
                             lambda line, impl=impl, npa=npa: _cmp(U.parse_complex(line, (3 * npa, 3 * npa)), impl)))
        # API forward == DynamicalMatrix.run at the same point (ties run_qpoints to the modelled routine)
        dmobj.run(cp[-1])
        if not U.close(dms[-1], dmobj.dynamical_matrix):
            # ties the public path to the modelled routine (the agreement of access paths itself is C14's property)
            run.broke("correspondence", "dynamical matrix of Phonopy.run_qpoints differs from DynamicalMatrix.run (the modelled routine)", info)

        # ---- implementation: inverse transform; correspondence
        tl = U.tables_line(*gen.compact_tables(ph))
        ph_lines = " ".join(U.phases_line(qv, svecs, multi, -1) for qv in cp)
        inputs = [("forward", dms)]
        if made % 2 == 0:
            rnd = gen.rand_rational_array(rng, (N, 3 * npa, 3 * npa)) + 1j * gen.rand_rational_array(rng, (N, 3 * npa, 3 * npa))
            inputs.append(("random", rnd))
        backs = {}
        for tag, dmin in inputs:
            d2f.dynamical_matrices = dmin
            for lang in ("C", "Py"):
                d2f.run(lang=lang)
                back = np.array(d2f.force_constants)
                backs[(tag, lang)] = back
                op = "d2ffull" if full else ("d2f" if lang == "C" else "d2fpy")
                lines.append("%s %s %d %s %s %s" % (op, tl, N, U.flat(ms), U.flat_complex(dmin), ph_lines))
                meta.append(("inverse-%s-%s" % (lang, "full" if full else "compact"), dict(info, dm=tag),
                             lambda line, back=back: _cmp(U.parse_rats(line, back.shape), back)))

        # ---- certificate of the structural phase description (the theorems' hypothesis)
        kq, R, herr = _lat_data(prim, cp, svecs, multi, s2pp, p2s, N)
        run.count("phase-structure hypothesis checked (max err %.0e)" % (10 ** np.ceil(np.log10(max(herr, 1e-17)))), section="correspondence")
        if kq is None or herr > 1e-9:
            run.broke("correspondence", "phases of the implementation's shortest vectors do not have the structural form assumed by the theorems (err %.3g)" % herr, info)
        else:
            lines.append("latwf %d %d %d %d %s %s %s %s" % (npa, ns, N, N, U.ints(s2pp), U.ints(p2s), U.ints(kq), U.ints(R)))
            meta.append(("lattice-certificate", info, lambda line: None if line == "true" else "Lat.wf = %s on the implementation's tables" % line))

        # ---- oracle: the round trips on the implementation
        for lang in ("C", "Py"):
            back = backs[("forward", lang)]
            ref = fc_used
            if not U.close(back, ref, TOL, scale):
                run.violation("DynmatToForceConstants.run", "roundtrip-fc-%s-%s%s" % (lang, "full" if full else "compact", "-multi" if maxm > 1 else ""),
                              "fc -> D(q) at commensurate points -> fc differs from the input by %.3g" % U.maxdiff(back, ref), info)
        if not U.close(backs[("forward", "C")], backs[("forward", "Py")], TOL, scale):
            run.violation("DynmatToForceConstants.run", "C-ne-Py", "compiled and Python inverse transforms differ by %.3g" % U.maxdiff(backs[("forward", "C")], backs[("forward", "Py")]), info)
        # D -> fc -> D
        ph2 = gen.make_phonopy(cell, smat, pmat=pm)
        ph2.force_constants = backs[("forward", "C")].copy()
        ph2.run_qpoints(cp, with_dynamical_matrices=True)
        dms2 = np.array(ph2.get_qpoints_dict()["dynamical_matrices"])
        if not U.close(dms2, dms, TOL, max(1.0, float(np.abs(dms).max()))):
            run.violation("DynmatToForceConstants.run", "roundtrip-dm", "D -> fc -> D differs by %.3g" % U.maxdiff(dms2, dms), info)
        # a periodic array that is not index-permutation symmetric comes back symmetrised
        if kind != "pair":
            fcr = phi_raw.copy() if full else F.full_fc_to_compact_fc(prim, phi_raw)
            ph3 = gen.make_phonopy(cell, smat, pmat=pm)
            ph3.force_constants = fcr
            ph3.run_qpoints(cp, with_dynamical_matrices=True)
            d2f.dynamical_matrices = ph3.get_qpoints_dict()["dynamical_matrices"]
            d2f.run()
            if not U.close(d2f.force_constants, fc_used, TOL, scale):
                # outside the statement (it speaks of invariant force constants): a consequence of the model (Hermitisation)
                run.broke("correspondence", "round trip of a periodic non-symmetric array is not its index-permutation symmetrisation (diff %.3g), as the model predicts" % U.maxdiff(d2f.force_constants, fc_used), info)
        run.count("round-trip oracle", section="oracle")
        _storage_variants(run, rng, lines, meta, cell, smat, pm, prim, scell, full, fc_used, cp, dms, backs, dict(info),
                          tl, N, ms, ph_lines, scale, exact32=(kind != "pair"))
    common.switch_variant("omp")


def _layouts(a, rng, allow32=False):
    """the same logical array in the storage forms a caller may legally hand over"""
    a = np.asarray(a)
    out = [("fortran-order", np.asfortranarray(a))]
    if a.ndim >= 2:
        out.append(("transposed-view", np.ascontiguousarray(a.T).T))  # logical values of a, strides reversed
        wide = np.zeros(a.shape[:-1] + (a.shape[-1] + 2,), dtype=a.dtype)
        wide[..., 1:-1] = a
        out.append(("column-slice-of-wider-table", wide[..., 1:-1]))
    big = np.zeros(a.shape[:-1] + (2 * a.shape[-1],), dtype=a.dtype)
    big[..., ::2] = a
    out.append(("strided-view", big[..., ::2]))
    out.append(("nested-list", a.tolist()))
    if allow32 and a.dtype == np.float64 and (a.astype("float32").astype("float64") == a).all():
        out.append(("float32", a.astype("float32")))
    if a.dtype == np.float64 and (np.rint(a) == a).all():
        out.append(("int64", np.rint(a).astype("int64")))
    for tag, v in out:
        if not isinstance(v, list):
            assert np.array_equal(np.asarray(v, dtype=a.dtype if tag not in ("float32", "int64") else None).astype(a.dtype), a)
    return out


def _storage_variants(run, rng, lines, meta, cell, smat, pm, prim, scell, full, fc_used, cp, dms, backs, info, tl, N, ms, ph_lines, scale, exact32):
    """Every array a caller can hand to the public entry points (commensurate_points, dynamical_matrices, force
    constants, masses) in non-default storage: the results must equal the C-contiguous float64 case (C and Py)."""
    import warnings

    from phonopy.harmonic.dynmat_to_fc import DynmatToForceConstants

    ref = backs[("forward", "C")]
    ntest = 0

    def check_back(tag, what, d2f, lang):
        nonlocal ntest
        d2f.run(lang=lang)
        ntest += 1
        got = np.array(d2f.force_constants)
        if not U.close(got, ref, TOL, scale):
            run.violation("DynmatToForceConstants.%s" % what, "storage-%s-%s-%s" % (tag, lang, "full" if full else "compact"),
                          "%s given as %s: force constants differ from the C-contiguous float64 case by %.3g" % (what, tag, U.maxdiff(got, ref)),
                          dict(info, argument=what, storage=tag, lang=lang))
        return got

    # commensurate points through the setter and through the init argument
    for tag, v in _layouts(cp, rng):
        if tag == "int64":
            continue
        for lang in ("C", "Py"):
            d2f = DynmatToForceConstants(prim, scell, is_full_fc=full)
            d2f.commensurate_points = v
            d2f.dynamical_matrices = dms
            got = check_back(tag, "commensurate_points", d2f, lang)
        if tag == "transposed-view":
            # correspondence: the model is fed with the caller's logical values
            op = "d2ffull" if full else "d2f"
            lines.append("%s %s %d %s %s %s" % (op, tl, N, U.flat(ms), U.flat_complex(dms), ph_lines))
            meta.append(("inverse-C-storage-variant", dict(info, storage=tag), lambda line, got=got: _cmp(U.parse_rats(line, got.shape), got)))
        with warnings.catch_warnings():
            warnings.simplefilter("ignore")
            d2f = DynmatToForceConstants(prim, scell, is_full_fc=full, commensurate_points=v, dynamical_matrices=dms)
        try:
            check_back(tag + "(init)", "commensurate_points", d2f, "C")
        except TypeError as e:  # a legal array_like handed to the constructor must not reach the kernel unconverted
            run.violation("DynmatToForceConstants.commensurate_points", "storage-%s(init)-C-rejected" % tag,
                          "commensurate_points given as %s to the constructor: run() raises %s" % (tag, str(e)[:120]), dict(info, argument="commensurate_points", storage=tag))
    # dynamical matrices
    for tag, v in _layouts(dms, rng):
        if tag == "nested-list" and dms.size > 4000:
            v = [m for m in dms]  # list of arrays (what get_qpoints_dict style code hands over)
        for lang in ("C", "Py"):
            d2f = DynmatToForceConstants(prim, scell, is_full_fc=full)
            d2f.dynamical_matrices = v
            check_back(tag, "dynamical_matrices", d2f, lang)
    # force constants and masses into the forward transform (Phonopy setters, DynamicalMatrix)
    from phonopy.harmonic.dynamical_matrix import DynamicalMatrix

    variants = _layouts(fc_used, rng, allow32=exact32)
    for tag, v in variants:
        if tag == "nested-list" and fc_used.size > 6000:
            continue
        ph = gen.make_phonopy(cell, smat, pmat=pm)
        ph.force_constants = v if not isinstance(v, list) else np.array(v)
        ph.run_qpoints(cp, with_dynamical_matrices=True)
        got = np.array(ph.get_qpoints_dict()["dynamical_matrices"])
        ntest += 1
        if not U.close(got, dms, TOL, max(1.0, float(np.abs(dms).max()))):
            run.violation("Phonopy.force_constants", "storage-%s-%s" % (tag, "full" if full else "compact"),
                          "force constants given as %s: dynamical matrices differ from the C-contiguous float64 case by %.3g" % (tag, U.maxdiff(got, dms)),
                          dict(info, argument="force_constants", storage=tag))
        dmo = DynamicalMatrix(scell, prim, v)
        for lang in (["C", "Py"] if full else ["C"]):
            dmo.run(cp[-1], lang=lang)
            ntest += 1
            if not U.close(np.array(dmo.dynamical_matrix), dms[-1], TOL, max(1.0, float(np.abs(dms).max()))):
                run.violation("DynamicalMatrix", "storage-%s-%s-%s" % (tag, lang, "full" if full else "compact"),
                              "force constants given as %s: D(q) differs from the C-contiguous float64 case by %.3g" % (tag, U.maxdiff(dmo.dynamical_matrix, dms[-1])),
                              dict(info, argument="force_constants", storage=tag, lang=lang))
    m0 = np.array(prim.masses, dtype="double")
    for tag, v in _layouts(m0, rng, allow32=True):
        ph = gen.make_phonopy(cell, smat, pmat=pm)
        ph.force_constants = fc_used.copy()
        try:
            ph.masses = v
        except Exception as e:  # a legal array_like must be accepted
            run.violation("Phonopy.masses", "storage-%s-rejected" % tag, "masses given as %s raise %s" % (tag, type(e).__name__), dict(info, storage=tag))
            continue
        ph.run_qpoints(cp, with_dynamical_matrices=True)
        got = np.array(ph.get_qpoints_dict()["dynamical_matrices"])
        ntest += 1
        if not U.close(got, dms, 1e-6 if tag == "float32" else TOL, max(1.0, float(np.abs(dms).max()))):
            run.violation("Phonopy.masses", "storage-%s" % tag, "masses given as %s: dynamical matrices differ by %.3g" % (tag, U.maxdiff(got, dms)), dict(info, storage=tag))
    run.count("storage-variant oracle (arrays handed over in non-default layout)", n=ntest, section="oracle")


def _ph2ph_options_part(run, rng, thorough):
    """ph2ph / ph2fc on objects built with non-default constructor options in combination: the dynamical matrices of the
    interpolated object at the commensurate points of the ORIGINAL supercell must equal the original's."""
    import warnings

    from phonopy.harmonic import force_constants as F
    from phonopy.harmonic.dynmat_to_fc import get_commensurate_points, ph2fc

    nondiag = [np.array(m) for m in ([[2, 1, 0], [0, 2, 0], [0, 0, 1]], [[2, 0, 0], [1, 2, 0], [0, 1, 2]], [[-1, 1, 1], [1, -1, 1], [1, 1, -1]],
                                      [[1, 1, 0], [0, 2, 0], [0, 0, 1]], [[2, 0, 0], [1, 1, 0], [0, 0, 2]])]
    factors = [np.diag([2, 1, 1]), np.diag([1, 2, 1]), np.diag([1, 1, 2]), np.array([[1, 1, 0], [0, 2, 0], [0, 0, 1]])]
    names = ["nacl_prim", "cscl", "zincblende_prim", "triclinic", "hcp", "bcc"]
    ncases = 12 if thorough else 4
    for c in range(ncases):
        name = names[(c + run.seed) % len(names)]
        cell, cen = _cell(name)
        opts = {}
        # every case combines several options; SNF x non-diagonal in at least half of them
        snf = c % 2 == 0
        smat = nondiag[rng.randrange(len(nondiag))] if (snf or rng.random() < 0.5) else np.diag([2, 1, 2])
        if snf:
            opts["use_SNF_supercell"] = True
            # a matrix for which the SNF and the old-style builders order the supercell atoms differently
            from phonopy.structure.cells import get_supercell

            order = list(range(len(nondiag)))
            rng.shuffle(order)
            for k in order:
                a = get_supercell(cell, nondiag[k], is_old_style=True)
                b = get_supercell(cell, nondiag[k], is_old_style=False)
                dpos = a.scaled_positions - b.scaled_positions
                if len(a) == len(b) and np.abs(dpos - np.rint(dpos)).max() > 1e-6:
                    smat = nondiag[k]
                    run.count("SNF supercell with an atom order different from the old-style builder")
                    break
        if rng.random() < 0.5:
            opts["store_dense_svecs"] = False
        if rng.random() < 0.4:
            opts["is_symmetry"] = False
        if rng.random() < 0.4:
            opts["symprec"] = 1e-4
        if rng.random() < 0.5:
            opts["factor"] = rng.choice([521.47083, 98.1761, 1.0])
        if c == 1 or (thorough and c % 4 == 1):
            opts["frequency_scale_factor"] = rng.choice([1.1, 0.95])
        pm = "P" if cen == "P" else rng.choice(["P", "auto"])
        M = factors[rng.randrange(len(factors))]
        smat2 = smat @ M
        if len(cell) * abs(int(round(np.linalg.det(smat2)))) > (64 if thorough else 40):
            smat, smat2 = nondiag[3], nondiag[3] @ np.diag([1, 1, 2])
        variant = "omp" if c % 2 else "ser"
        common.switch_variant(variant)
        with warnings.catch_warnings():
            warnings.simplefilter("ignore")
            try:
                ph = gen.make_phonopy(cell, smat, pmat=pm, **opts)
            except Exception:
                run.count("constructor-rejected")
                continue
            full = rng.choice([True, False])
            cutoff = max(rng.choice([0.6, 1.0]) * gen.min_lattice_vector(ph.supercell.cell), 0.85 * min(np.linalg.norm(ph.primitive.cell, axis=1)))
            phi = U.pair_fc(ph.supercell, cutoff)
            if not U.close(F.compact_fc_to_full_fc(ph.primitive, F.full_fc_to_compact_fc(ph.primitive, phi)), phi, 1e-12):
                run.count("generator: pair fc not periodic (case skipped)")
                continue
            ph.force_constants = phi if full else F.full_fc_to_compact_fc(ph.primitive, phi)
            method = None
            if c % 3 == 2 and opts.get("is_symmetry", True):
                method = rng.choice(["wang", "gonze"])
                born, eps = U.random_born_eps(rng, len(ph.primitive))
                ph.nac_params = {"born": born, "dielectric": eps, "factor": 14.4, "method": method}
            info = dict(cell=name, smat=smat.tolist(), target=smat2.tolist(), pmat=pm, options={k: (v if not isinstance(v, np.generic) else float(v)) for k, v in opts.items()},
                        layout="full" if full else "compact", nac=method, variant=variant)
            run.case(("ph2ph-options", name, smat.tolist(), smat2.tolist(), pm, sorted(opts.items()), full, method), nontrivial=True)
            run.count("ph2ph with options " + "+".join(sorted(opts)) if opts else "ph2ph with default options")
            smat_p = np.rint(np.linalg.inv(ph.primitive.primitive_matrix)).astype(int)
            cp = get_commensurate_points(smat_p)
            ph.run_qpoints(cp, with_dynamical_matrices=True)
            d0 = np.array(ph.get_qpoints_dict()["dynamical_matrices"])
            sc = max(1.0, float(np.abs(d0).max()))
            tol = 1e-6 if method == "gonze" else TOL
            use_ph2fc = c % 2 == 1
            if use_ph2fc:
                fc2 = ph2fc(ph, smat2, with_nac=method is not None)
                ph2 = ph.ph2ph(smat2, with_nac=method is not None)
                if not U.close(np.array(ph2.force_constants), np.array(fc2), 1e-12, max(1.0, float(np.abs(fc2).max()))):
                    run.violation("ph2fc", "differs-from-ph2ph", "ph2fc and Phonopy.ph2ph return different force constants", info)
            else:
                ph2 = ph.ph2ph(smat2, with_nac=method is not None)
            if ph2.nac_params is not None:
                ph2.nac_params = None
            ph2.run_qpoints(cp, with_dynamical_matrices=True)
            d1 = np.array(ph2.get_qpoints_dict()["dynamical_matrices"])
        run.count("ph2ph options oracle", section="oracle")
        if not U.close(d1, d0, tol, sc):
            klass = "dynmat-not-preserved-frequency-scale-factor" if "frequency_scale_factor" in opts and _only_fsf(d1, d0, opts) else "dynmat-not-preserved-options"
            run.violation("Phonopy.ph2ph", klass,
                          "object built with %s: dynamical matrices at the original commensurate points change by %.3g (scale %.3g)" % (sorted(opts), U.maxdiff(d1, d0), sc), info)
    common.switch_variant("omp")


def _only_fsf(d1, d0, opts):
    """the deviation is the pure factor frequency_scale_factor**2 (the double application)"""
    f = float(opts["frequency_scale_factor"])
    return U.close(d1, d0 * f * f, 1e-9, max(1.0, float(np.abs(d0).max())))


def _relabel_part(run, rng, lines, meta, thorough):
    """Description invariance: the same crystal with relabelled lattice vectors (left-handed: det M = -1; sheared /
    cyclic: det +1) and the supercell matrix M^-T S M^T of the same supercell lattice.  The property's oracle runs ON
    the relabelled description, and where the statement implies the same physical quantity the results are compared
    with the original description (commensurate point set as Cartesian q modulo reciprocal lattice; recovered force
    constants between corresponding atom pairs)."""
    from phonopy.harmonic import force_constants as F
    from phonopy.harmonic.dynmat_to_fc import DynmatToForceConstants, get_commensurate_points

    names = ["nacl_prim", "cscl", "triclinic", "zincblende_prim", "hcp", "mono_P", "wurtzite"]
    smats = [np.array(m) for m in ([[2, 0, 0], [0, 1, 0], [0, 0, 2]], [[2, 0, 0], [1, 2, 0], [0, 0, 1]], [[1, 1, 0], [0, 2, 0], [0, 0, 1]],
                                    [[2, 1, 0], [0, 1, 0], [-1, 0, 2]], [[1, 0, 1], [0, 2, 0], [0, 0, 2]], [[3, 0, 0], [0, 1, 0], [0, 0, 1]])]
    left = ["swap12", "negate3", "invert"]
    right = ["shear", "cyclic"]
    ncases = 8 if thorough else 2
    for c in range(ncases):
        mname = left[(c // 2 + run.seed) % 3] if c % 2 == 0 else right[(c // 2 + run.seed) % 2]
        M = np.array(gen.UNIMODULAR[mname])
        name = names[(c + run.seed) % len(names)]
        cell, cen = _cell(name)
        S = smats[rng.randrange(len(smats))]
        if len(cell) * int(round(np.linalg.det(S))) > (40 if thorough else 24):
            S = smats[0] if len(cell) <= 6 else smats[5]
        cell2, qmap, smap = gen.relabelled_cell(cell, M)
        S2 = smap(S)
        variant = "omp" if c % 2 == 0 else "ser"
        common.switch_variant(variant)
        info = dict(cell=name, relabelling=mname, M=M.tolist(), smat=S.tolist(), smat_relabelled=S2.tolist(), lattice_relabelled=np.asarray(cell2.cell).tolist(),
                    scaled_positions_relabelled=np.asarray(cell2.scaled_positions).tolist(), symbols=list(cell2.symbols), variant=variant)
        try:
            ph1 = gen.make_phonopy(cell, S, pmat="P")
        except Exception:
            run.count("constructor-rejected")
            continue
        try:
            ph2 = gen.make_phonopy(cell2, S2, pmat="P")
        except Exception as e:
            run.count("relabelled description rejected by the constructor (%s)" % type(e).__name__)
            continue
        run.case(("relabel", name, mname, S.tolist()), nontrivial=True)
        run.count("relabelled description %s (det M = %d)" % (mname, int(round(np.linalg.det(M)))))
        prim1, prim2, sc1, sc2 = ph1.primitive, ph2.primitive, ph1.supercell, ph2.supercell
        # ---- commensurate points on the relabelled description, and the same SET of Cartesian q-points
        S1p = np.rint(np.linalg.inv(prim1.primitive_matrix)).astype(int)
        S2p = np.rint(np.linalg.inv(prim2.primitive_matrix)).astype(int)
        det = int(round(np.linalg.det(S2p)))
        cp1, cp2 = get_commensurate_points(S1p), get_commensurate_points(S2p)
        K2 = _canon_points(cp2, det)
        if len(cp2) != det or K2 is None or len({tuple(k) for k in K2}) != det or ((K2 @ S2p) % det != 0).any():
            run.violation("get_commensurate_points", "relabelled-description", "count/distinctness/integrality fails on the relabelled description", info)
        else:
            K1m = _canon_points(np.array([qmap(q_) for q_ in cp1]), det)
            if K1m is None or {tuple(k) for k in K1m} != {tuple(k) for k in K2}:
                run.violation("get_commensurate_points", "commensurate-set-differs-between-descriptions",
                              "the commensurate points of the two descriptions are different sets of Cartesian q-points modulo the reciprocal lattice", info)
        lines.append("comm " + _mat_tokens(S2p))
        expect = None if K2 is None else " ".join(map(str, [det] + [int(x) for x in K2.ravel()]))
        meta.append(("comm-relabelled", info, lambda line, e=expect: None if line == e else "model %r vs implementation %r" % (line[:200], (e or "")[:200])))
        # ---- round trips on both descriptions
        cutoff = max(0.8 * gen.min_lattice_vector(sc1.cell), 0.85 * min(np.linalg.norm(prim1.cell, axis=1)))
        phi1, phi2 = U.pair_fc(sc1, cutoff), U.pair_fc(sc2, cutoff)
        if not U.close(F.compact_fc_to_full_fc(prim2, F.full_fc_to_compact_fc(prim2, phi2)), phi2, 1e-12):
            run.count("generator: pair fc not periodic (case skipped)")
            continue
        scale = max(1.0, float(np.abs(phi1).max()))
        backs = {}
        for ph, prim, sc, phi, tag in ((ph1, prim1, sc1, phi1, "original"), (ph2, prim2, sc2, phi2, "relabelled")):
            cp = get_commensurate_points(np.rint(np.linalg.inv(prim.primitive_matrix)).astype(int))
            for full in (True, False):
                fc_used = phi.copy() if full else F.full_fc_to_compact_fc(prim, phi)
                ph.force_constants = fc_used.copy()
                ph.run_qpoints(cp, with_dynamical_matrices=True)
                dms = np.array(ph.get_qpoints_dict()["dynamical_matrices"])
                d2f = DynmatToForceConstants(prim, sc, is_full_fc=full)
                d2f.dynamical_matrices = dms
                for lang in ("C", "Py"):
                    d2f.run(lang=lang)
                    back = np.array(d2f.force_constants)
                    backs[(tag, full, lang)] = back
                    if tag == "relabelled" and not U.close(back, fc_used, TOL, scale):
                        run.violation("DynmatToForceConstants.run", "roundtrip-fc-relabelled-%s-%s" % (lang, "full" if full else "compact"),
                                      "description %s: fc -> D(q) at commensurate points -> fc differs from the input by %.3g" % (mname, U.maxdiff(back, fc_used)), info)
                if tag == "relabelled":
                    svecs, multi = U.dense_svecs(prim)
                    tl = U.tables_line(*gen.compact_tables(ph))
                    ph_lines = " ".join(U.phases_line(q_, svecs, multi, -1) for q_ in cp)
                    lines.append("%s %s %d %s %s %s" % ("d2ffull" if full else "d2f", tl, len(cp), U.flat(U.mass_sqrt(prim.masses)), U.flat_complex(dms), ph_lines))
                    meta.append(("inverse-C-%s-relabelled" % ("full" if full else "compact"), info, lambda line, back=backs[(tag, full, "C")]: _cmp(U.parse_rats(line, back.shape), back)))
        # ---- the force constants recovered in the two descriptions agree for corresponding atom pairs (Cartesian 3x3 blocks)
        r1, r2 = np.asarray(sc1.positions), np.asarray(sc2.positions)
        inv1 = np.linalg.inv(np.asarray(sc1.cell))
        amap = []
        for x in r2:
            d = (r1 - x) @ inv1
            d -= np.rint(d)
            j = np.nonzero(np.abs(d @ np.asarray(sc1.cell)).max(axis=1) < 1e-6)[0]
            amap.append(int(j[0]) if len(j) == 1 else -1)
        if min(amap) < 0 or sorted(amap) != list(range(len(r1))):
            run.count("generator: atoms of the two descriptions could not be matched (comparison skipped)")
        else:
            amap = np.array(amap)
            b2, b1 = backs[("relabelled", True, "C")], backs[("original", True, "C")]
            if not U.close(b2, b1[np.ix_(amap, amap)], TOL, scale):
                run.violation("DynmatToForceConstants.run", "fc-differs-between-descriptions",
                              "force constants recovered in the %s description differ from those of the original description for corresponding atom pairs by %.3g"
                              % (mname, U.maxdiff(b2, b1[np.ix_(amap, amap)])), info)
        run.count("description-invariance oracle", section="oracle")
        if len(run.cov["samples"]) < 7:
            run.sample(dict(kind="relabelled", cell=name, relabelling=mname, smat=S.tolist(), smat_relabelled=S2.tolist()), limit=7)
    common.switch_variant("omp")


def _prim_tables(prim):
    """(p2s, s2pp, nsym_list, perms) of a Primitive that is not attached to a Phonopy object"""
    from phonopy.harmonic.force_constants import get_nsym_list_and_s2pp

    perms = prim.atomic_permutations
    s2pp, nsym = get_nsym_list_and_s2pp(prim.s2p_map, prim.p2p_map, perms)
    return np.array(prim.p2s_map, dtype=int), np.array(s2pp, dtype=int), np.array(nsym, dtype=int), np.array(perms, dtype=int)


def _reordered_part(run, rng, lines, meta, thorough):
    """Primitive cells whose atom order differs from the order of first appearance in the supercell
    (public `positions_to_reorder` of Primitive / get_primitive): p2s_map is not ascending."""
    from phonopy.harmonic import force_constants as F
    from phonopy.harmonic.dynamical_matrix import DynamicalMatrix
    from phonopy.harmonic.dynmat_to_fc import DynmatToForceConstants
    from phonopy.structure.cells import Primitive, get_primitive, get_supercell

    names = ["triclinic", "cscl", "zincblende_prim", "nacl_prim", "wurtzite", "hcp", "nacl_interleaved", "mono_P"]
    nondiag = [np.array(m) for m in ([[2, 0, 0], [1, 2, 0], [0, 0, 1]], [[1, 1, 0], [0, 2, 0], [0, 0, 1]], [[2, 1, 0], [0, 1, 0], [-1, 0, 2]],
                                      [[1, 0, 1], [0, 2, 0], [0, 0, 2]], [[2, 0, 0], [0, 1, 1], [0, -1, 1]])]
    ncases = 16 if thorough else 4
    made = attempts = 0
    while made < ncases and attempts < 10 * ncases:
        attempts += 1
        name = names[(made + run.seed) % len(names)]
        cell, cen = _cell(name)
        smat = nondiag[rng.randrange(len(nondiag))] if rng.random() < 0.8 else np.diag([2, 1, 2])
        pmu = np.eye(3)
        if name == "nacl_interleaved":
            pmu = np.array([[0, 0.5, 0.5], [0.5, 0, 0.5], [0.5, 0.5, 0]])
            smat = np.diag([1, 1, 1]) if rng.random() < 0.5 else np.array([[1, 1, 0], [-1, 1, 0], [0, 0, 1]])
        scell = get_supercell(cell, smat)
        pmat = np.linalg.inv(smat) @ pmu
        try:
            p0 = get_primitive(scell, pmat)
        except Exception:
            run.count("constructor-rejected")
            continue
        npa, ns = len(p0), len(scell)
        if npa < 2 or ns > (40 if thorough else 24) or ns // npa < 2:
            continue
        perm = list(range(npa))
        while perm == sorted(perm):
            rng.shuffle(perm)
        if made % 2 == 0:
            prim = get_primitive(scell, pmat, positions_to_reorder=p0.scaled_positions[perm])
        else:
            prim = Primitive(scell, pmat, positions_to_reorder=p0.scaled_positions[perm])
        p2s = np.array(prim.p2s_map, dtype=int)
        if (np.diff(p2s) > 0).all():
            continue
        variant = "omp" if made % 2 == 0 else "ser"
        common.switch_variant(variant)
        made += 1
        svecs, multi = U.dense_svecs(prim)
        s2pp = U.s2pp_map(prim)
        s2p = np.array(prim.s2p_map, dtype=int)
        N = ns // npa
        cutoff = max(rng.choice([0.6, 0.9]) * gen.min_lattice_vector(scell.cell), 0.85 * min(np.linalg.norm(prim.cell, axis=1)))
        phi = U.pair_fc(scell, cutoff)
        if not U.close(F.compact_fc_to_full_fc(prim, F.full_fc_to_compact_fc(prim, phi)), phi, 1e-12):
            run.count("generator: pair fc not periodic (case skipped)")
            continue
        scale = max(1.0, float(np.abs(phi).max()))
        ms = U.mass_sqrt(prim.masses)
        tl = U.tables_line(*_prim_tables(prim))
        for full in (True, False):
            fc_used = phi.copy() if full else F.full_fc_to_compact_fc(prim, phi)
            info = dict(cell=name, smat=smat.tolist(), primitive_order=perm, p2s_map=p2s.tolist(), symbols=list(prim.symbols),
                        layout="full" if full else "compact", n_patom=npa, n_satom=ns, variant=variant, how="get_primitive" if made % 2 == 1 else "Primitive")
            run.case(("reordered", name, smat.tolist(), perm, full), nontrivial=True)
            run.count("reordered primitive (p2s_map not ascending) %s" % name)
            d2f = DynmatToForceConstants(prim, scell, is_full_fc=full)
            cp = np.array(d2f.commensurate_points)
            dmobj = DynamicalMatrix(scell, prim, fc_used.copy())
            dms = []
            for qv in cp:
                dmobj.run(qv)
                dms.append(np.array(dmobj.dynamical_matrix))
            dms = np.array(dms)
            # forward correspondence at one commensurate point
            if full:
                t_p2s, t_s2p, nr = p2s, s2p, ns
            else:
                t_p2s, t_s2p, nr = np.arange(npa), s2pp, npa
            qv = cp[rng.randrange(len(cp))]
            dmobj.run(qv)
            impl = np.array(dmobj.dynamical_matrix)
            lines.append("dynmat %d %d %d %s %s %s %s %s" % (npa, ns, nr, U.ints(t_p2s), U.ints(t_s2p), U.flat(fc_used), U.flat(ms), U.phases_line(qv, svecs, multi, +1)))
            meta.append(("dynmat-C-reordered", dict(info, q=list(map(float, qv))), lambda line, impl=impl, npa=npa: _cmp(U.parse_complex(line, (3 * npa, 3 * npa)), impl)))
            d2f.dynamical_matrices = dms
            ph_lines = " ".join(U.phases_line(q_, svecs, multi, -1) for q_ in cp)
            for lang in ("C", "Py"):
                d2f.run(lang=lang)
                back = np.array(d2f.force_constants)
                if not U.close(back, fc_used, TOL, scale):
                    run.violation("DynmatToForceConstants.run", "roundtrip-fc-reordered-primitive-%s-%s" % (lang, "full" if full else "compact"),
                                  "primitive cell with p2s_map %s: fc -> D(q) at commensurate points -> fc differs from the input by %.3g" % (p2s.tolist(), U.maxdiff(back, fc_used)), info)
                op = "d2ffull" if full else ("d2f" if lang == "C" else "d2fpy")
                lines.append("%s %s %d %s %s %s" % (op, tl, N, U.flat(ms), U.flat_complex(dms), ph_lines))
                meta.append(("inverse-%s-%s-reordered" % (lang, "full" if full else "compact"), info, lambda line, back=back: _cmp(U.parse_rats(line, back.shape), back)))
            run.count("round-trip oracle (reordered primitive)", section="oracle")
        if len(run.cov["samples"]) < 6:
            run.sample(dict(kind="reordered-primitive", cell=name, smat=smat.tolist(), primitive_order=perm, p2s_map=p2s.tolist()), limit=6)
    common.switch_variant("omp")


def _cmp(model, impl):
    if model is None:
        return "model rejected the input"
    if not U.close(impl, model, TOL):
        return "implementation differs from model by %.3g (scale %.3g)" % (U.maxdiff(impl, model), float(np.abs(model).max()))
    return None


# ------------------------------------------------------------------------------------------
# part C: ph2ph
# ------------------------------------------------------------------------------------------

def _ph2ph_part(run, rng, thorough, lines, meta):
    from phonopy.harmonic.dynmat_to_fc import get_commensurate_points

    polar = ["nacl_prim", "zincblende_prim", "cscl"]
    other = ["sc", "hcp", "bcc", "triclinic"]
    factors = [np.diag([2, 1, 1]), np.diag([1, 2, 1]), np.diag([1, 1, 2]), np.array([[1, 1, 0], [0, 2, 0], [0, 0, 1]]), np.diag([2, 2, 1]), np.array([[1, 0, 0], [0, 1, 1], [0, -1, 1]])]
    ncases = 90 if thorough else 8
    for c in range(ncases):
        nac = c % 2 == 1
        name = rng.choice(polar if nac else polar + other)
        cell, cen = _cell(name)
        pm = rng.choice(["auto", "P"]) if cen != "P" else "P"
        smat = rng.choice(gen.supercell_matrices(rng, max_det=4, count=10))
        M = factors[rng.randrange(len(factors))]
        smat2 = np.asarray(smat) @ M
        if len(cell) * int(round(np.linalg.det(smat2))) > (64 if thorough else 36):
            smat = np.diag([1, 1, 2])
            smat2 = smat @ M
        variant = "omp" if c % 3 else "ser"
        common.switch_variant(variant)
        try:
            ph = gen.make_phonopy(cell, smat, pmat=pm)
        except Exception:
            run.count("constructor-rejected")
            continue
        full = rng.choice([True, False])
        from phonopy.harmonic import force_constants as F

        cutoff = rng.choice([0.6, 1.0]) * gen.min_lattice_vector(ph.supercell.cell)
        cutoff = max(cutoff, 0.85 * min(np.linalg.norm(ph.primitive.cell, axis=1)))
        phi = U.pair_fc(ph.supercell, cutoff)
        ph.force_constants = phi if full else F.full_fc_to_compact_fc(ph.primitive, phi)
        method = None
        if nac:
            method = rng.choice(["wang", "gonze"])
            born, eps = U.random_born_eps(rng, len(ph.primitive))
            ph.nac_params = {"born": born, "dielectric": eps, "factor": rng.choice([14.4, 1.0, 27.2 * 0.529]), "method": method}
        info = dict(cell=name, smat=np.asarray(smat).tolist(), target=smat2.tolist(), pmat=pm, layout="full" if full else "compact", nac=method, variant=variant)
        run.case(("ph2ph", name, np.asarray(smat).tolist(), smat2.tolist(), pm, full, method), nontrivial=True)
        run.count("ph2ph %s" % ("with NAC (%s)" % method if nac else "without NAC"))
        smat_p = np.rint(np.linalg.inv(ph.primitive.primitive_matrix)).astype(int)
        cp = get_commensurate_points(smat_p)
        ph.run_qpoints(cp, with_dynamical_matrices=True)
        d0 = np.array(ph.get_qpoints_dict()["dynamical_matrices"])
        ph2 = ph.ph2ph(smat2, with_nac=nac)
        if ph2.nac_params is not None:
            ph2.nac_params = None
        # correspondence: the target force constants are the modelled inverse transform (target tables, target
        # commensurate points) of the source object's matrices (with NAC when with_nac) at those points
        prim2, sc2 = ph2.primitive, ph2.supercell
        if len(sc2) <= (48 if thorough else 36):
            smat2_p = np.rint(np.linalg.inv(prim2.primitive_matrix)).astype(int)
            cp2 = get_commensurate_points(smat2_p)
            ph.run_qpoints(cp2, with_dynamical_matrices=True)
            dsrc = np.array(ph.get_qpoints_dict()["dynamical_matrices"])
            svecs2, multi2 = U.dense_svecs(prim2)
            tl2 = U.tables_line(*gen.compact_tables(ph2))
            ph_lines2 = " ".join(U.phases_line(qv, svecs2, multi2, -1) for qv in cp2)
            fc2 = np.array(ph2.force_constants)
            op = "d2ffull" if fc2.shape[0] == fc2.shape[1] else "d2f"
            lines.append("%s %s %d %s %s %s" % (op, tl2, len(cp2), U.flat(U.mass_sqrt(prim2.masses)), U.flat_complex(dsrc), ph_lines2))
            meta.append(("ph2ph-fc%s" % ("-nac-" + method if nac else ""), info, lambda line, fc2=fc2: _cmp(U.parse_rats(line, fc2.shape), fc2)))
            # hypotheses of ph2ph_preserves_at on the implementation: Hermitian, and for the list's representative
            # q'' = -q + G0 of -q:  D(q'')[i,j] = psi(q'',j,i) psi(q,j,i) conj D(q)[i,j],  psi(q,j,i) = e_q(svec(p2s j, i))
            K2 = _canon_points(cp2, len(cp2))
            herm = float(np.abs(dsrc - dsrc.conj().transpose(0, 2, 1)).max())
            trdev = trdev_src = 0.0
            if K2 is not None:
                n2 = len(cp2)
                npa2 = len(prim2)
                p2s2 = np.array(prim2.p2s_map, dtype=int)
                idx = {tuple(k): i for i, k in enumerate(K2)}
                Ksrc = _canon_points(cp, len(cp))
                src_set = set() if Ksrc is None else {tuple(((k * n2) // len(cp)) % n2) for k in Ksrc} if n2 % len(cp) == 0 else set()
                for i, k in enumerate(K2):
                    j = idx.get(tuple((-k) % n2))
                    if j is None:
                        continue
                    G0 = cp2[j] + cp2[i]
                    dev = 0.0
                    for a in range(npa2):
                        for b in range(npa2):
                            r0 = svecs2[multi2[p2s2[b], a, 1]]
                            gam = np.exp(2j * np.pi * float(G0 @ r0))
                            dev = max(dev, float(np.abs(dsrc[j][3 * a:3 * a + 3, 3 * b:3 * b + 3] - gam * dsrc[i][3 * a:3 * a + 3, 3 * b:3 * b + 3].conj()).max()))
                    trdev = max(trdev, dev)
                    if tuple(k) in src_set:
                        trdev_src = max(trdev_src, dev)
            sc0 = max(1.0, float(np.abs(dsrc).max()))
            fmt = lambda x: "exact" if x < 1e-11 * sc0 else "to 1e%d" % int(np.ceil(np.log10(x / sc0)))
            run.count("ph2ph hypotheses on the source matrices%s: Hermitian %s; time reversal up to the zone factor: %s at source-commensurate points, %s at all target points" % (
                (" [%s]" % method if nac else ""), fmt(herm), fmt(trdev_src), fmt(trdev)), section="oracle")
        ph2.run_qpoints(cp, with_dynamical_matrices=True)
        d1 = np.array(ph2.get_qpoints_dict()["dynamical_matrices"])
        sc = max(1.0, float(np.abs(d0).max()))
        tol = 1e-6 if method == "gonze" else TOL
        if not U.close(d1, d0, tol, sc):
            run.violation("Phonopy.ph2ph", "dynmat-not-preserved%s" % ("-nac-" + method if nac else ""),
                          "dynamical matrices at the original commensurate points change by %.3g (scale %.3g)" % (U.maxdiff(d1, d0), sc), info)
        run.count("ph2ph oracle (tol %.0e)" % tol, section="oracle")
        if len(run.cov["samples"]) < 4:
            run.sample(dict(kind="ph2ph", **info))
    common.switch_variant("omp")


def main(run):
    rng = run.rng
    common.setup_phonopy("omp")
    thorough = run.tier == "thorough"
    run.proof_step(leancheck=thorough)
    run.cov["rule"] = (
        "points: all diagonal matrices <= 3 with det <= 8, sampled integer matrices with entries in {-1,0,1,2} (1 <= det <= 8; "
        "thorough: 1500 of the exhaustive list) and random ones with entries in [-3,3]/[-5,5]; non-trivial = non-diagonal. "
        "transforms: prototype crystal x supercell matrix (det <= 8) x primitive matrix x full/compact x OpenMP/serial x "
        "{pair-potential fc with random cutoff, random periodic symmetric fc}; forward at one commensurate and one generic q, "
        "inverse from the forward matrices and from random complex arrays, C and Python paths; non-trivial = a pair with "
        "multiplicity > 1 or a non-diagonal primitive supercell matrix. ph2ph: target = S*M for 6 integer M, with/without NAC.")
    run.cov["trusted_base"] = [
        "Lean 4.33 kernel; Mathlib v4.33; axioms per theorem in coverage.theorems",
        "hand-written model Model/DynmatToFc.lean tied to dynmat_to_fc.py / c/dynmat.c by this correspondence run",
        "SNF3x3 output (D, P, Q) and the shortest-vector tables are inputs certified per case in Lean (snfWf, Lat.wf)",
        "libm cos/sin/sqrt are parameters: the model receives the values the kernel computes (recomputed with the same expressions)",
        "nanobind replaced by harness/nbstub (c/_phonopy.cpp itself is compiled unchanged)",
        "float rounding outside the model: comparison tolerance 1e-9*max|entry|",
    ]
    run.assumptions += [
        "IEEE rounding of the C/Python code is not modelled",
        "phase factors are parameters; the structural form exp(2 pi i q.r) = psi * zeta^(kq.R) is checked numerically (1e-9) per case",
        "symfc is unavailable: force constants are set directly",
    ]
    lines, meta = [], []
    _points_part(run, rng, lines, meta, thorough)
    _transform_part(run, rng, lines, meta, thorough)
    _ph2ph_part(run, rng, thorough, lines, meta)
    _reordered_part(run, rng, lines, meta, thorough)
    _relabel_part(run, rng, lines, meta, thorough)
    _ph2ph_options_part(run, rng, thorough)
    out = common.lean_run_driver("C06", lines)
    if len(out) != len(lines):
        run.broke("correspondence", "driver answered %d lines for %d requests" % (len(out), len(lines)))
    ncmp = 0
    for (kind, info, chk), line in zip(meta, out):
        ncmp += 1
        run.count(kind, section="correspondence")
        err = chk(line)
        if err is not None:
            run.broke("correspondence", "%s: %s" % (kind, err), info)
    run.cov["correspondence"]["compared"] = ncmp
