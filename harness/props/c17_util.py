"""Helpers of the C17 check: cell generator, per-interface write -> read round trip, wire encoding.

Every interface is driven through the public dispatchers of phonopy/interface/calculator.py
(`write_crystal_structure`, `read_crystal_structure`, `write_supercells_with_displacements`).
Writers that emit only a structure block are completed with the surrounding text the
reader needs (`complete_file`): the pieces are taken from the repository's own inputs
(test/interface/NaCl-pwscf.in &system namelist, example/Si-siesta/Si.fdf ChemicalSpeciesLabel
block, example/Al-Fleur/fleur_inpgen `! a1` / `! num atoms` markers, test/interface/Si-CRYSTAL.o
output sections).
"""

from __future__ import annotations

import os
import re
from fractions import Fraction

import numpy as np

INTERFACES = ["vasp", "abinit", "qe", "wien2k", "elk", "siesta", "cp2k", "crystal", "dftbp", "turbomole",
              "aims", "castep", "fleur", "abacus", "lammps", "pwmat"]
ROTATING = {"lammps", "wien2k"}  # formats that prescribe an orientation of the axes
# readers that return magnetic moments (a moment written but never read back is "not supported")
MOMENT_RW = {"castep", "abacus", "aims", "crystal"}
MOMENT_FILE = {"vasp", "qe"}  # MAGMOM side file written by write_supercells_with_displacements

POS_DEN = 1 << 20
POS_TOL = 2e-7
LAT_DEN = 64
LAT_TOL = {"wien2k": 5e-5}
LAT_TOL_DEFAULT = 1e-6
PRECISION_NOTE = (
    "numbers read back are snapped before the exact comparison, with windows derived from the generated format table "
    "(Gen/WriterFormats.lean: decimals of each writer's lattice and position fields; theorem printed_precision): fractional positions to "
    "the grid 2^-20 when within 2 x half a unit of the last printed decimal (propagated through the inverse lattice for Cartesian formats) "
    "+ 1e-12, never more than 2e-7; lattice entries / metric entries to the grid 1/64 when within 2 x half a unit + 1e-12, never more than "
    "1e-6 (Wien2k: metric window from its 6-decimal a,b,c,alpha,beta,gamma, never more than 5e-5); moments to 1/64 within 1e-5; a number "
    "outside its window is sent unrounded and fails the exact comparison")

POOL = [("Na", 11), ("Cl", 17), ("O", 8), ("Si", 14), ("Fe", 26), ("H", 1)]


# --------------------------------------------------------------------------
# generator
# --------------------------------------------------------------------------

def random_cell(rng, natom=None, moments=None, integer_moments=False, layout=None, outside=None, noncollinear=False,
                far=False, fine=False):
    """Triclinic rational cell: lattice entries k/8, positions k/16 (+ integers: outside [0,1)),
    1-3 species interleaved or grouped, optional collinear moments.
    layout: None | 'interleaved' | 'grouped'; outside: None (random) | True | False;
    far: one atom three cells away (Cartesian coordinates beyond -10); fine: positions on the grid 2^-20
    instead of 1/16 (more than 6 significant decimals)."""
    from phonopy.structure.atoms import PhonopyAtoms

    while True:
        lat = np.array([[rng.randint(-8, 8) / 8.0 for _ in range(3)] for _ in range(3)])
        lat += np.diag([rng.randint(24, 48) / 8.0 for _ in range(3)])
        if np.linalg.det(lat) > 20 and min(np.linalg.norm(lat, axis=1)) > 2.5:
            break
    layout = layout or rng.choice(["interleaved", "interleaved", "grouped"])
    if layout == "interleaved" and natom is not None and natom < 3:
        raise ValueError("an interleaved cell needs at least 3 atoms")
    while True:
        n = natom or rng.randint(3 if layout == "interleaved" else 2, 6)
        nsp = rng.randint(2 if layout == "interleaved" else 1, min(3, n))
        pool = rng.sample(POOL, nsp)
        syms = [pool[i % nsp][0] for i in range(n)]
        if layout == "interleaved":
            rng.shuffle(syms)
        else:
            syms.sort(key=[p[0] for p in pool].index)
        # interleaved: some species occurs in two separate runs
        runs = [s for i, s in enumerate(syms) if i == 0 or syms[i - 1] != s]
        interleaved = len(runs) != len(set(runs))
        if interleaved == (layout == "interleaved"):
            break
    natom = n
    base = []
    while len(base) < natom:
        p = [rng.randint(0, 15) / 16.0 for _ in range(3)]
        if all(max(abs(((a - b + 0.5) % 1) - 0.5) for a, b in zip(p, q)) >= 0.12 for q in base):
            base.append(p)
    pos = np.array(base)
    is_out = False
    if outside is None or outside:
        for i in range(natom):
            for j in range(3):
                if rng.random() < 0.3:
                    pos[i, j] += rng.choice([-2, -1, 1, 2])
                    is_out = True
        if outside and not is_out:
            pos[0, 0] -= 2
            is_out = True
    if far:
        pos[0] -= 3
        is_out = True
    if fine:
        pos = pos + np.array([[rng.randint(1, 7) / float(POS_DEN) for _ in range(3)] for _ in range(natom)])
    mags = None
    if moments:
        vals = [1, -1, 2, -2] if integer_moments else [0.5, -0.5, 1.0, -1.0, 2.0, 1.25, -0.75]
        mags = [float(rng.choice(vals)) for _ in range(natom)]
        if len(set(mags)) == 1 and natom > 1:
            mags[0] = -mags[0] if integer_moments else mags[0] + 0.25
        if noncollinear:
            mags = [[m, float(rng.choice([0.0, 0.5, -1.0])), float(rng.choice([0.25, 0.0, 1.5]))] for m in mags]
    cell = PhonopyAtoms(cell=lat, symbols=syms, scaled_positions=pos, magnetic_moments=mags)
    return cell, dict(natom=natom, nspecies=nsp, layout=layout, interleaved=interleaved, outside=is_out, moments=bool(moments), fine=fine)


def round_positions(cell, den=POS_DEN):
    """copy with scaled positions rounded to the grid 1/den (exactly representable)"""
    c = cell.copy()
    c.scaled_positions = np.round(cell.scaled_positions * den) / den + 0.0  # (+ 0.0: no negative zeros)
    return c


# --------------------------------------------------------------------------
# optional_structure_info as read_crystal_structure would return it
# --------------------------------------------------------------------------

def structure_info(interface, cell, filename="unitcell"):
    syms = list(dict.fromkeys(cell.symbols))
    nums = {s: int(n) for s, n in zip(cell.symbols, cell.numbers)}
    if interface == "qe":
        return (filename, {s: "%s.UPF" % s for s in syms})
    if interface == "elk":
        return (filename, {s: "%s.in" % s for s in syms})
    if interface == "siesta":
        return (filename, {s: i + 1 for i, s in enumerate(syms)})
    if interface == "abacus":
        return (filename, {s: "%s.upf" % s for s in syms}, {s: "%s.orb" % s for s in syms}, None)
    if interface == "wien2k":
        n = len(cell)
        return (filename, [781] * n, [1e-4] * n, [2.0] * n)
    if interface == "crystal":
        return (filename, [int(z) for z in cell.numbers])
    if interface == "fleur":
        return (filename, ["%d.%d" % (int(z), 1) for z in cell.numbers], ["verif title", "\n", "&end /"])
    return (filename,)


# --------------------------------------------------------------------------
# completion of structure-block-only outputs
# --------------------------------------------------------------------------

class Unparsable(Exception):
    """the written file cannot be tokenised the way the target program (free-format read) would"""


QE_SYSTEM = """ &control
    calculation = 'scf'
    tprnfor = .true.
    tstress = .true.
 /
 &system
    ibrav = 0
    nat = %d
    ntyp = %d
    ecutwfc = 50.0
 /
 &electrons
    conv_thr = 1.0d-9
 /
"""


def _crystal_output_from_ext(ext_text, d12_text):
    """What a CRYSTAL run prints for the geometry given in the EXTERNAL (fort.34) file: the
    sections read_crystal() parses, in the layout of test/interface/Si-CRYSTAL.o."""
    from phonopy.structure.atoms import atom_data

    ls = ext_text.split("\n")
    try:
        lat = np.array([[float(x) for x in ls[i].split()] for i in (1, 2, 3)])
        if lat.shape != (3, 3):
            raise ValueError("lattice line with %d fields" % min(len(ls[i].split()) for i in (1, 2, 3)))
    except ValueError as e:
        raise Unparsable("EXTERNAL (fort.34) lattice lines are not blank-separated: %s" % e)
    nsym = int(ls[4])
    k = 5 + 4 * nsym
    n = int(ls[k])
    rows = [ls[k + 1 + i].split() for i in range(n)]
    try:
        conv = [int(r[0]) for r in rows]
        cart = np.array([[float(x) for x in r[1:4]] for r in rows])
        if cart.shape != (n, 3):
            raise ValueError("atom line with %d fields" % min(len(r) for r in rows))
    except ValueError as e:
        raise Unparsable("EXTERNAL (fort.34) atom lines are not blank-separated: %s" % e)
    frac = cart @ np.linalg.inv(lat)
    out = []
    out.append(" LATTICE PARAMETERS (ANGSTROMS AND DEGREES) - BOHR = 0.5291772083 ANGSTROM")
    out.append(" PRIMITIVE CELL - CENTRING CODE 1/0 VOLUME=  %12.6f - DENSITY  1.000 g/cm^3" % abs(np.linalg.det(lat)))
    out.append("         A              B              C           ALPHA      BETA       GAMMA")
    out.append("     1.00000000     1.00000000     1.00000000    90.000000  90.000000  90.000000")
    out.append(" *******************************************************************************")
    out.append(" ATOMS IN THE ASYMMETRIC UNIT %4d - ATOMS IN THE UNIT CELL: %4d" % (n, n))
    out.append("     ATOM                 X/A                 Y/B                 Z/C")
    out.append(" *******************************************************************************")
    for i in range(n):
        sym = atom_data[conv[i] % 100][1].upper()
        out.append(" %6d T %3d %-2s   %19.12E %19.12E %19.12E" % (i + 1, conv[i], sym, frac[i, 0], frac[i, 1], frac[i, 2]))
    out.append("")
    out.append(" DIRECT LATTICE VECTORS CARTESIAN COMPONENTS (ANGSTROM)")
    out.append("          X                    Y                    Z")
    for r in lat:
        out.append(" %20.12E %20.12E %20.12E" % tuple(r))
    out.append("")
    # CRYSTAL echoes the input deck; the reader takes ATOMSPIN from there
    m = re.search(r"ATOMSPIN\n.*\n.*\n", d12_text)
    if m:
        out.append(m.group(0))
    return "\n".join(out) + "\n"


def complete_file(interface, path, cell):
    """Turn what the writer produced at `path` into a file the same interface's reader accepts.
    Returns the path to read."""
    if interface == "qe":
        txt = open(path).read()
        nsp = len(dict.fromkeys(cell.symbols))
        open(path, "w").write(QE_SYSTEM % (len(cell), nsp) + txt + "\n")
        return path
    if interface == "siesta":
        txt = open(path).read()
        syms = list(dict.fromkeys(cell.symbols))
        nums = {s: int(n) for s, n in zip(cell.symbols, cell.numbers)}
        block = "NumberOfSpecies %d\n\n%%block ChemicalSpeciesLabel\n" % len(syms)
        for i, s in enumerate(syms):
            block += " %d  %d  %s\n" % (i + 1, nums[s], s)
        block += "%endblock ChemicalSpeciesLabel\n\n"
        open(path, "w").write(block + txt)
        return path
    if interface == "fleur":
        ls = open(path).read().split("\n")
        ls[1] = ls[1] + "   ! a1"
        for i in range(5, len(ls)):
            if re.fullmatch(r"\s*\d+\s*", ls[i]):
                ls[i] = ls[i].strip() + " ! num atoms"
                break
        open(path, "w").write("\n".join(ls))
        return path
    if interface == "crystal":
        out = _crystal_output_from_ext(open(path + ".ext").read(), open(path + ".d12").read())
        open(path + ".o", "w").write(out)
        return path + ".o"
    return path


def read_back(interface, path, cell):
    """read_crystal_structure on the completed file; turbomole needs the cwd of its directory"""
    from phonopy.interface.calculator import read_crystal_structure

    if interface == "turbomole":
        cwd = os.getcwd()
        os.chdir(path)
        try:
            out, info = read_crystal_structure("control", interface_mode="turbomole")
        finally:
            os.chdir(cwd)
        return out, info
    p = complete_file(interface, path, cell)
    return read_crystal_structure(p, interface_mode=interface)


def roundtrip(interface, cell, path, direct=False):
    """write_crystal_structure -> (complete) -> read_crystal_structure.
    direct=True (fleur only): call the interface's writer with the reader's extras, bypassing the dispatcher."""
    from phonopy.interface.calculator import write_crystal_structure

    info = structure_info(interface, cell, filename=path)
    if direct and interface == "fleur":
        from phonopy.interface.fleur import write_fleur

        write_fleur(path, cell, info[1], 1, info[2])
    else:
        write_crystal_structure(path, cell, interface_mode=interface, optional_structure_info=info)
    return read_back(interface, path, cell)


def displaced_files(interface, ids, pre=None, width=3):
    """paths write_supercells_with_displacements produces for the displaced supercells (default names)"""
    def nm(fmt):
        return [fmt.format(i, width=width) for i in ids]

    return {
        "vasp": nm("POSCAR-{0:0{width}}"),
        "abinit": nm("supercell-{0:0{width}}.in"),
        "qe": nm("supercell-{0:0{width}}.in"),
        "wien2k": nm("unitcellS-{0:0{width}}.in"),
        "elk": nm("supercell-{0:0{width}}.in"),
        "siesta": nm("supercell-{0:0{width}}.fdf"),
        "crystal": nm("supercell-{0:0{width}}"),
        "dftbp": nm("geo.genS-{0:0{width}}"),
        "turbomole": nm("supercell-{0:0{width}}"),
        "aims": nm("geometry.in-{0:0{width}}"),
        "castep": nm("supercell-{0:0{width}}.cell"),
        "fleur": nm("supercell-{0:0{width}}.in"),
        "abacus": nm("STRU-{0:0{width}}"),
        "lammps": nm("supercell-{0:0{width}}"),
        "pwmat": nm("supercell-{0:0{width}}.config"),
    }[interface]


def perfect_file(interface):
    return {
        "vasp": "SPOSCAR", "abinit": "supercell.in", "qe": "supercell.in", "wien2k": "unitcellS", "elk": "supercell.in",
        "siesta": "supercell.fdf", "crystal": "supercell", "dftbp": "geo.genS", "turbomole": "supercell",
        "aims": "geometry.in.supercell", "castep": "supercell.cell", "fleur": "supercell.in", "abacus": "STRU.in",
        "lammps": "supercell", "pwmat": "supercell.config",
    }[interface]


# --------------------------------------------------------------------------
# wire encoding
# --------------------------------------------------------------------------

def fr(x):
    f = x if isinstance(x, Fraction) else Fraction(float(x))
    return str(f.numerator) if f.denominator == 1 else "%d/%d" % (f.numerator, f.denominator)


def snap(v, den, tol):
    v = float(v)
    k = round(v * den)
    if abs(v - k / den) <= tol:
        return Fraction(k, den)
    return Fraction(v)


def moments_of(cell):
    m = cell.magnetic_moments
    if m is None:
        return None
    m = np.asarray(m, dtype=float)
    if not m.any():
        return None  # "no moments" and "all moments zero" are the same crystal
    return m.reshape(len(cell), -1)


def atoms_wire(cell, exact, moments=None, ptol=None):
    """n (Z nm m... x y z)*"""
    mom = moments_of(cell) if moments is None else moments
    toks = [str(len(cell))]
    for i, (z, p) in enumerate(zip(cell.numbers, cell.scaled_positions)):
        ms = [] if mom is None else list(mom[i])
        toks.append(str(int(z)))
        toks.append(str(len(ms)))
        toks += [fr(Fraction(float(m))) if exact else fr(snap(m, 64, 1e-5)) for m in ms]
        toks += [fr(Fraction(float(x))) if exact else fr(snap(x, POS_DEN, POS_TOL if ptol is None else ptol)) for x in p]
    return " ".join(toks)


def lattice_wire(lat, exact, tol=LAT_TOL_DEFAULT):
    return " ".join(fr(Fraction(float(x))) if exact else fr(snap(x, LAT_DEN, tol)) for x in np.asarray(lat).ravel())


# --------------------------------------------------------------------------
# tolerances from the generated format table (Gen/WriterFormats.lean, read back through the driver)
# --------------------------------------------------------------------------

FORMATS = {}


def set_formats(line):
    """answer of the driver's `formats` request"""
    FORMATS.clear()
    for row in line.split(";"):
        t = row.split()
        if len(t) != 13:
            raise ValueError("formats row %r" % row)
        FORMATS[t[0]] = dict(lat_w=int(t[1]), lat_d=int(t[2]), lat_sep=t[3] == "1", lat_kind=t[4], latkind=t[5], pos_w=int(t[6]), pos_d=int(t[7]),
                             pos_sep=t[8] == "1", pos_kind=t[9], cart=t[10] == "1", wraps=t[11] == "1", reader=t[12])


def _half(d, kind, scale=1.0):
    # repr prints the shortest round-tripping text: exact; fixed: half a unit of the last decimal
    return 0.0 if kind == "repr" else 0.5 * 10.0 ** (-d)


def pos_tol(interface, cell):
    """window within which a read-back fractional coordinate may differ from the written one: twice the
    half-unit of the printed decimals (propagated through L^-1 for Cartesian formats, including the lattice's own
    printing error), plus 1e-12 for float arithmetic; never above POS_TOL"""
    f = FORMATS.get(interface)
    if f is None:
        return POS_TOL
    t = _half(f["pos_d"], f["pos_kind"])
    if f["cart"]:
        ninv = np.abs(np.linalg.inv(cell.cell)).sum(axis=0).max()
        fmax = max(1.0, np.abs(cell.scaled_positions).max())
        t = t * ninv * 3 + _half(f["lat_d"], f["lat_kind"]) * 9 * ninv * fmax
    return min(2 * t + 1e-12, POS_TOL)


def lat_tol(interface, cell):
    f = FORMATS.get(interface)
    cap = LAT_TOL.get(interface, LAT_TOL_DEFAULT)
    if f is None:
        return cap
    h = _half(f["lat_d"], f["lat_kind"])
    if f["latkind"] == "cellpar":
        a = np.linalg.norm(cell.cell, axis=1).max()
        t = 2 * a * h + a * a * h * np.pi / 180  # metric entries from lengths and angles (degrees)
        return min(4 * t + 1e-10, cap)
    if f["latkind"] == "triangular":
        a = np.abs(cell.cell).sum(axis=1).max()
        return min(1e-12 * max(1.0, a * a), cap)  # rotation in floats, numbers printed exactly
    return min(2 * h + 1e-12, cap)


def request(interface, cin, cout, out_moments=None):
    """Lean request comparing the input cell (exact) with the cell read back (snapped)."""
    tol = lat_tol(interface, cin)
    a1 = atoms_wire(cin, True)
    a2 = atoms_wire(cout, False, moments=out_moments, ptol=pos_tol(interface, cin))
    l1 = lattice_wire(cin.cell, True)
    if interface in ROTATING:
        g = np.asarray(cout.cell) @ np.asarray(cout.cell).T
        return "equivg %s %s %s %s" % (lattice_wire(g, False, tol), l1, a1, a2)
    return "same %s %s %s %s" % (l1, a1, lattice_wire(cout.cell, False, tol), a2)


def python_verdict(interface, cin, cout, out_moments=None):
    """Independent re-statement of the property on the same (snapped) numbers, in Python (diagnosis:
    which clause fails).  Must agree with the verified checker's verdict."""
    tol = lat_tol(interface, cin)
    ptol = pos_tol(interface, cin)
    if len(cin) != len(cout):
        return "natom %d -> %d" % (len(cin), len(cout))
    l1 = np.array([[Fraction(float(x)) for x in r] for r in cin.cell], dtype=object)
    g1 = l1.dot(l1.T)
    if interface in ROTATING:
        gf = np.asarray(cout.cell) @ np.asarray(cout.cell).T
        g2 = np.array([[snap(x, LAT_DEN, tol) for x in r] for r in gf], dtype=object)
        if (g1 != g2).any():
            return "lattice metric differs by %.3g" % np.abs(np.array(g1, dtype=float) - gf).max()
    else:
        l2 = np.array([[snap(x, LAT_DEN, tol) for x in r] for r in cout.cell], dtype=object)
        if (l1 != l2).any():
            return "lattice differs by %.3g" % np.abs(cin.cell - cout.cell).max()
    if np.linalg.det(cin.cell) * np.linalg.det(cout.cell) <= 0:
        return "handedness changed"
    m1 = moments_of(cin)
    m2 = moments_of(cout) if out_moments is None else (None if out_moments.shape[1] == 0 else out_moments)

    def keys(cell, mom, exact, with_mom=True, with_z=True, digits=None):
        out = []
        for i, (z, p) in enumerate(zip(cell.numbers, cell.scaled_positions)):
            if digits is None:
                q = tuple((Fraction(float(x)) if exact else snap(x, POS_DEN, ptol)) % 1 for x in p)
            else:
                q = tuple(round(float(x) % 1.0, digits) % 1.0 for x in p)
            mm = ()
            if with_mom and mom is not None:
                mm = tuple(Fraction(float(x)) if exact else snap(x, 64, 1e-5) for x in mom[i])
            out.append(((int(z),) if with_z else ()) + q + mm)
        return sorted(out)

    if keys(cin, m1, True) == keys(cout, m2, False):
        return "ok"
    if keys(cin, m1, True, with_mom=False) == keys(cout, m2, False, with_mom=False):
        return "moments not attached to the same atoms"
    def match(with_z, tol):
        """greedy one-to-one matching of the atoms within tol (fractional, modulo 1); max deviation or None"""
        used, worst = set(), 0.0
        for z, p in zip(cin.numbers, cin.scaled_positions):
            best = None
            for k, (z2, p2) in enumerate(zip(cout.numbers, cout.scaled_positions)):
                if k in used or (with_z and int(z) != int(z2)):
                    continue
                d = np.abs(((np.asarray(p) - np.asarray(p2) + 0.5) % 1.0) - 0.5).max()
                if d <= tol and (best is None or d < best[1]):
                    best = (k, d)
            if best is None:
                return None
            used.add(best[0])
            worst = max(worst, best[1])
        return worst

    d = match(True, 5e-6)
    if d is not None:
        return "positions agree only to %.1e (window %.1e)" % (d, ptol)
    if match(False, 5e-6) is not None:
        return "species attached to the wrong positions"
    return "atom sets differ"


def simplify(cell, feature):
    """the same atoms with one input feature removed (used to name the input class of a failure)"""
    from phonopy.structure.atoms import PhonopyAtoms

    syms = list(cell.symbols)
    pos = cell.scaled_positions
    mom = cell.magnetic_moments
    if feature == "outside":
        pos = pos - np.floor(pos)
    elif feature == "fine":
        pos = np.round(pos * 16) / 16
    elif feature == "interleaved":
        order = sorted(range(len(syms)), key=lambda i: list(dict.fromkeys(syms)).index(syms[i]))
        syms = [syms[i] for i in order]
        pos = pos[order]
        mom = None if mom is None else np.asarray(mom)[order]
    elif feature == "moments":
        mom = None
    return PhonopyAtoms(cell=cell.cell, symbols=syms, scaled_positions=pos, magnetic_moments=mom)


def atom_order(cin, cout, tol=5e-6):
    """for each atom of the read-back cell the index of the written atom it is (same species, same
    position modulo 1), or None if there is no one-to-one assignment"""
    order, used = [], set()
    for z2, p2 in zip(cout.numbers, cout.scaled_positions):
        hit = None
        for k, (z, p) in enumerate(zip(cin.numbers, cin.scaled_positions)):
            if k in used or int(z) != int(z2):
                continue
            if np.abs(((np.asarray(p) - np.asarray(p2) + 0.5) % 1.0) - 0.5).max() <= tol:
                hit = k
                break
        if hit is None:
            return None
        used.add(hit)
        order.append(hit)
    return order


def stable_grouping(symbols):
    """the documented reordering: species in first-occurrence order, original order inside a species"""
    first = list(dict.fromkeys(symbols))
    return sorted(range(len(symbols)), key=lambda i: first.index(symbols[i]))
