"""C13 reference semantics: direct numpy transcriptions of the documented formulas for the kernels that
have no in-repository Python version. Each takes the arguments exactly as the Python layer hands them
to the kernel (captured call) and returns the expected content of the output argument(s)."""

from __future__ import annotations

import numpy as np


def distribute_fc2(args):
    """fc2[todo, other] += R^T fc2[done, perm[other]] R for every listed atom that is not its own representative
    (c/phonopy.c distribute_fc2: P' = R^-1 P R)."""
    fc2, atom_list, fc_idx, r_carts, perms, map_atoms, map_syms = args
    out = fc2.copy()
    rev = {}
    for i, a in enumerate(atom_list):
        if map_atoms[a] == a:
            rev[int(a)] = i
    for i, todo in enumerate(atom_list):
        done = int(map_atoms[todo])
        if done == todo:
            continue
        r = r_carts[map_syms[todo]]
        perm = perms[map_syms[todo]]
        src = out[fc_idx[rev[done]]][perm]  # [other] -> fc2[done_row, perm[other]]
        out[fc_idx[i]] += np.einsum("lj,mk,olm->ojk", r, r, src)
    return {0: out}


def compute_permutation(args):
    """perm[j] = i with |pos[i] - rot_pos[j]| < symprec modulo lattice (first free match in C's search order);
    for well separated atoms the match is unique."""
    perm, lat, pos, rot_pos, symprec = args
    n = len(pos)
    out = -np.ones(n, dtype=perm.dtype)
    ok = True
    for i in range(n):
        d = pos[i][None, :] - rot_pos
        d -= np.rint(d)
        dist = np.sqrt(((d @ lat.T) ** 2).sum(axis=1))
        cand = [j for j in np.nonzero(dist < symprec)[0] if out[j] < 0]
        if cand:
            out[cand[0]] = i
    if (out < 0).any():
        ok = False
    return {0: out, "ret": ok}


def _shortest(pos_to, pos_from, lattice_points, reduced_basis, trans_mat, symprec):
    res = []
    for i in range(len(pos_to)):
        for j in range(len(pos_from)):
            vec = pos_to[i] - pos_from[j] + lattice_points  # (nlp, 3)
            length = np.sqrt(((vec @ reduced_basis.T) ** 2).sum(axis=1))
            keep = np.nonzero(length - length.min() < symprec)[0]
            res.append(vec[keep] @ trans_mat.T)
    return res


def gsv_sparse(args):
    svecs, mult, pos_to, pos_from, lps, rb, tm, symprec = args
    vs = _shortest(pos_to, pos_from, lps.astype(float), rb, tm.astype(float), symprec)
    o0 = svecs.copy().reshape(-1, 27, 3)
    o1 = mult.copy().reshape(-1)
    for p, v in enumerate(vs):
        o0[p, :len(v)] = v
        o1[p] = len(v)
    return {0: o0.reshape(svecs.shape), 1: o1.reshape(mult.shape)}


def gsv_dense(args):
    svecs, mult, pos_to, pos_from, lps, rb, tm, ini, symprec = args
    vs = _shortest(pos_to, pos_from, lps.astype(float), rb, tm.astype(float), symprec)
    o0 = svecs.copy()
    o1 = mult.copy()
    if ini:
        m = o1.reshape(-1, 2)
        adrs = 0
        for p, v in enumerate(vs):
            m[p] = (len(v), adrs)
            adrs += len(v)
    else:
        allv = np.concatenate(vs, axis=0)
        o0.reshape(-1, 3)[:len(allv)] = allv
    return {0: o0, 1: o1}


def _kk(G_list, q_cart, q_dir_cart, dielectric, lam, tol):
    """KK_G = K K^T / (K eps K) * exp(-K eps K / (4 Lambda^2)), K = G + q; |K| < tol: direction term or 0."""
    KK = np.zeros((len(G_list), 3, 3))
    L2 = 4 * lam * lam
    for g, G in enumerate(G_list):
        K = G + q_cart
        if np.sqrt((K * K).sum()) < tol:
            if q_dir_cart is None:
                continue
            dp = q_dir_cart @ dielectric @ q_dir_cart
            KK[g] = np.outer(q_dir_cart, q_dir_cart) / dp
        else:
            dp = K @ dielectric @ K
            KK[g] = np.outer(K, K) / dp * np.exp(-dp / L2)
    return KK


def _dd_part(G_list, KK, pos):
    n = len(pos)
    dd = np.zeros((n, 3, n, 3), dtype=complex)
    for i in range(n):
        for j in range(n):
            ph = np.exp(2j * np.pi * (G_list @ (pos[i] - pos[j])))
            dd[i, :, j, :] = np.einsum("g,gkl->kl", ph, KK)
    return dd


def _mult_born(dd_in, born):
    # dd[i,k,j,l] = sum_{m,n} dd_in[i,m,j,n] Z_i[m,k] Z_j[n,l]
    return np.einsum("imjn,imk,jnl->ikjl", dd_in, born, born)


def recip_dipole_dipole(args):
    dd, dd_q0, G_list, q_cart, q_dir, born, diel, pos, is_nac_q_zero, factor, lam, tol, use_openmp = args
    qd = None if is_nac_q_zero else q_dir
    KK = _kk(G_list, q_cart, qd, diel, lam, tol)
    out = _mult_born(_dd_part(G_list, KK, pos), born)
    n = len(pos)
    q0 = dd_q0.view(complex).reshape(n, 3, 3)
    for i in range(n):
        out[i, :, i, :] -= q0[i]
    out *= factor
    return {0: np.ascontiguousarray(out).view("double").reshape(dd.shape)}


def recip_dipole_dipole_q0(args):
    dd_q0, G_list, born, diel, pos, lam, tol, use_openmp = args
    KK = _kk(G_list, np.zeros(3), None, diel, lam, tol)
    full = _mult_born(_dd_part(G_list, KK, pos), born)
    q0 = full.sum(axis=2)  # (n,3,3)
    q0 = (q0 + q0.conj().transpose(0, 2, 1)) / 2
    return {0: np.ascontiguousarray(q0).view("double").reshape(dd_q0.shape)}


def _grid_index(addr, mesh):
    a = np.mod(addr, mesh)
    return a[..., 0] + mesh[0] * (a[..., 1] + mesh[1] * a[..., 2])


def tetrahedra_frequencies(args):
    ft, gps, mesh, grid_address, gp_ir_index, rga, freqs = args
    out = ft.copy().reshape(len(gps), freqs.shape[1], 96)
    r = rga.reshape(96, 3)
    for i, gp in enumerate(gps):
        idx = _grid_index(grid_address[gp][None, :] + r, mesh)
        out[i] = freqs[gp_ir_index[idx]].T
    return {0: out.reshape(ft.shape)}


def tetrahedron_method_dos(args, iw_fun):
    """dos[i,k,j,m] += I-weight(freq_points[j]; tetrahedra of ir point i, band k) * weight_i * coef[i,m,k];
    iw_fun(omega, tetrahedra(24,4)) is the in-repository Python integration weight."""
    dos, mesh, fpts, freqs, coef, grid_address, gmt, rga = args
    ir = [i for i in range(len(gmt)) if gmt[i] == i]
    gp2ir = np.zeros(len(gmt), dtype=int)
    weights = np.zeros(len(ir), dtype=int)
    for i in range(len(gmt)):
        if gmt[i] == i:
            gp2ir[i] = ir.index(i)
        else:
            gp2ir[i] = gp2ir[gmt[i]]
        weights[gp2ir[i]] += 1
    out = dos.copy()
    for i, gp in enumerate(ir):
        idx = gp2ir[_grid_index(grid_address[gp][None, None, :] + rga, mesh)]  # (24,4)
        for k in range(freqs.shape[1]):
            tet = freqs[idx, k]
            for j, w in enumerate(fpts):
                iw = iw_fun(float(w), tet) * weights[i]
                out[i, k, j, :] += iw * coef[i, :, k]
    return {0: out}
