"""C17 force-collection oracle: the SAME physical forces (with a net drift), written as each calculator
would print them (native unit, native layout, atom order of the structure file phonopy wrote), collected
through `create_FORCE_SETS`, must arrive as `F - mean(F)` in the calculator's `force_unit`, atom by atom
of the supercell — drift removed exactly once, unit converted exactly once — or be refused.

Output layouts are taken from the repository's own outputs:
abinit   example/NaCl-abinit/supercell-001.out      qe       example/NaCl-QE/NaCl-001.out
elk      example/Si-elk/INFO.OUT                    siesta   example/Si-siesta/disp-001/Si.FA
crystal  example/NaCl-CRYSTAL/supercell-001.o       dftbp    example/diamond-dftb/results.tag
turbomole example/Si-TURBOMOLE/example-001/gradient aims     example/diamond-FHI-aims/disp-001/aims.out
pwmat    example/Si-PWmat/OUT.FORCE-001             fleur    example/Al-Fleur/FORCES
abacus   test/interface/NaCl-abacus.out             lammps   example/Si-lammps/lammps_forces_Si.0
wien2k   example/NaCl-wien2k-P1/NaCl-001.scf (:FGL lines, P1 mode)   cp2k  example/NaCl-CP2K/*-forces-1_0.xyz
vasp     vasprun.xml (expat reader: basis, positions, forces)
castep   no output in the repository: the block is written the way `collect_forces_castep` documents it
         (hook line, three header lines, `* El n fx fy fz *`).
"""

import os

import numpy as np

from . import c17_util as U

# unit in which the program prints forces (what the synthetic output is written in)
NATIVE_UNIT = {
    "vasp": "eV/angstrom", "abinit": "eV/angstrom", "qe": "Ry/au", "elk": "hartree/au", "siesta": "eV/angstrom",
    "crystal": "hartree/au", "dftbp": "hartree/au", "turbomole": "hartree/au", "aims": "eV/angstrom", "castep": "eV/angstrom",
    "pwmat": "eV/angstrom", "fleur": "hartree/au", "abacus": "eV/angstrom", "lammps": "eV/angstrom", "wien2k": "mRy/au",
    "cp2k": "hartree/au",
}
# outputs that carry no atomic positions at all (the "or refuses" clause cannot apply)
NO_POSITIONS = {"fleur", "siesta", "dftbp", "pwmat"}
INTERFACES = list(NATIVE_UNIT)


def _lammps_rotation(lat):
    """Q with lat @ Q = lower-triangular LAMMPS cell (a along x, b in the xy plane): Cholesky of the metric"""
    low = np.linalg.cholesky(lat @ lat.T)
    return np.linalg.inv(lat) @ low


def write_output(c, path, forces, cell, line_perm=None):
    """`forces`: (n, 3) in the native unit, in the atom order of `cell` (= order of the structure file).
    `line_perm` (LAMMPS only): order in which the per-atom lines are dumped; every line carries its atom id, and a
    parallel LAMMPS run without `dump_modify sort id` writes them in arbitrary order."""
    n = len(forces)
    syms = list(cell.symbols)
    nums = [int(z) for z in cell.numbers]
    L = []
    if c == "vasp":
        L += ['<?xml version="1.0" encoding="ISO-8859-1"?>', "<modeling>", ' <generator><i name="version" type="string">5.4.4  </i></generator>',
              " <calculation>", "  <structure>", "   <crystal>", '    <varray name="basis" >']
        L += ["     <v> %20.16f %20.16f %20.16f </v>" % tuple(r) for r in cell.cell]
        L += ["    </varray>", '    <i name="volume"> %20.16f </i>' % abs(np.linalg.det(cell.cell)), "   </crystal>", '   <varray name="positions" >']
        L += ["    <v> %20.16f %20.16f %20.16f </v>" % tuple(p) for p in cell.scaled_positions]
        L += ["   </varray>", "  </structure>", '  <varray name="forces" >']
        L += ["   <v> %20.14f %20.14f %20.14f </v>" % tuple(f) for f in forces]
        L += ["  </varray>", '  <energy><i name="e_fr_energy"> -1.0 </i><i name="e_wo_entrp"> -1.0 </i><i name="e_0_energy"> -1.0 </i></energy>',
              " </calculation>", "</modeling>"]
    elif c == "abinit":
        L += ["", " cartesian forces (eV/Angstrom) at end:"]
        L += ["%5d %20.14f %20.14f %20.14f" % ((i + 1,) + tuple(f)) for i, f in enumerate(forces)]
        L += [" frms,max,avg= 1.0E-03 1.0E-03   0.0E+00 0.0E+00 0.0E+00 e/A", ""]
    elif c == "qe":
        L += ["", "     Forces acting on atoms (cartesian axes, Ry/au):", ""]
        L += ["     atom %4d type %2d   force = %18.14f %18.14f %18.14f" % ((i + 1, 1) + tuple(f)) for i, f in enumerate(forces)]
        L += ["", "     Total force =     0.000864     Total SCF correction =     0.000043", ""]
    elif c == "elk":
        L += ["", "Forces :"]
        for i, f in enumerate(forces):
            if i == 0 or syms[i] != syms[i - 1]:
                L.append(" species : %4d (%s)" % (len(set(syms[:i + 1])), syms[i]))
            L += ["  atom : %4d" % (i + 1), "   Hellmann-Feynman          : %18.14f %18.14f %18.14f" % tuple(0.5 * f),
                  "   IBS                       : %18.14f %18.14f %18.14f" % tuple(0.5 * f),
                  "   total force               : %18.14f %18.14f %18.14f" % tuple(f), "   total magnitude           : %18.14f" % np.linalg.norm(f)]
        L += [""]
    elif c == "siesta":
        L += ["%6d" % n] + ["%6d %22.14f %22.14f %22.14f" % ((i + 1,) + tuple(f)) for i, f in enumerate(forces)]
    elif c == "crystal":
        L += ["", " CARTESIAN FORCES IN HARTREE/BOHR (ANALYTICAL)", "   ATOM                     X                   Y                   Z"]
        L += [" %3d %3d            %19.12E %19.12E %19.12E" % ((i + 1, nums[i]) + tuple(f)) for i, f in enumerate(forces)]
        L += ["", " RESULTANT FORCE                 0.0 0.0 0.0", ""]
    elif c == "dftbp":
        L += ["total_energy        :real:0:", " -0.892510758593478E+003", "forces              :real:2:3,%d" % n]
        L += [" %23.15E %23.15E %23.15E" % tuple(f) for f in forces]
        L += ["stress              :real:2:3,3"]
    elif c == "turbomole":
        os.makedirs(path, exist_ok=True)
        L += ["$grad          cartesian gradients", "  cycle =      1    SCF energy =   -62488.0815781100   |dE/dxyz| =  0.003274"]
        L += ["%22.14f %22.14f %22.14f      %s" % (tuple(p) + (s.lower(),)) for p, s in zip(cell.positions, syms)]
        L += [("  %22.14E  %22.14E  %22.14E" % tuple(-f)).replace("E", "D") for f in forces]
        L += ["$end"]
        open(os.path.join(path, "gradient"), "w").write("\n".join(L) + "\n")
        return
    elif c == "aims":
        L += ["  | Number of atoms                   : %8d" % n, "  | Unit cell:"]
        L += ["  | %17.8f %17.8f %17.8f" % tuple(r) for r in cell.cell]
        L += ["  | Atomic structure:", "  |       Atom                x [A]            y [A]            z [A]"]
        L += ["  | %4d: Species %-2s %17.8f %17.8f %17.8f" % ((i + 1, s) + tuple(p)) for i, (s, p) in enumerate(zip(syms, cell.positions))]
        L += ["", "  Total atomic forces (unitary forces cleaned) [eV/Ang]:"]
        L += ["  | %4d %30.15E %30.15E %30.15E" % ((i + 1,) + tuple(f)) for i, f in enumerate(forces)]
        L += [""]
    elif c == "castep":
        L += [" ***************** Symmetrised Forces *****************", " *                                                    *",
              " *           Cartesian components (eV/A)              *", " * -------------------------------------------------- *",
              " *                   x            y            z      *", " *                                                    *"]
        L += [" * %-2s %8d %18.12f %18.12f %18.12f *" % ((s, i + 1) + tuple(f)) for i, (s, f) in enumerate(zip(syms, forces))]
        L += [" *                                                    *", " ******************************************************", ""]
    elif c == "pwmat":
        # OUT.FORCE lists the negative of the force (the reader changes the sign)
        L += [" ****** force (eV/A) ******************"]
        L += [" %3d  %20.12E %20.12E %20.12E" % ((nums[i],) + tuple(-f)) for i, f in enumerate(forces)]
    elif c == "fleur":
        L += ["1", "1 #"] + ["  %26.16E %26.16E %26.16E force" % tuple(f) for f in forces]
    elif c == "abacus":
        L += ["                        TOTAL ATOM NUMBER = %d" % n, "", "TOTAL-FORCE (eV/Angstrom)",
              "------------------------------------------------------------------------------------------"]
        cnt = {}
        for s, f in zip(syms, forces):
            cnt[s] = cnt.get(s, 0) + 1
            L.append("%-10s %29.12f %20.12f %20.12f" % ("%s%d" % (s, cnt[s]), f[0], f[1], f[2]))
        L += ["------------------------------------------------------------------------------------------", ""]
    elif c == "lammps":
        q = _lammps_rotation(cell.cell)
        low = cell.cell @ q
        pos = cell.positions @ q
        fr = forces @ q
        L += ["ITEM: TIMESTEP", "0", "ITEM: NUMBER OF ATOMS", "%d" % n, "ITEM: BOX BOUNDS xy xz yz pp pp pp",
              "%.16e %.16e %.16e" % (0.0, low[0, 0], low[1, 0]), "%.16e %.16e %.16e" % (0.0, low[1, 1], low[2, 0]),
              "%.16e %.16e %.16e" % (0.0, low[2, 2], low[2, 1]), "ITEM: ATOMS id type x y z fx fy fz"]
        first = list(dict.fromkeys(syms))
        L += ["%d %d %15.8f %15.8f %15.8f %18.12f %18.12f %18.12f" % ((i + 1, first.index(syms[i]) + 1) + tuple(pos[i]) + tuple(fr[i]))
              for i in (range(n) if line_perm is None else line_perm)]
    elif c == "wien2k":
        red = np.array([v / np.sqrt(np.vdot(v, v)) for v in cell.cell])
        comp = forces @ np.linalg.inv(red)  # components along the normalised lattice vectors
        L += ["      TOTAL FORCE WITH RESPECT TO THE GLOBAL COORDINATE SYSTEM:"]
        L += [":FGL%03d:%4d.ATOM%s%16.9f%16.9f%16.9f total forces" % ((i + 1, i + 1, " " * 12) + tuple(f)) for i, f in enumerate(comp)]
        L += [""]
    elif c == "cp2k":
        L += ["", " ATOMIC FORCES in [a.u.]", "", " # Atom   Kind   Element          X              Y              Z"]
        first = list(dict.fromkeys(syms))
        L += [" %6d %6d %7s %22.14f %22.14f %22.14f" % ((i + 1, first.index(syms[i]) + 1, syms[i]) + tuple(f)) for i, f in enumerate(forces)]
        L += [" SUM OF ATOMIC FORCES          0.0 0.0 0.0 0.0", ""]
    else:
        raise KeyError(c)
    open(path, "w").write("\n".join(L) + "\n")


def file_order(c, supercell, workdir):
    """order in which the calculator numbers the atoms = order of the structure file phonopy writes for it
    (list: file position -> supercell index); identity for cp2k (writer unreachable: input order assumed)"""
    if c == "cp2k":
        return list(range(len(supercell)))
    out, _ = U.roundtrip(c, supercell, os.path.join(workdir, "order_%s" % c), direct=False)
    order = U.atom_order(supercell, out)
    return order
