"""Entry point: ./check Cxx --tier quick|thorough [--replay file]."""
import argparse
import importlib
import json
import os
import signal
import sys
import traceback

from . import common


def _term(signum, frame):
    # `timeout` / a runner sent SIGTERM: unwind (kills running driver process groups in common._run), exit 2
    raise SystemExit(2)


def main():
    signal.signal(signal.SIGTERM, _term)
    ap = argparse.ArgumentParser()
    ap.add_argument("prop")
    ap.add_argument("--tier", default=os.environ.get("VERIF_TIER", "quick"), choices=["quick", "thorough"])
    ap.add_argument("--replay", default=None)
    a = ap.parse_args()
    seed = int(os.environ.get("VERIF_SEED", "0") or 0)
    if a.replay:
        rp = json.load(open(a.replay))
        seed = int(rp.get("seed", seed))
        a.tier = rp.get("tier", a.tier)
    os.environ["VERIF_TIER_RUNNING"] = a.tier
    mod = importlib.import_module("harness.props.%s" % a.prop.lower())
    run = common.Run(a.prop, a.tier, seed, level=getattr(mod, "LEVEL", "proof"))
    try:
        mod.main(run)
    except SystemExit:
        raise
    except common.Broken as b:
        run.broke("harness", b.what, b.detail)
    except Exception as e:
        tb = traceback.extract_tb(e.__traceback__)
        in_repo = [f for f in tb if os.path.abspath(f.filename).startswith(os.path.abspath(common.REPO) + os.sep)]
        if in_repo:
            # the implementation raised on an input the harness considers well-formed:
            # the correspondence no longer checks (the search for a failing input continues in finish()).
            f = in_repo[-1]
            run.broke("impl-exception", "%s: %s at %s:%d (%s)" % (type(e).__name__, e, os.path.relpath(f.filename, common.REPO), f.lineno, f.name),
                      "".join(traceback.format_exception(e))[-2500:])
            run.finish()
        # a crash of the machinery is not a violation: exit 2
        traceback.print_exc()
        print("ERROR property=%s harness crashed (exit 2, not a verdict)" % a.prop)
        sys.exit(2)
    run.finish()


if __name__ == "__main__":
    main()
