"""Supervisor of one check run (`./check` execs this): runs `python -m harness.run ...` as a child and turns a death of
that process by a fatal signal (SIGSEGV, SIGABRT, SIGBUS, SIGFPE, SIGILL - the compiled kernels of /repo run in-process)
into a verdict instead of a silent crash: the correspondence no longer checks (the implementation cannot even be run on
the check's inputs), reported as `VIOLATION ... no-failing-input-found` with the Python traceback of the moment of death
(faulthandler) in the replay file.  Everything else (exit codes 0/1/2) is passed through."""
import collections
import os
import signal
import subprocess
import sys

FATAL = {signal.SIGSEGV: "SIGSEGV", signal.SIGABRT: "SIGABRT", signal.SIGBUS: "SIGBUS", signal.SIGFPE: "SIGFPE", signal.SIGILL: "SIGILL"}


def main():
    env = dict(os.environ, PYTHONFAULTHANDLER="1")
    p = subprocess.Popen([sys.executable, "-m", "harness.run"] + sys.argv[1:], stderr=subprocess.PIPE, env=env)

    def term(signum, frame):
        try:
            p.terminate()
            p.wait(timeout=20)
        except Exception:
            try:
                p.kill()
            except Exception:
                pass
        sys.exit(2)

    signal.signal(signal.SIGTERM, term)
    signal.signal(signal.SIGINT, term)
    tail = collections.deque(maxlen=120)
    for line in p.stderr:
        sys.stderr.buffer.write(line)
        sys.stderr.buffer.flush()
        tail.append(line.decode("utf-8", "replace"))
    rc = p.wait()
    if rc < 0 and -rc in FATAL:
        from . import common

        args = [a for a in sys.argv[1:] if not a.startswith("--")]
        prop = args[0] if args else "C00"
        tier = os.environ.get("VERIF_TIER", "quick")
        if "--tier" in sys.argv:
            tier = sys.argv[sys.argv.index("--tier") + 1]
        seed = int(os.environ.get("VERIF_SEED", "0") or 0)
        run = common.Run(prop, tier, seed)
        run.cov["rule"] = "the check process died before it could report; see no_longer_checks"
        tb = "".join(tail)
        i = tb.find("Fatal Python error")
        run.broke("impl-crash", "the check process died with %s while running /repo's code in-process (compiled kernels); "
                  "the implementation cannot be run on the check's inputs" % FATAL[-rc], tb[i:][-3000:] if i >= 0 else tb[-3000:])
        run.finish()
    sys.exit(rc if rc >= 0 else 2)


if __name__ == "__main__":
    main()
