#!/bin/sh
# tools/run_all.sh [tier] [seed] [jobs]: run every property's check against /repo (different properties in parallel), print the verdict lines
T="${1:-quick}"; S="${2:-1}"; J="${3:-4}"
cd /verif
seq -w 1 20 | xargs -P "$J" -I{} sh -c "VERIF_SEED=$S ./check C{} --tier $T 2>&1 | grep -E '^(OK|VIOLATION|KNOWN-FINDING|ERROR)' | cut -c1-220 | sed 's/^/C{}: /'"
