#!/usr/bin/env python3
"""tools/harmless_regress.py [--equiv] [--baseline] [--check] [--jobs N] [names...]

For every stored BEHAVIOUR-PRESERVING refactoring (harmless/<name>/: patch.diff, equiv.py, meta.json): apply the patch to a
scratch worktree of /repo's HEAD (under /tmp, removed afterwards) and
  --equiv    : run its equivalence program `equiv.py /repo <worktree>` (exit 0 = all public results agree);
  --baseline : run the pinned tests on the patched tree;
  --check    : run the owning property's quick check on seeds 0 and 1 — the expected outcome is OK (exit 0); a
               `no-failing-input-found` violation means a proof obligation / translator / inventory does not survive the
               rewrite (allowed by the rules, recorded), a failing input or a crash is a defect of the check.
Results: harmless/<name>/result.json.  Same check never runs twice at a time.
"""
import concurrent.futures as cf, json, os, subprocess, sys, threading, time

V = "/verif"
args = sys.argv[1:]
jobs = 4
if "--jobs" in args:
    jobs = int(args[args.index("--jobs") + 1]); del args[args.index("--jobs"):args.index("--jobs") + 2]
pairs = None
if "--pairs" in args:   # json list of [name, [checks...]]: run these (patch, check) pairs instead of the owning checks
    pairs = dict(json.load(open(args[args.index("--pairs") + 1]))); del args[args.index("--pairs"):args.index("--pairs") + 2]
do_equiv, do_base, do_check = "--equiv" in args, "--baseline" in args, "--check" in args
names = [a for a in args if not a.startswith("--")] or sorted(os.listdir(V + "/harmless"))
names = [n for n in names if os.path.exists("%s/harmless/%s/patch.diff" % (V, n))]
LOCK = threading.Lock()


def sh(cmd, **kw):
    return subprocess.run(cmd, capture_output=True, text=True, **kw)


HEAD = sh(["git", "-C", "/repo", "rev-parse", "--short", "HEAD"]).stdout.strip()


def save(name, upd):
    with LOCK:
        pf = "%s/harmless/%s/result.json" % (V, name)
        res = {}
        if os.path.exists(pf):
            res = json.load(open(pf))
        if res.get("head") != HEAD:
            res = {k: v for k, v in res.items() if k in ("equiv", "pinned_tests_pass_with_change")}
            res["head"] = HEAD
        for k, v in upd.items():
            if k == "checks":
                res.setdefault("checks", {}).update(v)
            else:
                res[k] = v
        json.dump(res, open(pf, "w"), indent=1)


def with_tree(name, fn):
    d = "%s/harmless/%s" % (V, name)
    wt = "/tmp/wt-harmless-%s-%d-%d" % (name, os.getpid(), threading.get_ident() % 100000)
    if sh(["git", "-C", "/repo", "worktree", "add", "-q", wt, "HEAD"]).returncode:
        return {"error": "worktree"}
    try:
        ap = sh(["git", "apply", d + "/patch.diff"], cwd=wt)
        if ap.returncode:
            ap = sh(["git", "apply", "-3", d + "/patch.diff"], cwd=wt)
        if ap.returncode:
            return {"applies_to_head": False}
        out = {"applies_to_head": True}
        out.update(fn(wt))
        return out
    finally:
        sh(["git", "-C", "/repo", "worktree", "remove", "--force", wt])


def static(name):
    def fn(wt):
        out = {}
        if do_equiv:
            t = time.time()
            try:
                r = sh(["/venv/bin/python", "%s/harmless/%s/equiv.py" % (V, name), "/repo", wt], cwd="/tmp", timeout=3000)
                out["equiv"] = {"rc": r.returncode, "tail": (r.stdout + r.stderr).strip().splitlines()[-2:], "wall_s": round(time.time() - t)}
            except subprocess.TimeoutExpired:
                out["equiv"] = {"rc": 124}
        if do_base:
            b = sh(["python3", V + "/tools/baseline_check.py", wt])
            out["pinned_tests_pass_with_change"] = b.returncode == 0
        return out
    r = with_tree(name, fn)
    save(name, r)
    return "%s equiv=%s tests=%s" % (name, (r.get("equiv") or {}).get("rc"), r.get("pinned_tests_pass_with_change"))


def run_check_group(c, ns):
    for name in ns:
        def fn(wt):
            out = {}
            for seed in (0, 1):
                env = dict(os.environ, VERIF_REPO=wt, VERIF_SEED=str(seed), VERIF_EVIDENCE_DIR="/tmp/seed-evidence")
                t = time.time()
                try:
                    r = sh([V + "/check", c], cwd=V, env=env, timeout=1800)
                    o = r.stdout + r.stderr; rc = r.returncode
                except subprocess.TimeoutExpired:
                    o, rc = "", 124
                vio = [ln for ln in o.splitlines() if ln.startswith("VIOLATION")]
                fi = [ln[:300] for ln in o.splitlines() if ln.startswith("failing input")]
                nl = [ln[:300] for ln in o.splitlines() if ln.startswith("no longer checks")]
                out["%s seed %d" % (c, seed)] = {"rc": rc, "outcome": ("OK" if rc == 0 else "no-failing-input-found" if vio and "no-failing-input-found" in vio[0] else "FAILING-INPUT" if rc == 1 else "CRASH/timeout"),
                                                 "failing_input": fi[:1], "no_longer_checks": nl[:3], "wall_s": round(time.time() - t)}
            return {"checks": out}
        r = with_tree(name, fn)
        save(name, r)
        print(name, c, " ".join("s%s:%s" % (k[-1], v["outcome"]) for k, v in (r.get("checks") or {}).items()), flush=True)


os.makedirs("/tmp/seed-evidence", exist_ok=True)
with cf.ThreadPoolExecutor(jobs) as ex:
    if do_equiv or do_base:
        for l in ex.map(static, names):
            print(l, flush=True)
    if do_check:
        by = {}
        for n in names:
            m = json.load(open("%s/harmless/%s/meta.json" % (V, n)))
            for c in (pairs.get(n, []) if pairs is not None else (m["checks"] if "checks" in m else [m.get("property")])):
                by.setdefault(c, []).append(n)
        list(ex.map(lambda kv: run_check_group(*kv), sorted(by.items())))
