#!/usr/bin/env python3
"""Assemble /verif/MANIFEST.json from manifest.d/<id>.json fragments (+ not_applicable.json)."""
import glob
import json
import os

HERE = os.path.dirname(os.path.dirname(os.path.abspath(__file__)))
props = [json.loads(l)["id"] for l in open(os.path.join(HERE, "properties.jsonl"))]
checks = []
claimed = set()
enabled_path = os.path.join(HERE, "manifest.d", "enabled.txt")
enabled = set(open(enabled_path).read().split()) if os.path.exists(enabled_path) else None
for f in sorted(glob.glob(os.path.join(HERE, "manifest.d", "C*.json"))):
    d = json.load(open(f))
    pid = d["property_id"]
    if enabled is not None and pid not in enabled:
        continue  # fragment exists but the coordinator has not yet validated the check
    d.setdefault("quick_cmd", "./check %s --tier quick" % pid)
    d.setdefault("thorough_cmd", "./check %s --tier thorough" % pid)
    d.setdefault("evidence_file", "evidence/%s.json" % pid)
    d.setdefault("replay_cmd_template", "./check %s --replay {path}" % pid)
    d.setdefault("engine", "lean4-model+correspondence")
    checks.append(d)
    claimed.add(pid)
na_path = os.path.join(HERE, "manifest.d", "not_applicable.json")
na = json.load(open(na_path)) if os.path.exists(na_path) else {}
not_app = []
for p in props:
    if p not in claimed:
        not_app.append({"property_id": p, "reason": na.get(p, "no check is registered yet for this property (machinery under construction; see DESIGN.md section 6)")})
hooks_path = os.path.join(HERE, "manifest.d", "hooks.json")
hooks = json.load(open(hooks_path))
m = {
    "version": 1,
    "setup_cmd": "./setup.sh",
    "hooks": hooks,
    "engines": [{
        "name": "lean4-model+correspondence",
        "path": "lean/ (lake project PhononModel), harness/ (Python), check",
        "serves_properties": sorted(claimed),
        "kind_free_text": "Lean 4 theorems about executable models (lean/PhononModel/Props/Cxx.lean, axioms audited on every run) + differential correspondence between the models (run at exact rationals through lean/Drivers/Cxx.lean) and /repo's code (C kernels rebuilt from /repo/c with the unchanged nanobind glue against a stub) + property oracle on the implementation as the failing-input search",
    }],
    "checks": checks,
    "not_applicable": not_app,
    "notes": "All checks: exit 0 held / exit 1 VIOLATION line / exit 2 harness or timeout problem (not a verdict). VERIF_SEED and VERIF_TIER honoured. Evidence is rewritten by every run. known_findings.json is committed and never written at run time.",
}
json.dump(m, open(os.path.join(HERE, "MANIFEST.json"), "w"), indent=1)
print("MANIFEST.json: %d checks, %d not_applicable" % (len(checks), len(not_app)))
