#!/usr/bin/env python3
"""T-tables (C17): numeric formats of the structure writers -> lean/PhononModel/Gen/WriterFormats.lean

For every interface the table says which format the writer uses for the lattice and for the atomic
positions: width, decimals, whether consecutive fields are separated by a literal blank (or by a
`" ".join`), whether the numbers are printed with `repr` (LAMMPS), whether positions are Cartesian,
whether the writer wraps positions into [0,1), and whether the reader is free-format or fixed-column.

WHAT is extracted from the source with `ast` on every run: the format strings (conversion specs) of the
function named in ROLES, their width / decimals / separators, delegation to
`vasp.get_scaled_positions_lines`, and the wrapping expression (`% 1`, `np.floor`).
WHAT is declared here by hand (ROLES): which function writes the structure, which of its format
groups is the lattice and which the positions, Cartesian vs fractional, reader kind.  The harness
cross-checks all of it empirically on every run (precision actually kept, wrapping actually done).
A writer whose format groups no longer match ROLES makes the tool fail loudly.
"""
from __future__ import annotations

import ast
import os
import re
import sys


class Untranslatable(Exception):
    pass


PCT = re.compile(r"%(?P<flag>[ +\-0]*)(?P<w>\d*)\.(?P<d>\d+)l?(?P<k>[fEe])")
BRACE = re.compile(r"\{[^{}:]*:(?P<flag>[ +\-0<]*)(?P<w>\d*)\.(?P<d>\d+)(?P<k>[fEe])\}")

# interface -> public entry function of the writer, lattice group, position group, cartesian, reader, lattice kind.
# group = index into the list of numeric format groups (string constants holding float specs) of the entry function and of
# every function of the same module it reaches through calls, in call order — private helpers may be renamed, split or
# merged freely as long as the order of the format strings is kept;
# position "vasp" = the writer calls vasp.get_scaled_positions_lines; "repr" = f"{x}" without a format spec
ROLES = {
    "vasp": dict(file="vasp.py", func="get_vasp_structure_lines", lattice=0, position=1, cart=False, reader="free", shares_vasp_positions=True),
    "abinit": dict(file="abinit.py", func="get_abinit_structure", lattice=0, position="vasp", cart=False, reader="free"),
    "qe": dict(file="qe.py", func="get_pwscf_structure", lattice=0, position="vasp", cart=False, reader="free"),
    "wien2k": dict(file="wien2k.py", func="write_wein2k", lattice=0, position=2, cart=False, reader="columns", latkind="cellpar"),
    "elk": dict(file="elk.py", func="get_elk_structure", lattice=0, position="vasp", cart=False, reader="free"),
    "siesta": dict(file="siesta.py", func="get_siesta_structure", lattice=0, position=1, cart=False, reader="free"),
    "crystal": dict(file="crystal.py", func="get_crystal_structure", lattice=0, position=3, cart=True, reader="free"),
    "dftbp": dict(file="dftbp.py", func="write_dftbp", lattice=1, position=0, cart=True, reader="free"),
    "turbomole": dict(file="turbomole.py", func="write_turbomole", lattice=0, position=1, cart=True, reader="free"),
    "aims": dict(file="aims.py", func="write_aims", lattice=0, position=1, cart=True, reader="free"),
    "castep": dict(file="castep.py", func="get_castep_structure", lattice=0, position=1, cart=False, reader="free"),
    "fleur": dict(file="fleur.py", func="get_fleur_structure", lattice=0, position=1, cart=False, reader="free", through_numpy_str=True),
    "abacus": dict(file="abacus.py", func="get_abacus_structure", lattice=0, position=0, cart=False, reader="free", joined_in_entry=True),
    "lammps": dict(file="lammps.py", func="class:LammpsStructureDumper", lattice="repr", position="repr", cart=True, reader="free", latkind="triangular"),
    "pwmat": dict(file="pwmat.py", func="get_pwmat_structure", lattice=0, position=1, cart=False, reader="free"),
}


def _find_func(tree, dotted):
    parts = dotted.split(".")
    body = tree.body
    node = None
    for p in parts:
        node = None
        for st in body:
            if isinstance(st, (ast.FunctionDef, ast.ClassDef)) and st.name == p:
                node = st
                break
        if node is None:
            raise Untranslatable("function %s not found" % dotted)
        body = node.body
    return node


def _reachable(tree, entry):
    """entry function (or `class:Name`: all methods of the class) and the module-level functions / methods it reaches
    through calls by name, in order of first call"""
    funcs = {}
    for st in tree.body:
        if isinstance(st, ast.FunctionDef):
            funcs[st.name] = st
        elif isinstance(st, ast.ClassDef):
            for m in st.body:
                if isinstance(m, ast.FunctionDef):
                    funcs.setdefault(m.name, m)
    if entry.startswith("class:"):
        cls = [st for st in tree.body if isinstance(st, ast.ClassDef) and st.name == entry[6:]]
        if not cls:
            raise Untranslatable("class %s not found" % entry[6:])
        start = [m for m in cls[0].body if isinstance(m, ast.FunctionDef)]
    else:
        if entry not in funcs:
            raise Untranslatable("function %s not found" % entry)
        start = [funcs[entry]]
    order, seen = [], set()

    def visit(fn):
        if id(fn) in seen:
            return
        seen.add(id(fn))
        order.append(fn)
        calls = []
        for n in ast.walk(fn):
            if isinstance(n, ast.Call):
                f = n.func
                nm = f.id if isinstance(f, ast.Name) else f.attr if isinstance(f, ast.Attribute) else None
                if nm in funcs and funcs[nm] is not fn:
                    calls.append((n.lineno, n.col_offset, nm))
        for _, _, nm in sorted(calls):
            visit(funcs[nm])

    for fn in start:
        visit(fn)
    return order


def _groups_reachable(tree, entry, src):
    out = []
    for fn in _reachable(tree, entry):
        out += _groups(fn, src)
    # a nested helper is seen both inside its parent and on its own: keep the first occurrence of a source position
    seen, res = set(), []
    for g in out:
        if g[:2] not in seen:
            seen.add(g[:2])
            res.append(g)
    return res


def _groups(fn, src):
    """numeric format groups of a function in source order: (lineno, col, kind, text, joined)"""
    out = []
    parents = {}
    for n in ast.walk(fn):
        for ch in ast.iter_child_nodes(n):
            parents[ch] = n
    for n in ast.walk(fn):
        if isinstance(n, ast.Constant) and isinstance(n.value, str) and not isinstance(parents.get(n), ast.JoinedStr):
            # `" " + "{:.10f}".format(x)`: a blank literal concatenated in front of / behind the field
            glued = False
            p = parents.get(n)
            if isinstance(p, ast.Attribute):
                p = parents.get(p)  # "...".format
            if isinstance(p, ast.Call):
                p = parents.get(p)
            if isinstance(p, ast.BinOp) and isinstance(p.op, ast.Add):
                for other in (p.left, p.right):
                    if isinstance(other, ast.Constant) and isinstance(other.value, str) and other.value != "" and other.value.strip() == "":
                        glued = True
            if PCT.search(n.value):
                out.append((n.lineno, n.col_offset, "pct", n.value, glued))
            elif BRACE.search(n.value):
                out.append((n.lineno, n.col_offset, "brace", n.value, glued))
        elif isinstance(n, ast.JoinedStr):
            txt = ""
            has = False
            for v in n.values:
                if isinstance(v, ast.Constant):
                    txt += str(v.value)
                elif isinstance(v, ast.FormattedValue):
                    if v.format_spec is not None:
                        spec = "".join(str(x.value) for x in v.format_spec.values if isinstance(x, ast.Constant))
                        txt += "{:" + spec + "}"
                        has = has or bool(re.search(r"\.\d+[fEe]", spec))
                    else:
                        txt += "{}"
            if has:
                # inside `sep.join(<generator of this f-string>)` with a blank separator?
                joined = False
                p = parents.get(n)
                while p is not None and not isinstance(p, ast.stmt):
                    if isinstance(p, ast.Call) and isinstance(p.func, ast.Attribute) and p.func.attr == "join" \
                            and isinstance(p.func.value, ast.Constant) and isinstance(p.func.value.value, str) and p.func.value.value.strip() == "" \
                            and p.func.value.value != "":
                        joined = True
                    p = parents.get(p)
                out.append((n.lineno, n.col_offset, "brace", txt, joined))
    seen, res = set(), []
    for g in sorted(out):
        if g[:2] not in seen:
            seen.add(g[:2])
            res.append(g)
    return res


def _field(kind, text, joined):
    """(width, decimals, separated) of the float fields of one group; all fields of a group must agree"""
    rx = PCT if kind == "pct" else BRACE
    ms = list(rx.finditer(text))
    specs = {(m.group("w"), m.group("d"), m.group("k")) for m in ms}
    if len(specs) != 1:
        raise Untranslatable("format group %r mixes float formats" % text)
    w, d, k = specs.pop()
    if k not in "f":
        raise Untranslatable("format group %r is not fixed-point" % text)
    sep = True
    for m in ms:
        before = text[m.start() - 1] if m.start() > 0 else ""
        after = text[m.end()] if m.end() < len(text) else ""
        # a field is separated from its neighbour when a literal blank stands before or after it
        if not (before.isspace() or after.isspace() or (before != "" and not before.isdigit() and before not in "%}") or joined):
            sep = False
    # a group holding a single spec that the source repeats with `* 3`: the literal around the spec decides
    return int(w) if w else 0, int(d), sep


def _wraps(fn):
    """does the function reduce positions modulo 1?  (`x % 1`, `x -= np.floor(x)`)"""
    for n in ast.walk(fn):
        if isinstance(n, ast.BinOp) and isinstance(n.op, ast.Mod) and isinstance(n.right, ast.Constant) and n.right.value == 1 \
                and not (isinstance(n.left, ast.Constant) and isinstance(n.left.value, str)):
            return True
        if isinstance(n, ast.Call) and isinstance(n.func, ast.Attribute) and n.func.attr == "floor":
            return True
    return False


def _calls(fn, name):
    for n in ast.walk(fn):
        if isinstance(n, ast.Call):
            f = n.func
            if (isinstance(f, ast.Name) and f.id == name) or (isinstance(f, ast.Attribute) and f.attr == name):
                return True
    return False


def table(repo):
    idir = os.path.join(repo, "phonopy", "interface")
    cache = {}

    def load(fname):
        if fname not in cache:
            src = open(os.path.join(idir, fname)).read()
            cache[fname] = (src, ast.parse(src))
        return cache[fname]

    vsrc, vtree = load("vasp.py")
    # vasp.get_scaled_positions_lines (public helper used by abinit, qe, elk and the POSCAR writer)
    vfns = _reachable(vtree, "get_scaled_positions_lines")
    vg = [g for fn in vfns for g in _groups(fn, vsrc)]
    if len(vg) != 1:
        raise Untranslatable("vasp.get_scaled_positions_lines: %d format groups" % len(vg))
    vasp_pos = _field(vg[0][2], vg[0][3], vg[0][4])
    vasp_wraps = any(_wraps(fn) for fn in vfns)

    rows = []
    for name, r in ROLES.items():
        src, tree = load(r["file"])
        fns = _reachable(tree, r["func"])
        gs = _groups_reachable(tree, r["func"], src)
        extra_join = False
        if r.get("joined_in_entry"):
            # the entry function joins the strings of the helper that holds the format with a blank
            helper_names = {f.name for f in fns[1:]}
            ok = False
            for n in ast.walk(fns[0]):
                if isinstance(n, ast.Call) and isinstance(n.func, ast.Attribute) and n.func.attr == "join" and isinstance(n.func.value, ast.Constant) \
                        and n.func.value.value == " " and n.args and any(_calls(n.args[0], h) for h in helper_names):
                    ok = True
            if not ok:
                raise Untranslatable("%s: %s no longer joins its formatted numbers with a blank" % (name, r["func"]))
            extra_join = True

        def field(idx, what):
            if idx == "repr":
                # f"{x}" of a float: shortest string that round-trips (17 significant digits at most)
                if not any(isinstance(n, ast.FormattedValue) and n.format_spec is None for fn in fns for n in ast.walk(fn)):
                    raise Untranslatable("%s: no bare f-string field in %s" % (name, r["func"]))
                return (0, 17, True, "repr")
            if idx == "vasp":
                if not any(_calls(fn, "get_scaled_positions_lines") or _calls(fn, "_get_scaled_positions_lines") for fn in fns):
                    raise Untranslatable("%s: %s no longer calls get_scaled_positions_lines" % (name, r["func"]))
                return vasp_pos + ("fixed",)
            if not isinstance(idx, int) or idx >= len(gs):
                raise Untranslatable("%s: %s reaches %d numeric format groups, ROLES expects %s group %r" % (name, r["func"], len(gs), what, idx))
            g = gs[idx]
            w, d, sep = _field(g[2], g[3], g[4] or extra_join)
            if what == "position" and r.get("through_numpy_str"):
                # the value is first turned into text by str(ndarray) (numpy prints 8 significant digits) and parsed back
                if not any(isinstance(n, ast.Call) and isinstance(n.func, ast.Name) and n.func.id == "str" for fn in fns for n in ast.walk(fn)):
                    raise Untranslatable("%s: %s no longer passes positions through str()" % (name, r["func"]))
                d = min(d, 8)
            return (w, d, sep, "fixed")

        lat = field(r["lattice"], "lattice")
        pos = field(r["position"], "position")
        if r["position"] == "vasp" or r.get("shares_vasp_positions"):
            wraps = vasp_wraps
            if r.get("shares_vasp_positions") and pos[:3] != vasp_pos:
                raise Untranslatable("vasp: POSCAR positions are no longer written by get_scaled_positions_lines' format")
        else:
            wraps = any(_wraps(fn) for fn in fns)
        rows.append(dict(name=name, lattice=lat, position=pos, cart=r["cart"], wraps=wraps, reader=r["reader"],
                         latkind=r.get("latkind", "vectors"), ngroups=len(gs)))
    return rows


def render(rows):
    L = ["/- GENERATED by tools/writers2lean.py from phonopy/interface/*.py — do not edit. -/",
         "import PhononModel.Model.WriterFormat", "namespace PhononModel.Gen.WriterFormats", "open PhononModel.WriterFormat", "",
         "def writerFormats : List WriterFmt := ["]
    items = []
    for r in rows:
        def f(t):
            return "{ width := %d, decimals := %d, sep := %s, kind := .%s }" % (t[0], t[1], "true" if t[2] else "false", t[3])
        items.append("  { name := \"%s\",\n    lattice := %s, latticeKind := .%s,\n    position := %s,\n    cartesian := %s, wraps := %s, reader := .%s }" % (
            r["name"], f(r["lattice"]), r["latkind"], f(r["position"]), "true" if r["cart"] else "false", "true" if r["wraps"] else "false", r["reader"]))
    L.append(",\n".join(items))
    L += ["]", "", "end PhononModel.Gen.WriterFormats", ""]
    return "\n".join(L)


def generate(repo, out):
    text = render(table(repo))
    old = open(out).read() if os.path.exists(out) else None
    if old != text:
        tmp = out + ".tmp%d" % os.getpid()
        with open(tmp, "w") as fh:
            fh.write(text)
        os.replace(tmp, out)
    return text


if __name__ == "__main__":
    here = os.path.dirname(os.path.dirname(os.path.abspath(__file__)))
    repo = sys.argv[1] if len(sys.argv) > 1 else os.environ.get("VERIF_REPO", "/repo")
    out = sys.argv[2] if len(sys.argv) > 2 else os.path.join(here, "lean", "PhononModel", "Gen", "WriterFormats.lean")
    print(generate(repo, out))
