#!/usr/bin/env python3
"""T-pragma: inventory of every `#pragma omp` in <repo>/c/*.c and c/*.cpp.

For each pragma: file, enclosing function, the pragma clauses (`private(...)`,
`if (...)`), the loop header that follows it (variable, bound expression), the
function-scope scalar / fixed-size-array locals that the loop body assigns or
hands to a callee (these must be `private`, the loop variable excepted), and a
hash of the normalised loop body text.  `./check C13` runs this on every run and
compares the result with the inventory the Lean footprint model
(lean/PhononModel/Model/KernelFootprint.lean, `inventory`) was written against.

Usage: pragmas.py [repo]  -> JSON list on stdout (sorted by file, line).
"""
import hashlib
import json
import os
import re
import sys


def strip_comments(src):
    out = []
    i, n = 0, len(src)
    while i < n:
        if src.startswith("/*", i):
            j = src.find("*/", i + 2)
            j = n if j < 0 else j + 2
            out.append("".join(c if c == "\n" else " " for c in src[i:j]))
            i = j
        elif src.startswith("//", i):
            j = src.find("\n", i)
            j = n if j < 0 else j
            out.append(" " * (j - i))
            i = j
        elif src[i] == '"' or src[i] == "'":
            qc = src[i]
            j = i + 1
            while j < n and src[j] != qc:
                j += 2 if src[j] == "\\" else 1
            out.append(src[i:j + 1])
            i = j + 1
        else:
            out.append(src[i])
            i += 1
    return "".join(out)


def match_brace(src, i, open_c="{", close_c="}"):
    """src[i] == open_c; returns index of the matching close."""
    depth = 0
    for j in range(i, len(src)):
        if src[j] == open_c:
            depth += 1
        elif src[j] == close_c:
            depth -= 1
            if depth == 0:
                return j
    raise ValueError("unbalanced %s at %d" % (open_c, i))


FUNC_RE = re.compile(r"^[A-Za-z_][\w\s\*]*?\b([A-Za-z_]\w*)\s*\(", re.M)
TYPES = r"(?:const\s+)?(?:unsigned\s+)?(?:int64_t|int|double|char|long|float)"


def functions(src):
    """(name, body_start, body_end, header_text) for every top-level function definition."""
    out = []
    depth = 0
    i, n = 0, len(src)
    line_start = 0
    while i < n:
        c = src[i]
        if c == "{":
            if depth == 0:
                # header = text since the previous ';' or '}' at depth 0
                k = max(src.rfind(";", 0, i), src.rfind("}", 0, i), src.rfind("#", 0, i))
                header = src[k + 1:i]
                # skip a preprocessor line remainder
                if "\n" in header and src[k] == "#":
                    header = header[header.find("\n") + 1:]
                m = re.search(r"([A-Za-z_]\w*)\s*\(", header)
                end = match_brace(src, i)
                if m and "(" in header and not re.match(r"\s*(struct|enum|union|namespace)\b", header):
                    out.append((m.group(1), i, end, header))
                i = end + 1
                continue
        i += 1
    return out


def local_decls(body):
    """function-scope scalars / fixed arrays (not pointers) declared in a function body: name -> kind."""
    decls = {}
    depth = 0
    stmt = []
    for ch in body[1:-1]:
        if ch == "{":
            depth += 1
        elif ch == "}":
            depth -= 1
            stmt = []
            continue
        if depth == 0:
            if ch == ";":
                s = "".join(stmt).strip()
                stmt = []
                m = re.match(r"^(%s)\s+(.*)$" % TYPES, s, re.S)
                if m and "(" not in s.split("=")[0].replace("(*", "<*"):
                    for part in split_top(m.group(2)):
                        part = part.split("=")[0].strip()
                        mm = re.match(r"^(\**)\s*([A-Za-z_]\w*)\s*((?:\[[^\]]*\])*)$", part)
                        if mm:
                            if mm.group(1):
                                decls[mm.group(2)] = "pointer"
                            elif mm.group(3):
                                decls[mm.group(2)] = "array"
                            else:
                                decls[mm.group(2)] = "scalar"
                elif m:
                    # e.g. double (*vec)[3]; -> pointer
                    for mm in re.finditer(r"\(\*\s*([A-Za-z_]\w*)\s*\)", s):
                        decls[mm.group(1)] = "pointer"
            else:
                stmt.append(ch)
    return decls


def split_top(s):
    out, depth, cur = [], 0, []
    for ch in s:
        if ch in "([{":
            depth += 1
        elif ch in ")]}":
            depth -= 1
        if ch == "," and depth == 0:
            out.append("".join(cur))
            cur = []
        else:
            cur.append(ch)
    out.append("".join(cur))
    return out


def analyse_loop(src, pos):
    """src[pos:] starts right after the pragma (and an optional #endif); parse `for (v = a; v < bound; v++) {body}`."""
    m = re.compile(r"\s*(?:#endif\s*)?for\s*\(").match(src, pos)
    if not m:
        return None
    p_open = m.end() - 1
    p_close = match_brace(src, p_open, "(", ")")
    header = src[p_open + 1:p_close]
    parts = [x.strip() for x in header.split(";")]
    var = parts[0].split("=")[0].strip()
    bound = re.sub(r"\s+", " ", parts[1])
    b_open = src.index("{", p_close)
    b_close = match_brace(src, b_open)
    body = src[b_open:b_close + 1]
    return var, bound, body


def assigned_or_passed(body, decls):
    """locals (scalar/array) that the body assigns, increments, or passes bare to a callee."""
    need = set()
    for name, kind in decls.items():
        if kind == "pointer":
            continue
        # assignment to the scalar or to an element of the local array
        if re.search(r"(?<![\w\.])%s\s*(?:\[[^\]]*\]\s*)*(?:=(?!=)|\+=|-=|\*=|/=|\+\+|--)" % re.escape(name), body):
            need.add(name)
        elif re.search(r"(?:\+\+|--)\s*%s\b" % re.escape(name), body):
            need.add(name)
        elif kind == "array" and re.search(r"[\(,]\s*%s\s*[,\)]" % re.escape(name), body):
            # a local array handed to a callee may be written by it; read-only ones are
            # recognised by an initialiser (`= {...}`) at the declaration and never assigned
            need.add(name)
    return need


def writable_pointer_params(header):
    """names of the non-const pointer / array parameters of a function header"""
    a = header.index("(")
    b = match_brace(header, a, "(", ")")
    out = set()
    for prm in split_top(header[a + 1:b]):
        prm = prm.strip()
        if not prm or prm.startswith("const ") or ("*" not in prm and "[" not in prm):
            continue
        m = re.search(r"\(\*\s*([A-Za-z_]\w*)\s*\)", prm) or re.search(r"([A-Za-z_]\w*)\s*(?:\[[^\]]*\])*$", prm)
        if m:
            out.add(m.group(1))
    return out


def writer_callees(body, shared, funcs, src, seen=None):
    """functions (defined in this file) that are handed a shared writable pointer, transitively: name -> sha.
    These are the routines whose text determines the write set of the loop."""
    seen = {} if seen is None else seen
    byname = {n: (a, b, h) for n, a, b, h in funcs}
    for m in re.finditer(r"\b([A-Za-z_]\w*)\s*\(", body):
        name = m.group(1)
        if name not in byname or name in seen:
            continue
        close = match_brace(body, m.end() - 1, "(", ")")
        args = [x.strip() for x in split_top(body[m.end():close])]
        hit = [k for k, x in enumerate(args) if re.match(r"^([A-Za-z_]\w*)\b", x) and re.match(r"^([A-Za-z_]\w*)\b", x).group(1) in shared]
        if not hit:
            continue
        a, b, h = byname[name]
        cbody = src[a:b + 1]
        seen[name] = hashlib.sha1(re.sub(r"\s+", " ", h + cbody).encode()).hexdigest()[:12]
        # inside the callee, the shared pointers are its parameters at the hit positions (+ its own writable ones)
        pa = h.index("(")
        prms = split_top(h[pa + 1:match_brace(h, pa, "(", ")")])
        inner = set()
        for k in hit:
            if k < len(prms):
                mm = re.search(r"\(\*\s*([A-Za-z_]\w*)\s*\)", prms[k]) or re.search(r"([A-Za-z_]\w*)\s*(?:\[[^\]]*\])*\s*$", prms[k])
                if mm:
                    inner.add(mm.group(1))
        writer_callees(cbody, inner, funcs, src, seen)
    return seen


def inventory(repo):
    cdir = os.path.join(repo, "c")
    out = []
    for f in sorted(os.listdir(cdir)):
        if not f.endswith((".c", ".cpp")):
            continue
        raw = open(os.path.join(cdir, f)).read()
        src = strip_comments(raw)
        # join continuation lines of pragmas for clause parsing, but keep offsets by working on a copy
        funcs = functions(src)
        for m in re.finditer(r"^[ \t]*#pragma\s+omp\b((?:[^\n\\]|\\\n|\\.)*)$", src, re.M):
            line = src.count("\n", 0, m.start()) + 1
            clause_text = re.sub(r"\\\n", " ", m.group(1))
            clause_text = re.sub(r"\s+", " ", clause_text).strip()
            kind = re.split(r"\b(?:first|last)?private\b|\bif\b", clause_text)[0].strip()
            priv = []
            pm = re.search(r"private\s*\(([^)]*)\)", clause_text)
            if pm:
                priv = sorted(x.strip() for x in pm.group(1).split(",") if x.strip())
            im = re.search(r"\bif\s*\(", clause_text)
            cond = None
            if im:
                cond = clause_text[im.end():match_brace(clause_text, im.end() - 1, "(", ")")].strip()
            fn = None
            fbody = None
            fhdr = None
            for name, a, b, hdr in funcs:
                if a < m.start() < b:
                    fn, fbody, fhdr = name, src[a:b + 1], hdr
            loop = analyse_loop(src, m.end())
            macros = dict(re.findall(r"^[ \t]*#define\s+(\w+)\s+(\(?-?\d+\)?)\s*$", src, re.M))
            cond_resolved = None if cond is None else re.sub(r"\b(\w+)\b", lambda mm: macros.get(mm.group(1), mm.group(1)).strip("()"), cond)
            rec = {"file": "c/" + f, "line": line, "function": fn, "directive": kind, "private": priv, "if": cond, "if_resolved": cond_resolved}
            if loop and fbody is not None:
                var, bound, body = loop
                decls = local_decls(fbody)
                # read-only initialised arrays (e.g. is_shift[3] = {0,0,0}) are shared by intent
                ro = set(re.findall(r"\b([A-Za-z_]\w*)\s*\[[^\]]*\]\s*=\s*\{", fbody))
                need = sorted(x for x in assigned_or_passed(body, decls) if x != var and x not in ro)
                rec.update({
                    "loop_var": var,
                    "loop_bound": bound,
                    "body_assigns_locals": need,
                    "private_complete": set(need) <= set(priv),
                    "private_exact": sorted(need) == sorted(priv),
                    "body_sha": hashlib.sha1(re.sub(r"\s+", " ", body).encode()).hexdigest()[:12],
                })
                shared = writable_pointer_params(fhdr) | {n for n, k in decls.items() if k == "pointer"}
                rec["writer_callees"] = writer_callees(body, shared, funcs, src)
            out.append(rec)
    out.sort(key=lambda r: (r["file"], r["line"]))
    return out


def malloc_inventory(repo):
    """every heap temporary of the kernels: file|function|variable|element type|element count expression"""
    cdir = os.path.join(repo, "c")
    out = []
    for f in sorted(os.listdir(cdir)):
        if not f.endswith((".c", ".cpp")):
            continue
        src = strip_comments(open(os.path.join(cdir, f)).read())
        funcs = functions(src)
        for m in re.finditer(r"([A-Za-z_]\w*)\s*=\s*(?:\([^;=]*?\)\s*)?malloc\s*\(", src):
            close = match_brace(src, m.end() - 1, "(", ")")
            arg = re.sub(r"\s+", " ", src[m.end():close]).strip()
            mm = re.match(r"sizeof\s*\(([^)]*(?:\[[^\]]*\])*[^)]*)\)\s*\*\s*(.*)$", arg)
            etype, count = (mm.group(1).strip(), mm.group(2).strip()) if mm else ("?", arg)
            fn = None
            for name, a, b, hdr in funcs:
                if a < m.start() < b:
                    fn = name
            out.append({"file": "c/" + f, "line": src.count("\n", 0, m.start()) + 1, "function": fn, "var": m.group(1),
                        "elem": etype, "count": count, "key": "c/%s|%s|%s|%s|%s" % (f, fn, m.group(1), etype, count)})
    out.sort(key=lambda r: (r["file"], r["line"]))
    return out


def key(rec):
    """what the model is pinned to: everything except line numbers"""
    return "%s|%s|%s|%s|%s|private(%s)|if(%s)|%s|%s" % (
        rec["file"], rec["function"], rec["directive"], rec.get("loop_var"), rec.get("loop_bound"),
        ",".join(rec["private"]), rec["if"] or "", rec.get("body_sha"),
        ",".join("%s:%s" % kv for kv in sorted((rec.get("writer_callees") or {}).items())))


if __name__ == "__main__":
    repo = sys.argv[1] if len(sys.argv) > 1 else os.environ.get("VERIF_REPO", "/repo")
    inv = inventory(repo)
    for r in inv:
        r["key"] = key(r)
    json.dump({"pragmas": inv, "mallocs": malloc_inventory(repo)}, sys.stdout, indent=1)
    print()


# ======================================================================================================
# canonical inventory (v2): invariant under renaming of static functions and locals, `private(x)` vs a
# declaration of x inside the loop body, moving a loop body into a static helper, renaming of heap temporaries.
# It identifies, per parallel loop: the external-linkage functions that reach it, the loop bound and `if` clause
# (parameters by position), the SHARED objects written inside the parallel region (pointer parameters by position,
# heap temporaries by element type and element count, followed through calls into helpers) and the non-private
# function-scope locals written there (a race; must be empty); per malloc: reaching entry points, element type,
# element count.  Not identified: names of statics/locals, private lists, index expressions, statement order.
# ======================================================================================================

_ASSIGN = r"(?:=(?!=)|\+=|-=|\*=|/=|\+\+|--)"
_DECL_RE = re.compile(r"(?:^|(?<=[;{}]))\s*((?:const\s+)?(?:unsigned\s+)?(?:int64_t|int|double|char|long|float))(?:\s+|(?=\())([^;(){}]*?(?:\(\*\s*\w+\s*\)[^;{}]*?)?);", re.S)


def _writes(text):
    """(identifier, has_index) for every `x = …`, `x[..][..] op= …`, `x++`, `++x` in text (brackets balanced)"""
    out = []
    for m in re.finditer(r"(?<![\w\.>])([A-Za-z_]\w*)\s*(?=[\[=+\-*/])", text):
        j = m.end()
        idx = False
        while j < len(text) and text[j] == "[":
            j = match_brace(text, j, "[", "]") + 1
            idx = True
            while j < len(text) and text[j] in " \t\n":
                j += 1
        if re.match(_ASSIGN, text[j:j + 2]) and not (text[j:j + 2] in ("++", "--") and False):
            out.append((m.group(1), idx))
    for m in re.finditer(r"(?:\+\+|--)\s*([A-Za-z_]\w*)", text):
        out.append((m.group(1), False))
    for m in re.finditer(r"\*\s*([A-Za-z_]\w*)\s*%s" % _ASSIGN, text):
        before = text[max(0, m.start() - 40):m.start()]
        if re.search(r"(?:\b(?:double|int64_t|int|char|long|float|const|unsigned)\b|\*)\s*$", before):
            continue      # `double *p = …` is a declaration with initialiser, not a store through p
        out.append((m.group(1), True))
    return out


def _fold_product(expr):
    """normal form of a pure product: integer literals multiplied, factors sorted, `1 *` dropped; other expressions unchanged"""
    e = expr.strip()
    _CAST = r"^\(\s*(?:const\s+)?(?:unsigned\s+)?(?:size_t|ssize_t|uint64_t|int64_t|int|long|double)\s*\)\s*"
    while True:
        e0 = e
        while e.startswith("(") and match_brace(e, 0, "(", ")") == len(e) - 1:
            e = e[1:-1].strip()
        mc = re.match(_CAST, e)
        if mc:
            rest_ = e[mc.end():].strip()
            if rest_.startswith("(") and match_brace(rest_, 0, "(", ")") == len(rest_) - 1:
                e = rest_          # a value cast over the whole (parenthesised) expression
        if e == e0:
            break
    depth, parts, cur = 0, [], []
    for ch in e:
        if ch in "([":
            depth += 1
        elif ch in ")]":
            depth -= 1
        if depth == 0 and ch in "+-/%<>=&|?:,":
            return re.sub(r"\s+", " ", e)
        if depth == 0 and ch == "*":
            parts.append("".join(cur).strip())
            cur = []
        else:
            cur.append(ch)
    parts.append("".join(cur).strip())
    flat = []
    for q in parts:
        q = re.sub(r"^\(\s*(?:const\s+)?(?:unsigned\s+)?(?:size_t|ssize_t|uint64_t|int64_t|int|long|double)\s*\)\s*", "", q)          # value casts
        if q.startswith("(") and match_brace(q, 0, "(", ")") == len(q) - 1:
            inner = _fold_product(q[1:-1])
            if not re.search(r"[+\-/%<>=&|?:,]", inner):
                flat += [x.strip() for x in inner.split("*")]
                continue
        flat.append(q)
    const, rest = 1, []
    for q in flat:
        if re.fullmatch(r"\d+", q):
            const *= int(q)
        else:
            rest.append(q)
    rest.sort()
    if const != 1 or not rest:
        rest = [str(const)] + rest
    return " * ".join(rest)


def _single_assignments(fn_body, decls):
    """local scalar -> defining expression, for scalars assigned exactly once (declaration initialiser or one statement)"""
    cnt, val = {}, {}
    for m in re.finditer(r"(?<![\w\]\.>])([A-Za-z_]\w*)\s*=(?!=)\s*([^;,]+)[;,]", fn_body):
        x = m.group(1)
        if decls.get(x) == "scalar":
            cnt[x] = cnt.get(x, 0) + 1
            val[x] = m.group(2).strip()
    for m in re.finditer(r"(?<![\w\]\.>])([A-Za-z_]\w*)\s*(?:\+=|-=|\*=|/=|\+\+|--)|(?:\+\+|--)\s*([A-Za-z_]\w*)", fn_body):
        x = m.group(1) or m.group(2)
        cnt[x] = cnt.get(x, 0) + 2
    return {x: v for x, v in val.items() if cnt.get(x) == 1 and not re.search(r"\b%s\b" % re.escape(x), v)}


def _subst_locals(expr, singles, depth=0):
    if depth > 4:
        return expr
    out = re.sub(r"[A-Za-z_]\w*", lambda m: "(" + _subst_locals(singles[m.group(0)], singles, depth + 1) + ")" if m.group(0) in singles else m.group(0), expr)
    return out


def _all_functions(repo):
    cdir = os.path.join(repo, "c")
    out = {}
    for f in sorted(os.listdir(cdir)):
        if not f.endswith((".c", ".cpp")):
            continue
        src = strip_comments(open(os.path.join(cdir, f)).read())
        for name, a, b, hdr in functions(src):
            if name in ("if", "for", "while", "switch"):
                continue
            out[name] = dict(file="c/" + f, name=name, header=hdr, body=src[a:b + 1], start=a, end=b, src=src,
                             static=bool(re.search(r"\bstatic\b", hdr)))
    return out


def _params(header):
    a = header.index("(")
    b = match_brace(header, a, "(", ")")
    res = []
    for prm in split_top(header[a + 1:b]):
        prm = " ".join(prm.split())
        if not prm or prm == "void":
            continue
        m = re.search(r"\(\*\s*([A-Za-z_]\w*)\s*\)", prm) or re.search(r"([A-Za-z_]\w*)\s*(?:\[[^\]]*\])*$", prm)
        name = m.group(1)
        is_ptr = "*" in prm or "[" in prm or "ndarray" in prm
        res.append((name, is_ptr))
    return res


def _decls_anywhere(text):
    """name -> kind for every declaration at any depth of `text`"""
    decls = {}
    for m in _DECL_RE.finditer(text):
        for part in split_top(m.group(2)):
            part = part.split("=")[0].strip()
            mm = re.match(r"^\(\*\s*([A-Za-z_]\w*)\s*\)", part)
            if mm:
                decls[mm.group(1)] = "pointer"
                continue
            mm = re.match(r"^(\**)\s*([A-Za-z_]\w*)\s*((?:\[[^\]]*\])*)$", part)
            if mm:
                decls[mm.group(2)] = "pointer" if mm.group(1) else ("array" if mm.group(3) else "scalar")
    return decls


def _root(expr):
    e = expr.strip()
    while True:
        e2 = re.sub(r"^\(\s*(?:const\s+)?(?:unsigned\s+)?(?:double|int64_t|int|char|long|float)\b[^()]*(?:\([^()]*\)[^()]*)*\)\s*", "", e)   # cast
        e2 = e2.lstrip("&* \t")
        if e2.startswith("(") and match_brace(e2, 0, "(", ")") == len(e2) - 1:
            e2 = e2[1:-1].strip()
        if e2 == e:
            break
        e = e2
    m = re.match(r"[A-Za-z_]\w*", e)
    return m.group(0) if m else None


def _canon_expr(expr, params, loopvar=None):
    pidx = {n: k for k, (n, _) in enumerate(params)}

    def sub(m):
        w = m.group(0)
        if w == loopvar:
            return "V"
        if w in pidx:
            return "P%d" % pidx[w]
        return w
    return re.sub(r"\s+", " ", re.sub(r"[A-Za-z_]\w*", sub, expr)).strip()


def _calls(text, known):
    for m in re.finditer(r"\b([A-Za-z_]\w*)\s*\(", text):
        if m.group(1) in known:
            close = match_brace(text, m.end() - 1, "(", ")")
            yield m.group(1), [a.strip() for a in split_top(text[m.end():close])]


def _alias_roots(fn, macros):
    """local pointer -> root object: ('param', k) | ('temp', elem, count) | ('ptr', name)"""
    params = _params(fn["header"])
    pidx = {n: k for k, (n, _) in enumerate(params)}
    decls = _decls_anywhere(fn["body"])
    roots = {n: ("param", k) for n, k in pidx.items()}
    body = fn["body"]
    for m in re.finditer(r"([A-Za-z_]\w*)\s*=\s*(?:\([^;=]*?\)\s*)?(malloc|calloc)\s*\(", body):
        close = match_brace(body, m.end() - 1, "(", ")")
        arg = " ".join(body[m.end():close].split())
        if m.group(2) == "calloc":
            arg = " * ".join("(%s)" % a_.strip() for a_ in split_top(arg))
        # element type = the sizeof factor, element count = product of the other factors
        facs, depth_, cur_ = [], 0, []
        for ch in arg:
            if ch in "([":
                depth_ += 1
            elif ch in ")]":
                depth_ -= 1
            if depth_ == 0 and ch == "*":
                facs.append("".join(cur_).strip())
                cur_ = []
            else:
                cur_.append(ch)
        facs.append("".join(cur_).strip())
        flat_ = []
        for q_ in facs:
            while q_.startswith("(") and match_brace(q_, 0, "(", ")") == len(q_) - 1 and not q_.startswith("(*"):
                q_ = q_[1:-1].strip()
            flat_ += [x_.strip() for x_ in (q_.split(" * ") if "sizeof" in q_ and "+" not in q_ else [q_])]
        elem = "?"
        rest_ = []
        for q_ in flat_:
            mm = re.fullmatch(r"sizeof\s*\((.*)\)", q_)
            if mm and elem == "?":
                elem = mm.group(1).strip()
            else:
                rest_.append(q_)
        count = " * ".join(rest_) if rest_ else "1"
        count = re.sub(r"\b(\w+)\b", lambda q: macros.get(q.group(1), q.group(1)), count)
        count = _subst_locals(count, _single_assignments(body, decls))
        roots[m.group(1)] = ("temp", elem, count)        # in the function's own names; resolved to entry points later
    changed = True
    while changed:
        changed = False
        for m in re.finditer(r"(?<![\w\]\.>])([A-Za-z_]\w*)\s*=(?!=)\s*([^;]+);", body):
            x, rhs = m.group(1), m.group(2)
            if decls.get(x) != "pointer" or x in roots or "malloc" in rhs or "calloc" in rhs or rhs.strip() == "NULL":
                continue
            r = _root(rhs)
            if r in roots:
                roots[x] = roots[r]
                changed = True
    return roots, decls, params


def _written_params(funcs, macros):
    """function name -> set of parameter positions through which the function (transitively) writes"""
    info = {n: _alias_roots(f, macros) for n, f in funcs.items()}
    wp = {n: set() for n in funcs}
    for n, f in funcs.items():
        roots, decls, params = info[n]
        inner = f["body"][1:-1]
        for x, idx in _writes(inner):
            r = roots.get(x)
            if idx and r and r[0] == "param":
                wp[n].add(r[1])
    changed = True
    while changed:
        changed = False
        for n, f in funcs.items():
            roots, decls, params = info[n]
            for g, args in _calls(f["body"][1:-1], funcs):
                for k in wp.get(g, ()):
                    if k < len(args):
                        r = roots.get(_root(args[k]) or "")
                        if r and r[0] == "param" and r[1] not in wp[n]:
                            wp[n].add(r[1])
                            changed = True
    return wp, info


def _reachers(funcs):
    callers = {n: set() for n in funcs}
    for n, f in funcs.items():
        for g, _ in _calls(f["body"][1:-1], funcs):
            if g != n:
                callers[g].add(n)

    def entries(name):
        seen, todo, res = set(), [name], set()
        while todo:
            x = todo.pop()
            if x in seen:
                continue
            seen.add(x)
            if not funcs[x]["static"]:
                res.add(x)
            todo += list(callers[x])
        return sorted(res)
    return entries


def _canon_cond(cond, var, resolve):
    """conjunction of guards, each resolved to the entry points; alternatives along call chains where a guard is the
    literal 0 (the region is never parallel along that chain) are dropped, guards that are the literal 1 are dropped"""
    terms = []
    for t in [x.strip() for x in cond.split("&&")]:
        alts = sorted(a_ for a_ in resolve(re.sub(r"\b%s\b" % re.escape(var), "V", t)) if a_ not in ("0", "(0)"))
        alts = [a_ for a_ in alts if a_ not in ("1", "(1)")]
        if alts:
            terms.append("/".join(alts))
    return " && ".join(sorted(set(terms)))


def _canon_bound(bound, var, resolve):
    """`v < SIZE` (or `v <= SIZE`): the iteration-space size, resolved to the entry points' parameters and with products folded"""
    m = re.match(r"^\s*%s\s*(<=|<)\s*(.*)$" % re.escape(var), bound)
    if not m:
        return "V ? " + "/".join(sorted(resolve(re.sub(r"\b%s\b" % re.escape(var), "V", bound))))
    return "V %s %s" % (m.group(1), "/".join(sorted(resolve(m.group(2)))))


def canonical(repo):
    funcs = _all_functions(repo)
    macros = {}
    for f in set(v["file"] for v in funcs.values()):
        macros.update(dict((k, v.strip("()")) for k, v in re.findall(r"^[ \t]*#define\s+(\w+)\s+(\(?-?\d+\)?)\s*$", strip_comments(open(os.path.join(repo, f)).read()), re.M)))
    wp, info = _written_params(funcs, macros)
    entries = _reachers(funcs)
    sites = {n: [] for n in funcs}
    for n, f in funcs.items():
        for g, args in _calls(f["body"][1:-1], funcs):
            if g != n:
                sites[g].append((n, args))
    singles = {n: _single_assignments(f["body"], info[n][1]) for n, f in funcs.items()}

    def resolve_expr(fname, expr, seen=()):
        """expression of `fname`'s parameters/locals -> set of canonical expressions over the parameters (by position)
        of the external-linkage functions that reach it (static helpers are inlined along every call chain)"""
        f = funcs[fname]
        params = info[fname][2]
        e = _subst_locals(expr, singles[fname])
        e = re.sub(r"\b(\w+)\b", lambda q: macros.get(q.group(1), q.group(1)), e)
        if not f["static"] or fname in seen or not sites[fname] or len(seen) > 6:
            return {_fold_product(_canon_expr(e, params))}
        pidx = {n_: k for k, (n_, _) in enumerate(params)}
        out = set()
        for caller, args in sites[fname]:
            e2 = re.sub(r"[A-Za-z_]\w*", lambda m_: "(" + args[pidx[m_.group(0)]] + ")" if m_.group(0) in pidx and pidx[m_.group(0)] < len(args) else m_.group(0), e)
            out |= resolve_expr(caller, e2, seen + (fname,))
        return out

    def resolve_root(fname, r, seen=()):
        """root object of `fname` -> set of strings over the external entry points"""
        if r[0] == "temp":
            return {"temp:%s:%s" % (r[1], "/".join(sorted(resolve_expr(fname, r[2]))))}
        if r[0] != "param":
            return {"ptr:%s" % r[1]}
        f = funcs[fname]
        if not f["static"] or fname in seen or not sites[fname] or len(seen) > 6:
            return {"param:%d" % r[1]}
        out = set()
        for caller, args in sites[fname]:
            if r[1] >= len(args):
                continue
            x = _root(args[r[1]])
            cr = info[caller][0].get(x or "")
            if cr is None:
                kind = info[caller][1].get(x)
                out.add("local:%s" % kind if kind else "ptr:?")
            else:
                out |= resolve_root(caller, cr, seen + (fname,))
        return out

    prag, mall = [], []
    for n, f in sorted(funcs.items()):
        roots, decls, params = info[n]
        body = f["body"]
        # ---- mallocs of this function
        for x, r in sorted(roots.items()):
            if r[0] == "temp" and re.search(r"\b%s\s*=\s*(?:\([^;=]*?\)\s*)?(?:malloc|calloc)" % re.escape(x), body):
                cnt = "/".join(sorted(resolve_expr(n, r[2])))
                mall.append(dict(file=f["file"], function=n, var=x, elem=r[1], count=cnt,
                                 key="%s|%s|%s|%s" % (f["file"], ",".join(entries(n)), r[1], cnt)))
        # ---- pragmas of this function
        for m in re.finditer(r"^[ \t]*#pragma\s+omp\b((?:[^\n\\]|\\\n|\\.)*)$", body, re.M):
            clause = re.sub(r"\s+", " ", re.sub(r"\\\n", " ", m.group(1))).strip()
            directive = re.split(r"\b(?:first|last)?private\b|\bif\b|\bshared\b|\breduction\b|\bschedule\b", clause)[0].strip()
            priv = set()
            for pm in re.finditer(r"\b(?:first|last)?private\s*\(([^)]*)\)", clause):
                priv |= {x.strip() for x in pm.group(1).split(",") if x.strip()}
            im = re.search(r"\bif\s*\(", clause)
            cond = clause[im.end():match_brace(clause, im.end() - 1, "(", ")")].strip() if im else ""
            cond = re.sub(r"\b(\w+)\b", lambda q: macros.get(q.group(1), q.group(1)), cond)
            # `schedule(...)` only distributes iterations over threads: which iteration writes what is unchanged -> not part of the key
            other = sorted(set(re.findall(r"\b(shared|reduction|nowait|num_threads)\b", clause)))
            ncol = re.search(r"\bcollapse\s*\(\s*(\d+)\s*\)", clause)
            ncol = int(ncol.group(1)) if ncol else 1
            directive = re.sub(r"\s*collapse\s*\(\s*\d+\s*\)", "", directive).strip()
            # the region is parallel iff the OpenMP `if` clause AND the enclosing C `if (flag)` blocks hold; a plain flag
            # (identifier / negated identifier) is part of the key, so `if (f) {#pragma loop} else {serial twin}` and the
            # merged `#pragma ... if (f)` loop are the same region
            guards = []
            pos_, depth_ = m.start(), 0
            k_ = pos_ - 1
            while k_ > 0:
                ch = body[k_]
                if ch == "}":
                    depth_ += 1
                elif ch == "{":
                    if depth_ == 0:
                        hdr_ = body[max(0, k_ - 200):k_]
                        mg = re.search(r"(else\s*)?(?:if\s*\(\s*(!?\s*[A-Za-z_]\w*)\s*\)\s*)?$", hdr_)
                        mi = re.search(r"\bif\s*\(\s*(!?\s*[A-Za-z_]\w*)\s*\)\s*$", hdr_)
                        if mi and not re.search(r"\belse\s+if\s*\([^()]*\)\s*$", hdr_):
                            guards.append(mi.group(1).replace(" ", ""))
                    else:
                        depth_ -= 1
                k_ -= 1
            if guards:
                cond = " && ".join(([cond] if cond else []) + sorted(set(guards)))
            loop = analyse_loop(body, m.end())
            if loop is None:
                prag.append(dict(file=f["file"], function=n, key="%s|%s|%s|UNPARSED" % (f["file"], ",".join(entries(n)), clause)))
                continue
            var, bound, lbody = loop
            size_expr = None
            mvb = re.match(r"^\s*%s\s*<\s*(.*)$" % re.escape(var), bound)
            col_vars = [var]
            if ncol > 1 and mvb:
                # collapse(n) over a perfect nest: one iteration per index tuple; the iteration space is the product of the
                # bounds and the loop variables of the nest are private - the flattened `ij` loop in other words
                sizes, cur = [mvb.group(1).strip()], lbody
                ok_ = True
                for _ in range(ncol - 1):
                    inner = analyse_loop(cur, 1)
                    mi2 = inner and re.match(r"^\s*%s\s*<\s*(.*)$" % re.escape(inner[0]), inner[1])
                    if not inner or not mi2:
                        ok_ = False
                        break
                    col_vars.append(inner[0])
                    sizes.append(mi2.group(1).strip())
                    cur = inner[2]
                if ok_:
                    size_expr = " * ".join("(%s)" % x_ for x_ in sizes)
                else:
                    directive += " collapse(%d)" % ncol
            if size_expr is not None:
                bound = "%s < %s" % (var, size_expr)
            inner_decl = _decls_anywhere(lbody)
            private = set(priv) | set(inner_decl) | set(col_vars)
            shared_locals, wroots = set(), set()

            def classify(x, direct_assign):
                """x written in the region; direct_assign: the variable itself (not an element reached through it)"""
                if x in inner_decl:
                    if inner_decl[x] == "pointer" and not direct_assign:
                        pass   # pointee decided below through the alias root, unless allocated in the body
                    else:
                        return
                kind = decls.get(x) or ("pointer" if any(p_ == x and ip for p_, ip in params) else None)
                if kind in ("scalar", "array") or (kind == "pointer" and direct_assign):
                    if x not in private:
                        shared_locals.add(x)
                    return
                r = roots.get(x)
                if x in inner_decl and (r is None or re.search(r"\b%s\s*=\s*(?:\([^;=]*?\)\s*)?(?:malloc|calloc)" % re.escape(x), lbody)):
                    return     # allocated per iteration inside the body
                if r is None:
                    wroots.add("ptr:%s" % x)
                else:
                    wroots.update(resolve_root(n, r))

            for x, idx in _writes(lbody):
                if x in ("for", "if", "while", "return") or (x not in decls and x not in inner_decl and not any(p_ == x for p_, _ in params)):
                    continue
                kind = inner_decl.get(x) or decls.get(x) or "pointer"
                classify(x, direct_assign=(not idx) or kind == "array")
            for g, args in _calls(lbody, funcs):
                for k in wp.get(g, ()):
                    if k < len(args):
                        x = _root(args[k])
                        if x is None:
                            continue
                        kind = inner_decl.get(x) or decls.get(x)
                        if kind in ("scalar", "array"):
                            if x not in private:
                                shared_locals.add(x)
                        else:
                            classify(x, direct_assign=False)
            rec = dict(file=f["file"], function=n, entries=entries(n), directive=directive, loop_var=var,
                       bound=_canon_bound(bound, var, lambda e_: resolve_expr(n, e_)),
                       cond=_canon_cond(cond, var, lambda e_: resolve_expr(n, e_)) if cond else "",
                       other_clauses=other, shared_written_locals=sorted(shared_locals), shared_written_roots=sorted(wroots),
                       thread_private=sorted(private))
            rec["key"] = "%s|%s|%s|%s|if(%s)|%s|shared-locals[%s]|writes[%s]" % (
                f["file"], ",".join(rec["entries"]), directive, rec["bound"], rec["cond"], ",".join(other),
                ",".join(rec["shared_written_locals"]), ",".join(rec["shared_written_roots"]))
            prag.append(rec)
    prag.sort(key=lambda r: r["key"])
    mall.sort(key=lambda r: r["key"])
    return prag, mall
