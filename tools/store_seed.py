#!/usr/bin/env python3
"""tools/store_seed.py <name> <outdir> <patched-worktree> <note>: verify demo (rc 0 on /repo, !=0 on patched tree), store under seeded/<name>."""
import json, os, shutil, subprocess, sys
name, out, wt, note = sys.argv[1:5]
env = dict(os.environ)
r0 = subprocess.run(["/venv/bin/python", os.path.join(out, "demo.py"), "/repo"], capture_output=True, text=True, cwd="/tmp", timeout=1800, env=env).returncode
r1 = subprocess.run(["/venv/bin/python", os.path.join(out, "demo.py"), wt], capture_output=True, text=True, cwd="/tmp", timeout=1800, env=env).returncode
print("demo: unpatched rc=%d patched rc=%d" % (r0, r1))
if r0 != 0 or r1 == 0:
    print("NOT CONFIRMED"); sys.exit(1)
d = os.path.join("/verif/seeded", name)
os.makedirs(d, exist_ok=True)
for f in ("patch.diff", "demo.py"):
    shutil.copy(os.path.join(out, f), d)
m = json.load(open(os.path.join(out, "meta.json")))
m["verified_by_coordinator"] = {"demo_unpatched_rc": r0, "demo_patched_rc": r1, "check_result": note}
json.dump(m, open(os.path.join(d, "meta.json"), "w"), indent=1)
print("stored", d)
