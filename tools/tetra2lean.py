#!/usr/bin/env python3
"""tetra2lean: translate c/tetrahedron_method.c into lean/PhononModel/Gen/TetraC.lean (property C11).

Run on every check. A recursive-descent translator for the C subset

    [static] double|int64_t f(params) { local declarations; assignments (scalars, array elements, +=);
        if/else; switch on small ints (with C fall-through); constant-bound for loops; return expr; }
    #ifdef THM_EPSILON  if (cond) { return x; }  #endif      (guard, epsilon becomes a parameter)
    static int64_t table[..]..[..] = { nested integer initialiser };

into Lean definitions polymorphic in the scalar type.  Anything outside the subset raises
`Unsupported` (exit status 1, nothing written): the proof step then no longer builds.

Translation scheme (continuation style): a statement list becomes one expression; `if`/`switch`
duplicate the rest of the list into their branches, so early `return`s and C fall-through need no
special treatment; a function that writes to an array parameter returns the updated array next to its
value; uninitialised local arrays start as zero (local scalars must be assigned before use — checked).
"""
from __future__ import annotations

import os
import re
import sys
from fractions import Fraction

HERE = os.path.dirname(os.path.dirname(os.path.abspath(__file__)))

WANTED = (
    ["_f", "_J", "_I", "_n", "_g", "sort_omegas", "get_integration_weight", "thm_get_integration_weight"]
    + ["_n_%d" % i for i in range(5)] + ["_g_%d" % i for i in range(5)]
    + ["_J_0", "_J_4", "_I_0", "_I_4"] + ["_%s_%d%d" % (x, i, c) for x in "JI" for i in (1, 2, 3) for c in range(4)]
)
SKIPPED_OK = {"thm_get_relative_grid_address", "thm_get_all_relative_grid_address", "thm_in_tetrahedra",
              "get_main_diagonal", "norm_squared_d3", "multiply_matrix_vector_dl3"}
TABLES = ["main_diagonals", "db_relative_grid_address"]


class Unsupported(Exception):
    pass


# ---------------------------------------------------------------------------------- preprocessing
def preprocess(src):
    src = re.sub(r"/\*.*?\*/", lambda m: "\n" * m.group(0).count("\n"), src, flags=re.S)
    # `#define warning_print(...)` is empty unless THMWARNING is defined: the calls expand to nothing
    src = re.sub(r'warning_print\((?:[^()"]|"(?:\\.|[^"\\])*")*\)\s*;', lambda m: ";" + "\n" * m.group(0).count("\n"), src)
    out, stack, depth = [], [], 0
    for ln, line in enumerate(src.split("\n"), 1):
        st = line.strip()
        if st.startswith("#"):
            d = st[1:].split()
            if d[0] == "ifdef":
                if d[1] == "THM_EPSILON":
                    stack.append(("eps", depth > 0))
                    if depth > 0:
                        out.append(" __EPS_BEGIN__ ")
                elif d[1] in ("THMWARNING", "_OPENMP"):
                    stack.append(("off", False))
                else:
                    raise Unsupported("line %d: #ifdef %s" % (ln, d[1]))
            elif d[0] == "else":
                k, f = stack.pop()
                if k == "off":
                    stack.append(("on", f))
                else:
                    raise Unsupported("line %d: #else of an epsilon block" % ln)
            elif d[0] == "endif":
                k, f = stack.pop()
                if k == "eps" and f:
                    out.append(" __EPS_END__ ")
            elif d[0] in ("include", "define"):
                pass
            else:
                raise Unsupported("line %d: directive %s" % (ln, st))
            out.append("")
            continue
        if any(k == "off" for k, _ in stack):
            out.append("")
            continue
        if any(k == "eps" and not f for k, f in stack):
            if st:
                raise Unsupported("line %d: code under top-level #ifdef THM_EPSILON" % ln)
            out.append("")
            continue
        depth += line.count("{") - line.count("}")
        out.append(line)
    if stack:
        raise Unsupported("unbalanced #ifdef")
    if any('"' in l for l in out):
        raise Unsupported("string literal outside warning_print")
    return "\n".join(out)


TOK = re.compile(r"\s*(?:(\d+\.\d*(?:[eE][-+]?\d+)?|\d+[eE][-+]?\d+|\.\d+)|(\d+)|([A-Za-z_]\w*)|('(?:\\.|[^'])')|"
                 r"(\+\+|--|\+=|-=|\*=|/=|<=|>=|==|!=|&&|\|\||\.\.\.|[-+*/<>=!(){}\[\],;:]))")


def tokenize(s):
    pos, toks = 0, []
    s = s.rstrip()
    while pos < len(s):
        m = TOK.match(s, pos)
        if not m:
            if s[pos:].strip() == "":
                break
            raise Unsupported("cannot tokenize at: %r" % s[pos:pos + 40])
        pos = m.end()
        if m.group(1):
            toks.append(("float", m.group(1)))
        elif m.group(2):
            toks.append(("int", m.group(2)))
        elif m.group(3):
            toks.append(("id", m.group(3)))
        elif m.group(4):
            toks.append(("char", m.group(4)))
        else:
            toks.append(("op", m.group(5)))
    return toks


# ---------------------------------------------------------------------------------- parser
class P:
    def __init__(self, toks):
        self.t = toks
        self.i = 0

    def peek(self, k=0):
        return self.t[self.i + k] if self.i + k < len(self.t) else ("eof", "")

    def next(self):
        tk = self.peek()
        self.i += 1
        return tk

    def accept(self, val):
        if self.peek()[1] == val and self.peek()[0] in ("op", "id"):
            self.i += 1
            return True
        return False

    def expect(self, val):
        if not self.accept(val):
            raise Unsupported("expected %r, got %r (token %d)" % (val, self.peek(), self.i))

    # ---- types
    def type_spec(self):
        quals = []
        while self.peek()[1] in ("static", "const"):
            quals.append(self.next()[1])
        tk = self.next()
        if tk[1] not in ("double", "int64_t", "int", "char", "void"):
            raise Unsupported("type %r" % (tk,))
        while self.peek()[1] == "const":
            self.next()
        return tk[1]

    def dims(self):
        d = []
        while self.accept("["):
            tk = self.next()
            if tk[0] != "int":
                raise Unsupported("array dimension %r" % (tk,))
            d.append(int(tk[1]))
            self.expect("]")
        return d

    def param(self):
        base = self.type_spec()
        if self.accept("("):  # function pointer:  double (*name)(types)
            self.expect("*")
            name = self.next()[1]
            self.expect(")")
            self.expect("(")
            ps = []
            if not self.accept(")"):
                while True:
                    b = self.type_spec()
                    if self.peek()[0] == "id":
                        self.next()
                    ps.append((b, self.dims()))
                    if self.accept(")"):
                        break
                    self.expect(",")
            return dict(name=name, base=base, dims=[], fptr=ps)
        if base == "void" and self.peek()[1] == ")":
            return None
        name = None
        if self.peek()[0] == "id":
            name = self.next()[1]
        return dict(name=name, base=base, dims=self.dims(), fptr=None)

    def params(self):
        self.expect("(")
        ps = []
        if self.accept(")"):
            return ps
        while True:
            p = self.param()
            if p is not None:
                ps.append(p)
            if self.accept(")"):
                return ps
            self.expect(",")

    # ---- expressions
    def expr(self):
        return self.p_or()

    def p_or(self):
        a = self.p_and()
        while self.accept("||"):
            a = ("bin", "||", a, self.p_and())
        return a

    def p_and(self):
        a = self.p_cmp()
        while self.accept("&&"):
            a = ("bin", "&&", a, self.p_cmp())
        return a

    def p_cmp(self):
        a = self.p_add()
        while self.peek() in [("op", o) for o in ("<", ">", "<=", ">=", "==", "!=")]:
            o = self.next()[1]
            a = ("bin", o, a, self.p_add())
        return a

    def p_add(self):
        a = self.p_mul()
        while self.peek() in [("op", "+"), ("op", "-")]:
            o = self.next()[1]
            a = ("bin", o, a, self.p_mul())
        return a

    def p_mul(self):
        a = self.p_un()
        while self.peek() in [("op", "*"), ("op", "/")]:
            o = self.next()[1]
            a = ("bin", o, a, self.p_un())
        return a

    def p_un(self):
        if self.accept("-"):
            return ("neg", self.p_un())
        if self.accept("!"):
            return ("not", self.p_un())
        return self.p_post()

    def p_post(self):
        tk = self.next()
        if tk[0] == "int":
            return ("int", int(tk[1]))
        if tk[0] == "float":
            return ("float", tk[1])
        if tk[0] == "char":
            return ("char", tk[1])
        if tk == ("op", "("):
            e = self.expr()
            self.expect(")")
            return e
        if tk[0] != "id":
            raise Unsupported("expression token %r" % (tk,))
        e = ("var", tk[1])
        if self.peek() == ("op", "("):
            self.next()
            args = []
            if not self.accept(")"):
                while True:
                    args.append(self.expr())
                    if self.accept(")"):
                        break
                    self.expect(",")
            return ("call", tk[1], args)
        idx = []
        while self.accept("["):
            idx.append(self.expr())
            self.expect("]")
        return ("index", tk[1], idx) if idx else e

    # ---- statements
    def block(self):
        self.expect("{")
        out = []
        while not self.accept("}"):
            out.extend(self.stmt())
        return out

    def body_or_stmt(self):
        return self.block() if self.peek() == ("op", "{") else self.stmt()

    def stmt(self):
        tk = self.peek()
        if tk == ("op", ";"):
            self.next()
            return []
        if tk == ("id", "__EPS_BEGIN__"):
            self.next()
            inner = []
            while not self.accept("__EPS_END__"):
                inner.extend(self.stmt())
            return [("eps", inner)]
        if tk[1] in ("double", "int64_t", "int", "const", "static") and tk[0] == "id":
            base = self.type_spec()
            decls = []
            while True:
                name = self.next()[1]
                decls.append(("decl", base, name, self.dims()))
                if self.peek() == ("op", "="):
                    raise Unsupported("initialised declaration of %s" % name)
                if self.accept(";"):
                    return decls
                self.expect(",")
        if tk == ("id", "return"):
            self.next()
            e = self.expr()
            self.expect(";")
            return [("return", e)]
        if tk in (("id", "continue"), ("id", "break")):
            self.next()
            self.expect(";")
            return [(tk[1],)]
        if tk == ("id", "if"):
            self.next()
            self.expect("(")
            c = self.expr()
            self.expect(")")
            a = self.body_or_stmt()
            b = []
            if self.accept("else"):
                b = self.body_or_stmt()
            return [("if", c, a, b)]
        if tk == ("id", "switch"):
            self.next()
            self.expect("(")
            e = self.expr()
            self.expect(")")
            self.expect("{")
            cases = []
            while not self.accept("}"):
                self.expect("case")
                lab = self.next()
                if lab[0] != "int":
                    raise Unsupported("case label %r" % (lab,))
                self.expect(":")
                body = []
                while self.peek() not in [("id", "case"), ("op", "}")]:
                    body.extend(self.stmt())
                cases.append((int(lab[1]), body))
            return [("switch", e, cases)]
        if tk == ("id", "for"):
            self.next()
            self.expect("(")
            v = self.next()[1]
            self.expect("=")
            lo = self.next()
            self.expect(";")
            v2 = self.next()[1]
            self.expect("<")
            hi = self.next()
            self.expect(";")
            v3 = self.next()[1]
            self.expect("++")
            self.expect(")")
            if not (v == v2 == v3 and lo == ("int", "0") and hi[0] == "int"):
                raise Unsupported("for loop not of the form (i = 0; i < N; i++)")
            return [("for", v, int(hi[1]), self.body_or_stmt())]
        if tk == ("id", "warning_print"):
            # macro defined empty unless THMWARNING
            self.next()
            self.expect("(")
            depth = 1
            while depth:
                t = self.next()
                if t == ("op", "("):
                    depth += 1
                elif t == ("op", ")"):
                    depth -= 1
                elif t[0] == "eof":
                    raise Unsupported("unterminated warning_print")
            self.expect(";")
            return []
        if tk[0] == "id":
            # assignment
            name = self.next()[1]
            idx = []
            while self.accept("["):
                idx.append(self.expr())
                self.expect("]")
            op = self.next()
            if op not in [("op", "="), ("op", "+=")]:
                raise Unsupported("statement starting with %s %r" % (name, op))
            e = self.expr()
            self.expect(";")
            if op[1] == "+=":
                e = ("bin", "+", ("index", name, idx) if idx else ("var", name), e)
            return [("assign", name, idx, e)]
        raise Unsupported("statement token %r" % (tk,))

    def initializer(self):
        if self.accept("{"):
            items = []
            while True:
                if self.accept("}"):
                    return items
                items.append(self.initializer())
                if self.accept("}"):
                    return items
                self.expect(",")
        sign = -1 if self.accept("-") else 1
        tk = self.next()
        if tk[0] != "int":
            raise Unsupported("table entry %r" % (tk,))
        return sign * int(tk[1])

    def toplevel(self):
        funcs, tables, protos = {}, {}, {}
        order = []
        while self.peek()[0] != "eof":
            base = self.type_spec()
            name = self.next()[1]
            if self.peek() == ("op", "["):
                d = self.dims()
                self.expect("=")
                tables[name] = (d, self.initializer())
                self.expect(";")
                continue
            ps = self.params()
            if self.accept(";"):
                protos[name] = (base, ps)
                continue
            # bodies are parsed lazily: only what is reachable from the public entry point is translated
            self.expect("{")
            start = self.i - 1
            depth = 1
            while depth:
                t = self.next()
                if t == ("op", "{"):
                    depth += 1
                elif t == ("op", "}"):
                    depth -= 1
                elif t[0] == "eof":
                    raise Unsupported("unterminated body of %s" % name)
            funcs[name] = dict(name=name, ret=base, params=ps, body=None, tokens=self.t[start:self.i])
            order.append(name)
        return funcs, tables, order


# ---------------------------------------------------------------------------------- emitter
def lean_name(c):
    return c[1:] if c.startswith("_") else c


def lit_real(fr):
    fr = Fraction(fr)
    if fr.denominator == 1:
        return "((%d : Nat) : α)" % fr.numerator
    return "(((%d : Nat) : α) / ((%d : Nat) : α))" % (fr.numerator, fr.denominator)


class Emitter:
    def __init__(self, funcs, roles=None, inline=()):
        self.funcs = funcs
        self.roles = roles or {}
        self.inline = set(inline)
        self.fnames = {self.lname(f) for f in funcs}
        self.sigs = {}
        for f in funcs.values():
            self.analyse(f)

    def lname(self, c):
        """Lean name of a C function: its structural role if it has one (alpha-renaming of statics is irrelevant)"""
        return self.roles.get(c, lean_name(c))

    # ---- analysis: which int params index arrays (-> Fin N), which array params are written
    def analyse(self, f):
        env = {}
        for p in f["params"]:
            if p["fptr"] is not None:
                env[p["name"]] = ("fptr", p)
            elif p["dims"]:
                env[p["name"]] = ("arr", p["base"], p["dims"])
            elif p["base"] == "double":
                env[p["name"]] = ("real",)
            elif p["base"] == "char":
                env[p["name"]] = ("char",)
            else:
                env[p["name"]] = ("int",)
        locs = {}
        written = set()
        fin = {}

        def walk_e(e):
            if e[0] == "index":
                t = env.get(e[1]) or locs.get(e[1])
                if t is None or t[0] != "arr":
                    raise Unsupported("%s: indexing non-array %s" % (f["name"], e[1]))
                if len(e[2]) != len(t[2]):
                    raise Unsupported("%s: partial indexing of %s" % (f["name"], e[1]))
                for ix, n in zip(e[2], t[2]):
                    if ix[0] == "var":
                        if fin.get(ix[1], n) != n:
                            raise Unsupported("%s: %s indexes arrays of different length" % (f["name"], ix[1]))
                        fin[ix[1]] = n
                    elif ix[0] == "int":
                        if not 0 <= ix[1] < n:
                            raise Unsupported("%s: constant index %d out of range of %s" % (f["name"], ix[1], e[1]))
                    else:
                        raise Unsupported("%s: computed index into %s" % (f["name"], e[1]))
            for sub in e[1:]:
                if isinstance(sub, tuple):
                    walk_e(sub)
                elif isinstance(sub, list):
                    for s in sub:
                        if isinstance(s, tuple):
                            walk_e(s)

        def walk_s(ss):
            for s in ss:
                if s[0] == "decl":
                    locs[s[2]] = ("arr", s[1], s[3]) if s[3] else (("real",) if s[1] == "double" else ("int",))
                elif s[0] == "return":
                    walk_e(s[1])
                elif s[0] == "assign":
                    if s[2]:
                        walk_e(("index", s[1], s[2]))
                        if s[1] in env:
                            written.add(s[1])
                    walk_e(s[3])
                elif s[0] == "if":
                    walk_e(s[1]); walk_s(s[2]); walk_s(s[3])
                elif s[0] == "switch":
                    walk_e(s[1])
                    for _, b in s[2]:
                        walk_s(b)
                elif s[0] == "for":
                    walk_s(s[3])
                elif s[0] == "eps":
                    walk_s(s[1])

        walk_s(f["body"])
        for v, n in fin.items():
            t = env.get(v) or locs.get(v)
            if t != ("int",):
                raise Unsupported("%s: index %s is not an integer variable" % (f["name"], v))
        f["env"], f["locs"], f["fin"] = env, locs, fin
        f["written"] = [p["name"] for p in f["params"] if p["name"] in written]
        self.sigs[f["name"]] = f

    # ---- types
    def lean_type(self, t, fin_n=None):
        if t[0] == "real":
            return "α"
        if t[0] == "int":
            return "Fin %d" % fin_n if fin_n else "Nat"
        if t[0] == "char":
            return "Char"
        if t[0] == "arr":
            el = "α" if t[1] == "double" else "Int"
            return "(" + " → ".join(["Fin %d" % n for n in t[2]] + [el]) + ")"
        if t[0] == "fptr":
            p = t[1]
            parts = []
            for b, d in p["fptr"]:
                if d:
                    parts.append("(" + " → ".join(["Fin %d" % n for n in d] + ["α"]) + ")")
                else:
                    parts.append("α" if b == "double" else "Nat")
            return "(" + " → ".join(parts + ["α" if p["base"] == "double" else "Nat"]) + ")"
        raise Unsupported("type %r" % (t,))

    def typeof(self, f, e):
        k = e[0]
        if k == "int":
            return "lit"
        if k == "float":
            return "real"
        if k == "char":
            return "char"
        if k == "var":
            if e[1] == "THM_EPSILON":
                return "real"
            t = f["env"].get(e[1]) or f["locs"].get(e[1])
            if t is None:
                raise Unsupported("%s: unknown identifier %s" % (f["name"], e[1]))
            if t[0] == "int":
                return "fin" if e[1] in f["fin"] else "nat"
            return t[0]
        if k == "index":
            t = f["env"].get(e[1]) or f["locs"].get(e[1])
            return "real" if t[1] == "double" else "nat"
        if k == "call":
            t = f["env"].get(e[1])
            if t is not None and t[0] == "fptr":
                return "real" if t[1]["base"] == "double" else "nat"
            if e[1] == "fabs":
                return "real"
            g = self.sigs.get(e[1])
            if g is None:
                raise Unsupported("%s: call of untranslated function %s" % (f["name"], e[1]))
            return "real" if g["ret"] == "double" else "nat"
        if k == "neg":
            return self.typeof(f, e[1])
        if k == "not":
            return "bool"
        if k == "bin":
            if e[1] in ("<", ">", "<=", ">=", "==", "!=", "&&", "||"):
                return "bool"
            a, b = self.typeof(f, e[2]), self.typeof(f, e[3])
            if "real" in (a, b):
                return "real"
            if a == b == "lit":
                return "lit"
            return "nat"
        raise Unsupported("expression %r" % (e,))

    # ---- expressions
    def ex(self, f, e, want, names):
        """emit e at type `want` in {'real','nat','bool','char', ('fin', n)}"""
        k = e[0]
        if k == "int":
            if want == "real":
                return lit_real(e[1])
            if want == "nat":
                return "(%d : Nat)" % e[1]
            if isinstance(want, tuple):
                return "(%d : Fin %d)" % (e[1], want[1])
            raise Unsupported("integer literal at type %r" % (want,))
        if k == "float":
            if want != "real":
                raise Unsupported("float literal at type %r" % (want,))
            return lit_real(Fraction(e[1]))
        if k == "char":
            return e[1]
        if k == "var" and isinstance(names.get(e[1]), tuple):
            kval = names[e[1]][1]
            if kval < 0:
                raise Unsupported("%s: negative integer constant %s reaches an expression" % (f["name"], e[1]))
            return self.ex(f, ("int", kval), want, names)
        if k == "var":
            if e[1] == "THM_EPSILON":
                return "THM_EPSILON"
            t = self.typeof(f, e)
            if t == "nat" and want == "real":
                raise Unsupported("%s: implicit int -> double conversion of %s" % (f["name"], e[1]))
            return names.get(e[1], e[1])
        if k == "index":
            t = f["env"].get(e[1]) or f["locs"].get(e[1])
            idx = " ".join(self.ex(f, ix, ("fin", n), names) for ix, n in zip(e[2], t[2]))
            return "(%s %s)" % (names.get(e[1], e[1]), idx)
        if k == "neg":
            return "(-%s)" % self.ex(f, e[1], want, names)
        if k == "not":
            return "(¬ %s)" % self.ex(f, e[1], "bool", names)
        if k == "call":
            return self.call(f, e, names)[0]
        if k == "bin":
            op = e[1]
            if op in ("&&", "||"):
                return "(%s %s %s)" % (self.ex(f, e[2], "bool", names), {"&&": "∧", "||": "∨"}[op], self.ex(f, e[3], "bool", names))
            if op in ("<", ">", "<=", ">=", "==", "!="):
                a, b = self.typeof(f, e[2]), self.typeof(f, e[3])
                w = "real" if "real" in (a, b) else ("char" if "char" in (a, b) else "nat")
                lop = {"==": "=", "!=": "≠"}.get(op, op)
                if op == "<=":  # total order: a <= b  is  not (b < a)
                    return "(¬ (%s < %s))" % (self.ex(f, e[3], w, names), self.ex(f, e[2], w, names))
                if op == ">=":
                    return "(¬ (%s < %s))" % (self.ex(f, e[2], w, names), self.ex(f, e[3], w, names))
                return "(%s %s %s)" % (self.ex(f, e[2], w, names), lop, self.ex(f, e[3], w, names))
            t = self.typeof(f, e)
            w = "real" if (want == "real" or t == "real") else want
            if t == "real" and want != "real":
                raise Unsupported("%s: double expression used as %r" % (f["name"], want))
            return "(%s %s %s)" % (self.ex(f, e[2], w, names), op, self.ex(f, e[3], w, names))
        raise Unsupported("expression %r" % (e,))

    def call(self, f, e, names):
        """returns (lean expr, list of written array argument names)"""
        t = f["env"].get(e[1])
        if t is not None and t[0] == "fptr":
            args = []
            for a, (b, d) in zip(e[2], t[1]["fptr"]):
                args.append(self.ex(f, a, "real" if (b == "double" and not d) else ("nat" if not d else "arr"), names) if not d
                            else names.get(a[1], a[1]))
            return "(%s %s)" % (e[1], " ".join(args)), []
        if e[1] == "fabs":
            return "(fabs %s)" % self.ex(f, e[2][0], "real", names), []
        g = self.sigs.get(e[1])
        if g is None:
            raise Unsupported("%s: call of untranslated function %s" % (f["name"], e[1]))
        if len(e[2]) != len(g["params"]):
            raise Unsupported("%s: arity of %s" % (f["name"], e[1]))
        args = []
        wr = []
        for a, p in zip(e[2], g["params"]):
            if p["fptr"] is not None:
                if a[0] != "var" or a[1] not in self.sigs:
                    raise Unsupported("%s: function argument %r" % (f["name"], a))
                args.append("(%s eps)" % self.lname(a[1]))
            elif p["dims"]:
                if a[0] != "var":
                    raise Unsupported("%s: array argument %r" % (f["name"], a))
                args.append(names.get(a[1], a[1]))
                if p["name"] in g["written"]:
                    wr.append(a[1])
            elif p["base"] == "double":
                args.append(self.ex(f, a, "real", names))
            elif p["base"] == "char":
                args.append(self.ex(f, a, "char", names))
            else:
                n = g["fin"].get(p["name"])
                args.append(self.ex(f, a, ("fin", n) if n else "nat", names))
        return "(%s eps %s)" % (self.lname(e[1]), " ".join(args)) if args else "(%s eps)" % self.lname(e[1]), wr

    # ---- statements (continuation style)
    def stmts(self, f, ss, names, defined, ind, tail):
        """ss: statement list; tail: what to emit when the list is exhausted (None: falling off is an error)"""
        pad = "  " * ind
        if not ss:
            if tail is None:
                raise Unsupported("%s: control reaches the end of a non-void function" % f["name"])
            return pad + tail(names)
        s, rest = ss[0], ss[1:]
        k = s[0]
        if k == "decl":
            return self.stmts(f, rest, names, defined, ind, tail)
        if k == "return":
            val = self.ex(f, s[1], "real" if f["ret"] == "double" else "nat", names)
            self.check_defined(f, s[1], defined)
            if f["written"]:
                val = "(%s, %s)" % (val, ", ".join(names.get(w, w) for w in f["written"]))
            return pad + val
        if k == "inline_return":
            # `return e` of an inlined helper: bind the caller's variable (a compile-time constant) and go on with the caller
            _, target, e, caller_rest = s
            kval = const_int(e)
            if kval is None:
                raise Unsupported("%s: inlined helper returns a non-constant" % f["name"])
            names2 = dict(names)
            names2[target] = ("const", kval)
            return self.stmts(f, caller_rest, names2, defined | {target}, ind, tail)
        if k == "continue":
            if tail is None:
                raise Unsupported("%s: `continue` outside a loop" % f["name"])
            return pad + tail(names)
        if k == "assign" and not s[2] and s[3][0] == "call" and s[3][1] in self.inline:
            # single-value integer helper (region index): inline its if/return ladder into the caller
            h = self.funcs[s[3][1]]
            if len(s[3][2]) != len(h["params"]):
                raise Unsupported("%s: arity of %s" % (f["name"], s[3][1]))
            sub = {}
            for a, pm in zip(s[3][2], h["params"]):
                if a[0] not in ("var", "int"):
                    raise Unsupported("%s: argument of inlined %s is not a variable" % (f["name"], s[3][1]))
                sub[pm["name"]] = a
            body = subst_stmts(h["body"], sub, s[1], rest)
            return self.stmts(f, body, names, defined, ind, tail)
        if k == "if":
            fc = self.fold(s[1], names)
            if fc is not None:
                return self.stmts(f, (s[2] if fc else s[3]) + rest, names, defined, ind, tail)
        if k == "assign":
            self.check_defined(f, s[3], defined)
            name = s[1]
            if isinstance(names.get(name), tuple):
                names = {a: b for a, b in names.items() if a != name}
            t = f["env"].get(name) or f["locs"].get(name)
            if t is None:
                raise Unsupported("%s: assignment to unknown %s" % (f["name"], name))
            ln = names.get(name, name)
            if s[2]:
                idx = " ".join(self.ex(f, ix, ("fin", n), names) for ix, n in zip(s[2], t[2]))
                if len(s[2]) != 1:
                    raise Unsupported("%s: write to a multi-dimensional array" % f["name"])
                val = self.ex(f, s[3], "real" if t[1] == "double" else "nat", names)
                return pad + "let %s := upd %s %s %s\n" % (ln, ln, idx, val) + self.stmts(f, rest, names, defined, ind, tail)
            if s[3][0] == "call":
                val, wr = self.call(f, s[3], names)
                if wr:
                    bind = "(%s, %s)" % (ln, ", ".join(names.get(w, w) for w in wr))
                    return pad + "let %s := %s\n" % (bind, val) + self.stmts(f, rest, names, defined | {name}, ind, tail)
            else:
                val = self.ex(f, s[3], "real" if t[0] == "real" else "nat", names)
            return pad + "let %s := %s\n" % (ln, val) + self.stmts(f, rest, names, defined | {name}, ind, tail)
        if k == "if" and rest and not any(x[0] in ("return", "continue", "break", "inline_return") for x in self.flat(s[2] + s[3])):
            # no early exit in the branches: join the assigned variables instead of duplicating the rest
            self.check_defined(f, s[1], defined)
            c = self.ex(f, s[1], "bool", names)
            assigned = []
            self.assigned(s[2] + s[3], assigned)
            for a in assigned:
                t = f["env"].get(a) or f["locs"].get(a)
                if t[0] != "arr" and a not in defined:
                    both = []
                    for br in (s[2], s[3]):
                        acc = []
                        self.assigned(br, acc)
                        both.append(a in acc)
                    if not all(both):
                        raise Unsupported("%s: %s is assigned in one branch only and has no value before the if" % (f["name"], a))
            st = "(" + ", ".join(names.get(a, a) for a in assigned) + ")" if len(assigned) != 1 else names.get(assigned[0], assigned[0])
            undefined_scalars = [a for a in assigned if (f["env"].get(a) or f["locs"].get(a))[0] != "arr" and a not in defined]
            if undefined_scalars:
                # assigned in both branches (checked above): a placeholder start value is never observed
                pre = "".join(pad + "let %s := %s\n" % (names.get(a, a), "((0 : Nat) : α)" if (f["locs"].get(a) == ("real",)) else "(0 : Nat)") for a in undefined_scalars)
            else:
                pre = ""
            d2 = defined | set(assigned)
            return (pre + pad + "let %s :=\n" % st + pad + "  if %s then\n" % c + self.stmts(f, s[2], names, d2, ind + 2, lambda nm: st) + "\n" +
                    pad + "  else\n" + self.stmts(f, s[3], names, d2, ind + 2, lambda nm: st) + "\n" +
                    self.stmts(f, rest, names, d2, ind, tail))
        if k == "if":
            self.check_defined(f, s[1], defined)
            c = self.ex(f, s[1], "bool", names)
            return (pad + "if %s then\n" % c + self.stmts(f, s[2] + rest, names, defined, ind + 1, tail) + "\n" +
                    pad + "else\n" + self.stmts(f, s[3] + rest, names, defined, ind + 1, tail))
        if k == "eps":
            inner = s[1]
            if not (len(inner) == 1 and inner[0][0] == "if" and not inner[0][3]):
                raise Unsupported("%s: THM_EPSILON block is not a single guard" % f["name"])
            with_eps = self.stmts(f, inner + rest, names, defined | {"THM_EPSILON"}, ind + 1, tail)
            without = self.stmts(f, rest, names, defined, ind + 1, tail)
            return (pad + "match eps with\n" + pad + "| some THM_EPSILON =>\n" + with_eps + "\n" + pad + "| none =>\n" + without)
        if k == "switch":
            self.check_defined(f, s[1], defined)
            e = self.ex(f, s[1], "nat", names)
            out = pad + "match %s with\n" % e
            for ci, (lab, body) in enumerate(s[2]):
                through = []
                for _, b in s[2][ci:]:
                    through = through + b
                    if b and b[-1][0] == "return":
                        break
                out += pad + "| %d =>\n" % lab + self.stmts(f, through + rest, names, defined, ind + 1, tail) + "\n"
            out += pad + "| _ =>\n" + self.stmts(f, rest, names, defined, ind + 1, tail)
            return out
        if k == "for":
            var, n, body = s[1], s[2], s[3]
            if f["fin"].get(var, n) != n:
                raise Unsupported("%s: loop variable %s (bound %d) indexes an array of length %d" % (f["name"], var, n, f["fin"][var]))
            assigned = []
            self.assigned(body, assigned)
            inl = {x[1] for x in self.flat(body) if x[0] == "assign" and not x[2] and x[3][0] == "call" and x[3][1] in self.inline}
            other = {x[1] for x in self.flat(body) if x[0] == "assign" and not (not x[2] and x[3][0] == "call" and x[3][1] in self.inline)}
            assigned = [a for a in assigned if a != var and not (a in inl and a not in other)]
            if any(x[0] in ("return",) for x in self.flat(body)):
                raise Unsupported("%s: return inside a loop" % f["name"])
            for a in assigned:
                t = f["env"].get(a) or f["locs"].get(a)
                if t[0] != "arr" and a not in defined:
                    # scalar first assigned in the loop: give it a start value only if it is assigned before any use in the body
                    pass
            st = "(" + ", ".join(names.get(a, a) for a in assigned) + ")" if len(assigned) != 1 else names.get(assigned[0], assigned[0])
            init_missing = [a for a in assigned if (f["locs"].get(a, ("x",))[0] != "arr") and a not in defined]
            pre = "".join(pad + "let %s := %s\n" % (names.get(a, a), "((0 : Nat) : α)" if (f["locs"].get(a) == ("real",)) else "(0 : Nat)") for a in init_missing)
            f2 = dict(f)
            f2["fin"] = dict(f["fin"])
            f2["fin"][var] = n
            bodytxt = self.stmts(f2, body, names, defined | set(assigned) | {var}, ind + 2, lambda nm: st)
            loop = pad + "let %s := loopFin %d %s (fun %s %s =>\n%s)\n" % (st, n, st, names.get(var, var), st, bodytxt)
            return pre + loop + self.stmts(f, rest, names, defined | set(assigned), ind, tail)
        if k == "break":
            raise Unsupported("%s: `break` is outside the subset" % f["name"])
        raise Unsupported("statement %r" % (k,))

    def fold(self, e, names):
        """truth value of a condition that only involves integer constants, else None"""
        def val(x):
            if x[0] == "int":
                return x[1]
            if x[0] == "neg" and x[1][0] == "int":
                return -x[1][1]
            if x[0] == "var" and isinstance(names.get(x[1]), tuple):
                return names[x[1]][1]
            return None
        if e[0] == "bin" and e[1] in ("<", ">", "<=", ">=", "==", "!="):
            a, b = val(e[2]), val(e[3])
            if a is None or b is None:
                return None
            return {"<": a < b, ">": a > b, "<=": a <= b, ">=": a >= b, "==": a == b, "!=": a != b}[e[1]]
        return None

    def flat(self, ss):
        yield from flat_stmts(ss)

    def assigned(self, ss, acc):
        for s in self.flat(ss):
            if s[0] == "assign" and s[1] not in acc:
                acc.append(s[1])
            if s[0] == "assign" and s[3][0] == "call":
                g = self.sigs.get(s[3][1])
                if g:
                    for a, p in zip(s[3][2], g["params"]):
                        if p["name"] in g["written"] and a[1] not in acc:
                            acc.append(a[1])
            if s[0] == "for" and s[1] not in acc:
                pass

    def check_defined(self, f, e, defined):
        if e == ("var", "THM_EPSILON"):
            if "THM_EPSILON" not in defined:
                raise Unsupported("%s: THM_EPSILON used outside an #ifdef THM_EPSILON block" % f["name"])
            return
        if e[0] == "var":
            t = f["locs"].get(e[1])
            if t is not None and t[0] != "arr" and e[1] not in defined and e[1] not in f["env"]:
                raise Unsupported("%s: local %s may be read before it is assigned" % (f["name"], e[1]))
        for sub in e[1:]:
            if isinstance(sub, tuple):
                self.check_defined(f, sub, defined)
            elif isinstance(sub, list):
                for x in sub:
                    if isinstance(x, tuple):
                        self.check_defined(f, x, defined)

    def function(self, f):
        names = {}
        for v in list(f["locs"]) + [p["name"] for p in f["params"]]:
            if v in self.fnames:
                names[v] = v + "_loc"
        ps = ["(eps : Option α)"]
        for p in f["params"]:
            t = f["env"][p["name"]]
            ps.append("(%s : %s)" % (names.get(p["name"], p["name"]), self.lean_type(t, f["fin"].get(p["name"]))))
        ret = "α" if f["ret"] == "double" else "Nat"
        for w in f["written"]:
            ret += " × " + self.lean_type(f["env"][w])
        # local arrays start as zero
        pre = ""
        for v, t in f["locs"].items():
            if t[0] == "arr":
                if len(t[2]) != 1 or t[1] != "double":
                    raise Unsupported("%s: local array %s" % (f["name"], v))
                pre += "  let %s : Fin %d → α := fun _ => ((0 : Nat) : α)\n" % (names.get(v, v), t[2][0])
        defined = {p["name"] for p in f["params"]} | {v for v, t in f["locs"].items() if t[0] == "arr"}
        body = self.stmts(f, f["body"], names, defined, 1, None)
        return "def %s %s : %s :=\n%s%s\n" % (self.lname(f["name"]), " ".join(ps), ret, pre, body)


def flat_stmts(ss):
    for s in ss:
        yield s
        if s[0] == "if":
            yield from flat_stmts(s[2]); yield from flat_stmts(s[3])
        elif s[0] == "switch":
            for _, b in s[2]:
                yield from flat_stmts(b)
        elif s[0] == "for":
            yield from flat_stmts(s[3])
        elif s[0] == "eps":
            yield from flat_stmts(s[1])


def const_int(e):
    if e[0] == "int":
        return e[1]
    if e[0] == "neg" and e[1][0] == "int":
        return -e[1][1]
    return None


def subst_expr(e, sub):
    if e[0] == "var" and e[1] in sub:
        return sub[e[1]]
    if e[0] == "index" and e[1] in sub:
        if sub[e[1]][0] != "var":
            raise Unsupported("inlining: array parameter bound to a non-variable")
        return ("index", sub[e[1]][1], [subst_expr(x, sub) for x in e[2]])
    out = []
    for part in e:
        if isinstance(part, tuple):
            out.append(subst_expr(part, sub))
        elif isinstance(part, list):
            out.append([subst_expr(x, sub) if isinstance(x, tuple) else x for x in part])
        else:
            out.append(part)
    return tuple(out)


def subst_stmts(ss, sub, target, caller_rest):
    """body of an inlined helper: parameters replaced by the caller's arguments, `return e` -> bind target, continue with the caller"""
    out = []
    for st in ss:
        k = st[0]
        if k == "return":
            out.append(("inline_return", target, subst_expr(st[1], sub), caller_rest))
        elif k == "if":
            out.append(("if", subst_expr(st[1], sub), subst_stmts(st[2], sub, target, caller_rest), subst_stmts(st[3], sub, target, caller_rest)))
        elif k == "decl":
            raise Unsupported("inlining: helper with local variables")
        else:
            raise Unsupported("inlining: statement %r in a helper" % (k,))
    return out


def is_region_helper(f):
    """int-valued helper without locals whose body is a ladder of `if (..) return <int literal>;` ending in a literal return"""
    if f["ret"] not in ("int64_t", "int"):
        return False

    def ok(ss):
        for st in ss:
            if st[0] == "return":
                if const_int(st[1]) is None:
                    return False
            elif st[0] == "if":
                if not ok(st[2]) or not ok(st[3]):
                    return False
            else:
                return False
        return True

    return bool(f["body"]) and ok(f["body"]) and f["body"][-1][0] == "return"


def table_lean(name, dims, init):
    def chk(x, d):
        if not d:
            if not isinstance(x, int):
                raise Unsupported("table %s: ragged initialiser" % name)
            return
        if not isinstance(x, list) or len(x) != d[0]:
            raise Unsupported("table %s: dimension mismatch" % name)
        for y in x:
            chk(y, d[1:])

    chk(init, dims)

    def show(x):
        return "[" + ", ".join(show(y) for y in x) + "]" if isinstance(x, list) else str(x)

    ty = "Int"
    for _ in dims:
        ty = "List (%s)" % ty if " " in ty else "List %s" % ty
    return "/-- `%s%s` -/\ndef %s : %s :=\n  %s\n" % (name, "".join("[%d]" % d for d in dims), name, ty, show(init))


def call_graph_order(funcs, names):
    seen, out = set(), []

    def calls(ss, acc):
        def we(e):
            if e[0] == "call":
                acc.add(e[1])
            if e[0] == "var":
                acc.add(e[1])
            for sub in e[1:]:
                if isinstance(sub, tuple):
                    we(sub)
                elif isinstance(sub, list):
                    for x in sub:
                        if isinstance(x, tuple):
                            we(x)
        for s in ss:
            for part in s[1:]:
                if isinstance(part, tuple):
                    we(part)
                elif isinstance(part, list):
                    if part and isinstance(part[0], tuple) and part[0] and isinstance(part[0][0], str) and part[0][0] in (
                            "decl", "return", "assign", "if", "switch", "for", "eps"):
                        calls(part, acc)
                    else:
                        for x in part:
                            if isinstance(x, tuple) and len(x) == 2 and isinstance(x[1], list):
                                calls(x[1], acc)
                            elif isinstance(x, tuple):
                                we(x)

    def visit(n, stack=()):
        if n in seen:
            return
        if n in stack:
            raise Unsupported("recursion through %s" % n)
        acc = set()
        calls(funcs[n]["body"], acc)
        for m in sorted(acc):
            if m in funcs and m != n:
                visit(m, stack + (n,))
        seen.add(n)
        out.append(n)

    for n in names:
        visit(n)
    return out


HEADER = '''import PhononModel.Model.Basic
/-!
GENERATED by tools/tetra2lean.py from c/tetrahedron_method.c — do not edit.
Every translated function takes `eps : Option α` first: `some ε` is a build with `-DTHM_EPSILON=ε`,
`none` a build without it.  Arrays `double v[4]` are `Fin 4 → α`; integer parameters that index an array are
`Fin n`; a function that writes to an array parameter returns the updated array next to its value.
source sha256: %s
-/
set_option linter.unusedVariables false
namespace PhononModel.TetraC

variable {α : Type} [Add α] [Sub α] [Mul α] [Div α] [Neg α] [NatCast α] [LT α] [DecidableRel (fun a b : α => a < b)]

/-- `fabs` -/
def fabs (x : α) : α := if x < ((0 : Nat) : α) then -x else x

/-- array update `a[k] = x` -/
def upd {n : Nat} (a : Fin n → α) (k : Fin n) (x : α) : Fin n → α := fun j => if j = k then x else a j

/-- `for (i = 0; i < n; i++)` over a state -/
def loopFin {σ : Type} (n : Nat) (init : σ) (body : Fin n → σ → σ) : σ :=
  (List.finRange n).foldl (fun st i => body i st) init

'''


# ---------------------------------------------------------------------------------- the DOS driver loop of c/phonopy.c
def translate_dos_loop(path):
    """The frequency-point loop of `phpy_tetrahedron_method_dos`: its *control structure* is translated.

    The loop body must be: zero or more guards `if (cmp) { continue; | break; }` whose comparisons involve only
    `freq_points[j]` and the scalars `fmin`, `fmax`; then `iw = thm_get_integration_weight(freq_points[j], tetrahedra,
    'I') * weights[i];` and the accumulation loop `dos[...] += iw * coef[...]`. Everything else is Unsupported.
    Emitted: `dos_freq_loop fmin fmax freq_points visit : List (Option β)` — `some (visit ω)` where the body is
    executed for the frequency point, `none` where it is skipped (after a `break`: all remaining points)."""
    raw = open(path).read()
    src = re.sub(r"/\*.*?\*/", lambda m: "\n" * m.group(0).count("\n"), raw, flags=re.S)
    m = re.search(r"void\s+phpy_tetrahedron_method_dos\s*\(", src)
    if not m:
        raise Unsupported("phpy_tetrahedron_method_dos not found in %s" % path)
    start = src.index("{", m.end())
    depth, k = 0, start
    while True:
        if src[k] == "{":
            depth += 1
        elif src[k] == "}":
            depth -= 1
            if depth == 0:
                break
        k += 1
    body = src[start:k + 1]
    body = "\n".join(l for l in body.split("\n") if not l.strip().startswith("#"))
    calls = [mm.start() for mm in re.finditer(r"thm_get_integration_weight\s*\(", body)]
    if len(calls) != 1:
        raise Unsupported("phpy_tetrahedron_method_dos: expected exactly one call of thm_get_integration_weight, found %d" % len(calls))
    cpos = calls[0]
    # innermost counting loop `for (V = 0; V < BOUND; V++) {` whose block contains the call: the frequency-point loop
    best = None
    for mm in re.finditer(r"for\s*\(\s*(\w+)\s*=\s*0\s*;\s*(\w+)\s*<\s*(\w+)\s*;\s*(\w+)\s*\+\+\s*\)\s*\{", body):
        if not (mm.group(1) == mm.group(2) == mm.group(4)):
            continue
        b0 = mm.end() - 1
        depth, k = 0, b0
        while True:
            if body[k] == "{":
                depth += 1
            elif body[k] == "}":
                depth -= 1
                if depth == 0:
                    break
            k += 1
        if b0 < cpos < k and (best is None or b0 > best[1]):
            best = (mm.group(1), b0, k)
    if best is None:
        raise Unsupported("phpy_tetrahedron_method_dos: no counting loop around the call of thm_get_integration_weight")
    var, b0, b1 = best
    loop_src = body[b0:b1 + 1]
    rel = cpos - b0
    # the statement that contains the call:  X = thm_get_integration_weight(ARR[V], <tetrahedra>, 'I') * <multiplicity>;
    st0 = max(loop_src.rfind(";", 0, rel), loop_src.rfind("{", 0, rel), loop_src.rfind("}", 0, rel)) + 1
    st1 = loop_src.index(";", rel) + 1
    mcall = re.fullmatch(r"\s*(\w+)\s*=\s*thm_get_integration_weight\s*\(\s*(\w+)\s*\[\s*%s\s*\]\s*,\s*\w+\s*,\s*'I'\s*\)\s*\*\s*([^;]*);" % re.escape(var),
                         loop_src[st0:st1], flags=re.S)
    if not mcall:
        raise Unsupported("phpy_tetrahedron_method_dos: expected `iw = thm_get_integration_weight(freq_points[j], tetrahedra, 'I') * <multiplicity>;`")
    arr = mcall.group(2)
    if re.search(r"\b%s\b" % re.escape(arr), mcall.group(3)):
        raise Unsupported("phpy_tetrahedron_method_dos: the multiplicity factor depends on the frequency points")
    tail = loop_src[st1:-1]
    if re.search(r"\b(continue|break|return|goto|if|while|switch|do)\b", tail):
        raise Unsupported("phpy_tetrahedron_method_dos: control flow after the integration weight in the frequency loop")
    if not re.search(r"\+=\s*%s\s*\*" % re.escape(mcall.group(1)), tail):
        raise Unsupported("phpy_tetrahedron_method_dos: the integration weight is not accumulated with `+= iw * coef`")
    stmts = P(tokenize(loop_src[:st0] + "}")).block()

    def cmp_lean(e):
        if e[0] == "bin" and e[1] in ("<", ">", "<=", ">="):
            a, b = atom(e[2]), atom(e[3])
            return {"<": "(%s < %s)" % (a, b), ">": "(%s < %s)" % (b, a), "<=": "(¬ (%s < %s))" % (b, a), ">=": "(¬ (%s < %s))" % (a, b)}[e[1]]
        if e[0] == "bin" and e[1] in ("&&", "||"):
            return "(%s %s %s)" % (cmp_lean(e[2]), {"&&": "∧", "||": "∨"}[e[1]], cmp_lean(e[3]))
        raise Unsupported("phpy_tetrahedron_method_dos: guard condition %r" % (e,))

    def atom(e):
        if e == ("index", arr, [("var", var)]):
            return "w"
        if e in (("var", "fmin"), ("var", "fmax")):
            return e[1]
        raise Unsupported("phpy_tetrahedron_method_dos: guard operand %r" % (e,))

    guards = []
    rest = list(stmts)
    while rest and rest[0][0] == "if":
        _, c, a, b = rest.pop(0)
        if b or len(a) != 1 or a[0][0] not in ("continue", "break"):
            raise Unsupported("phpy_tetrahedron_method_dos: conditional in the frequency loop is not `if (..) continue;|break;`")
        guards.append((cmp_lean(c), a[0][0]))
    if rest:
        raise Unsupported("phpy_tetrahedron_method_dos: unexpected statements before the integration weight in the frequency loop")
    out = "/-- control structure of the frequency-point loop of `c/phonopy.c: phpy_tetrahedron_method_dos`\n"
    out += "(source sha256 of phonopy.c: %s): `some (visit ω)` where the loop body runs, `none` where it is skipped. -/\n" % __import__("hashlib").sha256(raw.encode()).hexdigest()
    out += "def dos_freq_loop {β : Type} (fmin fmax : α) (visit : α → β) : List α → List (Option β)\n  | [] => []\n  | w :: rest =>\n"
    ind = "    "
    for cond, act in guards:
        out += ind + "if %s then %s\n" % (cond, "none :: dos_freq_loop fmin fmax visit rest" if act == "continue" else "none :: rest.map (fun _ => none)")
        out += ind + "else\n"
        ind += "  "
    out += ind + "some (visit w) :: dos_freq_loop fmin fmax visit rest\n\n"
    return out


ENTRY = "thm_get_integration_weight"


def calls_of(ss):
    """names called or passed as function arguments in a statement list"""
    acc = []

    def we(e):
        if e[0] == "call":
            acc.append(e[1])
        if e[0] == "var":
            acc.append(e[1])
        for sub in e[1:]:
            if isinstance(sub, tuple):
                we(sub)
            elif isinstance(sub, list):
                for x in sub:
                    if isinstance(x, tuple):
                        we(x)

    def ws(ss):
        for st in ss:
            if st[0] in ("return",):
                we(st[1])
            elif st[0] == "assign":
                for ix in st[2]:
                    we(ix)
                we(st[3])
            elif st[0] == "if":
                we(st[1]); ws(st[2]); ws(st[3])
            elif st[0] == "switch":
                we(st[1])
                for _, b in st[2]:
                    ws(b)
            elif st[0] == "for":
                ws(st[3])
            elif st[0] == "eps":
                ws(st[1])

    ws(ss)
    return acc


def find_roles(funcs):
    """Structural roles of the functions reachable from the entry point -> canonical Lean names (the theorems refer to
    these; the C names of static functions are irrelevant)."""
    roles = {ENTRY: "thm_get_integration_weight"}
    try:
        body = funcs[ENTRY]["body"]
        st = [x for x in body if x[0] == "if"][0]
        cond, a, b = st[1], st[2], st[3]
        ca, cb = a[-1][1], b[-1][1]
        if not (cond[0] == "bin" and cond[1] == "==" and ("char", "'I'") in (cond[2], cond[3])):
            return roles
        if ca[0] != "call" or cb[0] != "call" or ca[1] != cb[1] or len(ca[2]) != 4:
            return roles
        roles[ca[1]] = "get_integration_weight"
        roles[ca[2][2][1]], roles[ca[2][3][1]] = "g", "I"
        roles[cb[2][2][1]], roles[cb[2][3][1]] = "n", "J"
        integ = funcs[ca[1]]
        # the callee that writes its array argument: the vertex sort
        for st_ in flat_stmts(integ["body"]):
            if st_[0] == "assign" and st_[3][0] == "call" and st_[3][1] in funcs and st_[3][1] not in roles:
                g_ = funcs[st_[3][1]]
                if any(p["dims"] and not p.get("const") for p in g_["params"]) and g_["ret"] in ("int64_t", "int") and len(g_["params"]) == 1:
                    roles[st_[3][1]] = "sort_omegas"
        # dispatchers: switch (i) { case k: [switch (ci) { case c: return X(..) }] | return X(..) }
        for cname, tag in list(roles.items()):
            if tag not in ("g", "I", "n", "J"):
                continue
            for st_ in funcs[cname]["body"]:
                if st_[0] != "switch":
                    continue
                for lab, b_ in st_[2]:
                    for x in b_:
                        if x[0] == "return" and x[1][0] == "call" and x[1][1] in funcs:
                            roles.setdefault(x[1][1], "%s_%d" % (tag, lab))
                        if x[0] == "switch":
                            for lab2, b2 in x[2]:
                                for y in b2:
                                    if y[0] == "return" and y[1][0] == "call" and y[1][1] in funcs:
                                        roles.setdefault(y[1][1], "%s_%d%d" % (tag, lab, lab2))
        # the ratio function: the only callee of the leaf formulas without a role, (int, int, double, double[4])
        cands = set()
        for cname, tag in roles.items():
            if re.fullmatch(r"[gnIJ]_\d+", tag):
                for c_ in calls_of(funcs[cname]["body"]):
                    if c_ in funcs and c_ not in roles and len(funcs[c_]["params"]) == 4:
                        cands.add(c_)
        if len(cands) == 1:
            roles[cands.pop()] = "f"
    except (KeyError, IndexError, TypeError):
        pass
    if len(set(roles.values())) != len(roles):
        return {ENTRY: "thm_get_integration_weight"}
    return roles


def translate(src_path):
    import hashlib

    raw = open(src_path).read()
    funcs, tables, order = P(tokenize(preprocess(raw))).toplevel()
    if ENTRY not in funcs:
        raise Unsupported("public entry point %s not found" % ENTRY)
    for tname in TABLES:
        if tname not in tables:
            raise Unsupported("table %s not found" % tname)
    # everything reachable from the public entry point (through calls and function-valued arguments) is translated;
    # what is not reachable cannot feed the translated expressions and is not even parsed
    reach, todo = [], [ENTRY]
    while todo:
        n = todo.pop()
        if n in reach:
            continue
        reach.append(n)
        f = funcs[n]
        f["body"] = P(f["tokens"]).block()
        for c in calls_of(f["body"]):
            if c in funcs and c not in reach:
                todo.append(c)
    sub = {n: funcs[n] for n in reach}
    roles = find_roles(sub)
    inline = [n for n in reach if n not in roles and is_region_helper(sub[n])]
    em = Emitter(sub, roles, inline)
    out = HEADER % hashlib.sha256(raw.encode()).hexdigest()
    out = out.replace("source sha256:", "C name -> Lean name: %s\ninlined: %s\nsource sha256:" % (
        ", ".join("%s -> %s" % (k, v) for k, v in sorted(roles.items()) if lean_name(k) != v) or "(all canonical)", ", ".join(inline) or "(none)"))
    for tname in TABLES:
        out += table_lean(tname, *tables[tname]) + "\n"
    for n in call_graph_order(sub, sorted(n for n in reach if n not in inline)):
        if n not in inline:
            out += em.function(sub[n]) + "\n"
    out += translate_dos_loop(os.path.join(os.path.dirname(src_path), "phonopy.c"))
    out += "end PhononModel.TetraC\n"
    return out


def main():
    repo = os.environ.get("VERIF_REPO", "/repo")
    src = os.path.join(repo, "c", "tetrahedron_method.c")
    dst = os.path.join(HERE, "lean", "PhononModel", "Gen", "TetraC.lean")
    if len(sys.argv) > 1:
        src = sys.argv[1]
    if len(sys.argv) > 2:
        dst = sys.argv[2]
    try:
        text = translate(src)
    except Unsupported as e:
        print("tetra2lean: UNSUPPORTED: %s" % e, file=sys.stderr)
        sys.exit(1)
    old = open(dst).read() if os.path.exists(dst) else None
    if old != text:
        tmp = dst + ".tmp%d" % os.getpid()
        with open(tmp, "w") as fh:
            fh.write(text)
        os.replace(tmp, dst)
        print("tetra2lean: wrote %s (%d bytes)" % (dst, len(text)))
    else:
        print("tetra2lean: %s up to date" % dst)


if __name__ == "__main__":
    main()
