#!/usr/bin/env python3
"""T-units: phonopy/units.py + the unit tables of phonopy/interface/calculator.py -> lean/PhononModel/Gen/Units.lean

Run on every `./check C17` (and usable stand-alone: `python tools/units2lean.py [repo] [out]`).
Only Python's `ast` is used; nothing is evaluated.  Every right-hand side built from names, numerals,
`* / **`, `sqrt`, `pi` becomes a `UExpr` term.  Anything outside that subset raises `Untranslatable`
(the check reports the proof step as broken).

Symbols (see Model/UnitAlgebra.lean): 0 = pi; 2, 3, 5 = primes; >= 10 = module-level names of units.py
that are bound to a decimal literal with a prime factor other than 2, 3, 5 in its digits (kb_J,
PlanckConstant, ...) and literals of that kind that occur inside expressions (opaque).
"""
from __future__ import annotations

import ast
import os
import sys
from decimal import Decimal


class Untranslatable(Exception):
    pass


def _lit(text):
    """decimal literal text -> (n, e10) with value n * 10**e10, n without trailing zeros"""
    d = Decimal(text.replace("_", ""))
    sign, digits, exp = d.as_tuple()
    if sign or not isinstance(exp, int):
        raise Untranslatable("literal %r is not a non-negative finite decimal" % text)
    n = int("".join(map(str, digits)))
    if n == 0:
        raise Untranslatable("literal 0 has no monomial")
    while n % 10 == 0:
        n //= 10
        exp += 1
    return n, exp


def _smooth(n):
    for p in (2, 3, 5):
        while n % p == 0:
            n //= p
    return n == 1


def _lean_int(k):
    return "(%d)" % k if k < 0 else "%d" % k


class Translator:
    def __init__(self, src_units, src_calc, repo=None):
        self.su = src_units
        self.sc = src_calc
        self.repo = repo
        self.route = "ast"
        self.syms = [(0, "pi", None)]  # (id, name, (n, e10) exact value or None)
        self.next_sym = 10
        self.defs = []  # (name, lean term) in order, units.py
        self.known = set()
        self.opaque = {}
        self.helpers = {}  # name -> (parameter names, return expression, source)

    @staticmethod
    def lean_name(name):
        """private module names (leading underscore) get a Lean-friendly spelling"""
        return "priv" + name if name.startswith("_") else name

    def helper_def(self, st, src):
        """`def name(p1, p2, ...): [docstring] return <expr>` -> inlinable helper, else None"""
        a = st.args
        if a.vararg or a.kwarg or a.kwonlyargs or a.posonlyargs or a.defaults or st.decorator_list:
            return None
        body = [b for b in st.body if not (isinstance(b, ast.Expr) and isinstance(b.value, ast.Constant) and isinstance(b.value.value, str))]
        if len(body) != 1 or not isinstance(body[0], ast.Return) or body[0].value is None:
            return None
        return ([x.arg for x in a.args], body[0].value, src)

    # ---- symbols
    def new_sym(self, name, val):
        k = self.next_sym
        self.next_sym += 1
        self.syms.append((k, name, val))
        return k

    # ---- expressions
    def literal(self, node, src):
        if isinstance(node.value, bool) or not isinstance(node.value, (int, float)):
            raise Untranslatable("constant %r" % (node.value,))
        text = ast.get_source_segment(src, node)
        return _lit(text)

    def expr(self, node, src, env=None):
        """env: parameter name -> Lean term, while the body of a helper function is being inlined"""
        if isinstance(node, ast.Constant):
            n, e = self.literal(node, src)
            if _smooth(n):
                return "(.num %d %s)" % (n, _lean_int(e))
            key = (n, e)
            if key not in self.opaque:
                self.opaque[key] = self.new_sym("lit_%de%d" % (n, e), key)
            return "(.sym %d)" % self.opaque[key]
        if isinstance(node, ast.Name):
            if env is not None and node.id in env:
                return env[node.id]
            if node.id == "pi":
                return "UExpr.pi"
            if node.id in self.known:
                return self.lean_name(node.id)
            raise Untranslatable("unknown name %s" % node.id)
        if isinstance(node, ast.BinOp):
            if isinstance(node.op, ast.Mult):
                return "(.mul %s %s)" % (self.expr(node.left, src, env), self.expr(node.right, src, env))
            if isinstance(node.op, ast.Div):
                return "(.div %s %s)" % (self.expr(node.left, src, env), self.expr(node.right, src, env))
            if isinstance(node.op, ast.Pow):
                k = self.int_const(node.right)
                return "(.pow %s %s)" % (self.expr(node.left, src, env), _lean_int(k))
            raise Untranslatable("operator %s" % type(node.op).__name__)
        if isinstance(node, ast.Call) and isinstance(node.func, ast.Name) and node.func.id == "sqrt" and len(node.args) == 1 and not node.keywords:
            return "(.sqrt %s)" % self.expr(node.args[0], src, env)
        if isinstance(node, ast.Call) and isinstance(node.func, ast.Name) and node.func.id in self.helpers:
            # a helper `def f(a, b): return <arithmetic>` of the same module: inline the call
            params, body, hsrc = self.helpers[node.func.id]
            args = {}
            for prm, a in zip(params, node.args):
                args[prm] = self.expr(a, src, env)
            for kw in node.keywords:
                if kw.arg not in params or kw.arg in args:
                    raise Untranslatable("call of %s: keyword %r" % (node.func.id, kw.arg))
                args[kw.arg] = self.expr(kw.value, src, env)
            if set(args) != set(params):
                raise Untranslatable("call of %s: %d arguments for parameters %r" % (node.func.id, len(args), params))
            return self.expr(body, hsrc, args)
        raise Untranslatable("expression %s" % ast.dump(node)[:200])

    @staticmethod
    def int_const(node):
        if isinstance(node, ast.Constant) and isinstance(node.value, int) and not isinstance(node.value, bool):
            return node.value
        if isinstance(node, ast.UnaryOp) and isinstance(node.op, ast.USub):
            return -Translator.int_const(node.operand)
        raise Untranslatable("exponent is not an integer literal")

    # ---- units.py
    def units_module(self):
        tree = ast.parse(self.su)
        for st in tree.body:
            if isinstance(st, (ast.ImportFrom, ast.Import)):
                continue
            if isinstance(st, ast.Expr) and isinstance(st.value, ast.Constant) and isinstance(st.value.value, str):
                continue  # docstring
            if isinstance(st, ast.FunctionDef):
                h = self.helper_def(st, self.su)
                if h is None:
                    raise Untranslatable("units.py: function %s at line %d is not `return <arithmetic expression>`" % (st.name, st.lineno))
                self.helpers[st.name] = h  # translated (and checked) where it is called
                continue
            if isinstance(st, ast.AnnAssign) and isinstance(st.target, ast.Name) and st.value is not None:
                st = ast.Assign(targets=[st.target], value=st.value, lineno=st.lineno)
            if not (isinstance(st, ast.Assign) and len(st.targets) == 1 and isinstance(st.targets[0], ast.Name)):
                raise Untranslatable("units.py: statement at line %d" % st.lineno)
            name = st.targets[0].id
            if isinstance(st.value, ast.Constant):
                n, e = self.literal(st.value, self.su)
                if _smooth(n):
                    term = "(.num %d %s)" % (n, _lean_int(e))
                else:
                    term = "(.sym %d)" % self.new_sym(name, (n, e))
            else:
                term = self.expr(st.value, self.su)
            self.defs.append((name, term))
            self.known.add(name)

    # ---- calculator.py
    @staticmethod
    def _func(tree, name):
        for st in tree.body:
            if isinstance(st, ast.FunctionDef) and st.name == name:
                return st
        raise Untranslatable("calculator.py: function %s not found" % name)

    @staticmethod
    def _str_list(node):
        if isinstance(node, (ast.Tuple, ast.List)) and all(isinstance(e, ast.Constant) and isinstance(e.value, str) for e in node.elts):
            return [e.value for e in node.elts]
        raise Untranslatable("expected a tuple/list of strings")

    def _test(self, node, var):
        """condition on `var` -> (matches_None, [names])"""
        if isinstance(node, ast.BoolOp) and isinstance(node.op, ast.Or):
            non, names = False, []
            for v in node.values:
                a, b = self._test(v, var)
                non, names = non or a, names + b
            return non, names
        if isinstance(node, ast.Compare) and len(node.ops) == 1 and isinstance(node.left, ast.Name) and node.left.id == var:
            op, rhs = node.ops[0], node.comparators[0]
            if isinstance(op, ast.Is) and isinstance(rhs, ast.Constant) and rhs.value is None:
                return True, []
            if isinstance(op, ast.Eq) and isinstance(rhs, ast.Constant) and isinstance(rhs.value, str):
                return False, [rhs.value]
            if isinstance(op, ast.In):
                return False, self._str_list(rhs)
        raise Untranslatable("condition %s" % ast.dump(node)[:200])

    def calculators(self):
        tree = ast.parse(self.sc)
        self.ctree = tree
        names = None
        for st in tree.body:
            if isinstance(st, ast.Assign) and len(st.targets) == 1 and isinstance(st.targets[0], ast.Name) and st.targets[0].id == "calculator_info":
                if not isinstance(st.value, ast.Dict):
                    raise Untranslatable("calculator_info is not a dict literal")
                names = [k.value for k in st.value.keys]
        if not names:
            raise Untranslatable("calculator_info not found")
        self.calc_names = names
        # names imported from phonopy.units must be known
        for st in tree.body:
            if isinstance(st, ast.ImportFrom) and st.module == "phonopy.units":
                for a in st.names:
                    if a.name not in self.known or a.asname:
                        raise Untranslatable("calculator.py imports unknown unit %s" % a.name)

    def physical_units(self):
        fn = self._func(self.ctree, "get_default_physical_units")
        var = fn.args.args[0].arg
        keys, chain = None, None
        for st in fn.body:
            if isinstance(st, ast.Expr) and isinstance(st.value, ast.Constant):
                continue
            if isinstance(st, ast.Assign) and isinstance(st.targets[0], ast.Name) and st.targets[0].id == "units":
                if not (isinstance(st.value, ast.Dict) and all(isinstance(v, ast.Constant) and v.value is None for v in st.value.values)):
                    raise Untranslatable("units = {...} initialiser")
                keys = [k.value for k in st.value.keys]
            elif isinstance(st, ast.If):
                if chain is not None:
                    raise Untranslatable("second if-chain in get_default_physical_units")
                chain = st
            elif isinstance(st, ast.Return):
                if not (isinstance(st.value, ast.Name) and st.value.id == "units"):
                    raise Untranslatable("return value")
            else:
                raise Untranslatable("get_default_physical_units: statement at line %d" % st.lineno)
        want = ["factor", "nac_factor", "distance_to_A", "force_to_eVperA", "force_constants_unit", "length_unit", "force_unit"]
        if keys != want:
            raise Untranslatable("units keys %r != %r" % (keys, want))
        branches = []
        node = chain
        while node is not None:
            non, names = self._test(node.test, var)
            body = {}
            for st in node.body:
                if not (isinstance(st, ast.Assign) and len(st.targets) == 1 and isinstance(st.targets[0], ast.Subscript)
                        and isinstance(st.targets[0].value, ast.Name) and st.targets[0].value.id == "units"
                        and isinstance(st.targets[0].slice, ast.Constant)):
                    raise Untranslatable("branch statement at line %d" % st.lineno)
                k = st.targets[0].slice.value
                if k not in want:
                    raise Untranslatable("unknown units key %r" % k)
                body[k] = st.value
            branches.append((non, names, body))
            if len(node.orelse) == 1 and isinstance(node.orelse[0], ast.If):
                node = node.orelse[0]
            elif not node.orelse:
                node = None
            else:
                raise Untranslatable("else branch in get_default_physical_units")
        self.branches = branches
        out = {}
        for c in self.calc_names + [None]:
            rec = {k: None for k in want}
            for non, names, body in branches:
                if (c is None and non) or (c is not None and c in names):
                    rec = dict(rec)
                    rec.update(body)
                    break
            out[c] = rec
        return out

    ATOMS = {"eV": ".eV", "Ry": ".Ry", "mRy": ".mRy", "hartree": ".hartree", "angstrom": ".angstrom", "au": ".au"}

    def unit_str(self, s):
        """'eV/angstrom.au' | 'Ry/au^2' | 'au' -> UnitStr term"""
        s = s.replace("Angstrom", "angstrom")
        top, _, bot = s.partition("/")
        atoms = []
        if bot:
            for part in bot.split("."):
                base, _, pw = part.partition("^")
                k = int(pw) if pw else 1
                atoms += [base] * k
        for a in [top] + atoms:
            if a not in self.ATOMS:
                raise Untranslatable("unit name %r in %r" % (a, s))
        return "{ top := %s, bot := [%s] }" % (self.ATOMS[top], ", ".join(self.ATOMS[a] for a in atoms))

    def opt_expr(self, node):
        if isinstance(node, str):
            return node  # already a Lean term (trace route)
        if node is None or (isinstance(node, ast.Constant) and node.value is None):
            return "none"
        return "(some %s)" % self.expr(node, self.sc)

    def opt_unit(self, node):
        if isinstance(node, str):
            return node
        if node is None or (isinstance(node, ast.Constant) and node.value is None):
            return "none"
        if isinstance(node, ast.Constant) and isinstance(node.value, str):
            return "(some %s)" % self.unit_str(node.value)
        raise Untranslatable("unit string expected")

    def conversion_table(self):
        """the unit -> eV/A^2 table of get_force_constant_conversion_factor: a dict literal with string keys, bound to
        any name inside the function or at module level, that the function subscripts"""
        fn = self._func(self.ctree, "get_force_constant_conversion_factor")
        used = []
        for n in ast.walk(fn):
            if isinstance(n, ast.Subscript) and isinstance(n.value, ast.Name) and n.value.id not in used:
                used.append(n.value.id)

        def dict_of(name):
            for scope in (ast.walk(fn), self.ctree.body):
                for st in scope:
                    tgt = None
                    if isinstance(st, ast.Assign) and len(st.targets) == 1 and isinstance(st.targets[0], ast.Name):
                        tgt, val = st.targets[0].id, st.value
                    elif isinstance(st, ast.AnnAssign) and isinstance(st.target, ast.Name) and st.value is not None:
                        tgt, val = st.target.id, st.value
                    if tgt == name and isinstance(val, ast.Dict) and val.keys and all(
                            isinstance(k, ast.Constant) and isinstance(k.value, str) for k in val.keys):
                        return val
            return None

        tables = [(nm, dict_of(nm)) for nm in used]
        tables = [(nm, d) for nm, d in tables if d is not None]
        if len(tables) != 1:
            raise Untranslatable("get_force_constant_conversion_factor: %d candidate unit tables (%r)" % (len(tables), [t[0] for t in tables]))
        d = tables[0][1]
        rows = []
        for k, v in zip(d.keys, d.values):
            rows.append((k.value, "(%s, %s)" % (self.unit_str(k.value), self.expr(v, self.sc))))
        return rows

    def displacement_distance(self):
        fn = self._func(self.ctree, "get_default_displacement_distance")
        var = fn.args.args[0].arg
        ifs = [st for st in fn.body if isinstance(st, ast.If)]
        if len(ifs) != 1:
            raise Untranslatable("get_default_displacement_distance: shape")
        node = ifs[0]
        non, names = self._test(node.test, var)

        def val(body):
            if len(body) == 1 and isinstance(body[0], ast.Assign) and isinstance(body[0].value, ast.Constant):
                return self.expr(body[0].value, self.sc)
            raise Untranslatable("get_default_displacement_distance: branch")

        a, b = val(node.body), val(node.orelse)
        return {c: (a if c in names else b) for c in self.calc_names}

    # ---- output
    # ---- fallback route: symbolic trace of calculator.py (tools/units_trace.py)
    def num_term(self, text):
        n, e = _lit(text)
        if _smooth(n):
            return "(.num %d %s)" % (n, _lean_int(e))
        key = (n, e)
        if key not in self.opaque:
            self.opaque[key] = self.new_sym("lit_%de%d" % (n, e), key)
        return "(.sym %d)" % self.opaque[key]

    def tree(self, t):
        kind = t[0]
        if kind == "name":
            if t[1] not in self.known:
                raise Untranslatable("trace: unknown unit %s" % t[1])
            return self.lean_name(t[1])
        if kind == "lit":
            return self.num_term(t[1])
        if kind in ("mul", "div"):
            return "(.%s %s %s)" % (kind, self.tree(t[1]), self.tree(t[2]))
        if kind == "pow":
            return "(.pow %s %s)" % (self.tree(t[1]), _lean_int(int(t[2])))
        raise Untranslatable("trace: value %r" % (t,))

    def traced(self):
        """per-calculator tables obtained by calling calculator.py's public functions on symbolic unit constants"""
        import json
        import subprocess

        if self.repo is None:
            raise Untranslatable("trace route needs the repository path")
        here = os.path.dirname(os.path.abspath(__file__))
        names = [n for n, _ in self.defs]
        r = subprocess.run([sys.executable, os.path.join(here, "units_trace.py"), self.repo, json.dumps(names)],
                           capture_output=True, text=True, timeout=300)
        if r.returncode != 0:
            raise Untranslatable("symbolic trace of calculator.py failed: %s" % r.stderr.strip().split("\n")[-1][:300])
        d = json.loads(r.stdout)
        want = ["factor", "nac_factor", "distance_to_A", "force_to_eVperA", "force_constants_unit", "length_unit", "force_unit"]
        if d["keys"] != want:
            raise Untranslatable("units keys %r != %r" % (d["keys"], want))
        if d["calculators"] != self.calc_names:
            raise Untranslatable("trace: calculator_info keys differ")

        def oe(t):
            return "none" if t is None else "(some %s)" % self.tree(t)

        def ou(t):
            if t is None:
                return "none"
            if t[0] != "str":
                raise Untranslatable("trace: unit string expected, got %r" % (t,))
            return "(some %s)" % self.unit_str(t[1])

        pu = {}
        for c in self.calc_names + [None]:
            u = d["units"]["" if c is None else c]
            pu[c] = {k: (oe(u[k]) if k in want[:4] else ou(u[k])) for k in want}
        doc_order = ["eV/angstrom^2", "eV/angstrom.au", "Ry/au^2", "mRy/au^2", "hartree/au^2", "hartree/angstrom.au"]  # docstring order
        rows = sorted(d["table"], key=lambda r: (doc_order.index(r[0]) if r[0] in doc_order else len(doc_order), r[0]))
        table = [(ustr, "(%s, %s)" % (self.unit_str(ustr), self.tree(t))) for ustr, t in rows]
        if not table:
            raise Untranslatable("trace: empty conversion table")
        dd = {c: self.tree(d["disp"][c]) for c in self.calc_names}
        return pu, table, dd

    def render(self):
        self.units_module()
        self.calculators()
        route = "ast"
        try:
            pu = self.physical_units()
            table = self.conversion_table()
            dd = self.displacement_distance()
        except Untranslatable as e:
            # the tables are no longer the if/elif chains / dict literal the ast route reads (import-time tables, helper
            # look-ups, NamedTuple rows ...): read them off the public functions evaluated on symbolic unit constants
            route = "symbolic trace (ast route: %s)" % e
            pu, table, dd = self.traced()
        self.route = route
        L = []
        w = L.append
        w("/- GENERATED by tools/units2lean.py from phonopy/units.py and phonopy/interface/calculator.py — do not edit.")
        w("   per-calculator tables obtained by: %s -/" % ("ast" if route == "ast" else "symbolic trace of the public functions"))
        w("import PhononModel.Model.UnitAlgebra")
        w("namespace PhononModel.Gen.Units")
        w("open PhononModel.Units")
        w("")
        w("/-- symbol id, source name, exact value `n · 10^e` (none for pi) -/")
        w("def symTable : List (Nat × String × Option (Nat × Int)) := [")
        w(",\n".join("  (%d, \"%s\", %s)" % (k, nm, "none" if v is None else "some (%d, %s)" % (v[0], _lean_int(v[1]))) for k, nm, v in self.syms))
        w("]")
        w("")
        for name, term in self.defs:
            w("def %s : UExpr := %s" % (self.lean_name(name), term))
        w("")
        w("def allDefs : List (String × UExpr) := [")
        w(",\n".join("  (\"%s\", %s)" % (n, self.lean_name(n)) for n, _ in self.defs))
        w("]")
        w("")
        ids = [self.cname(c) for c in self.calc_names]
        w("/-- the keys of `calculator_info` -/")
        w("inductive Calc where")
        for c in ids:
            w("  | %s" % c)
        w("  deriving Repr, DecidableEq, Inhabited")
        w("")
        w("def Calc.all : List Calc := [%s]" % ", ".join("." + c for c in ids))
        w("")
        w("def Calc.name : Calc → String")
        for c, n in zip(ids, self.calc_names):
            w("  | .%s => \"%s\"" % (c, n))
        w("")

        def rec(r):
            return ("{ factor := %s, nac := %s, distToA := %s, forceToEVperA := %s,\n      fcUnit := %s,\n      lenUnit := %s,\n      forceUnit := %s }" % (
                self.opt_expr(r["factor"]), self.opt_expr(r["nac_factor"]), self.opt_expr(r["distance_to_A"]),
                self.opt_expr(r["force_to_eVperA"]), self.opt_unit(r["force_constants_unit"]),
                self.opt_unit(r["length_unit"]), self.opt_unit(r["force_unit"])))

        w("/-- `get_default_physical_units(c)` -/")
        w("def units : Calc → CalcUnits")
        for c, n in zip(ids, self.calc_names):
            w("  | .%s =>\n    %s" % (c, rec(pu[n])))
        w("")
        w("/-- `get_default_physical_units(None)` -/")
        w("def unitsDefault : CalcUnits :=\n    %s" % rec(pu[None]))
        w("")
        w("/-- `factor_to_eVperA2` of `get_force_constant_conversion_factor` -/")
        w("def fcConversionTable : List (UnitStr × UExpr) := [")
        w(",\n".join("  " + t for _, t in table))
        w("]")
        w("")
        w("/-- `get_default_displacement_distance(c)` -/")
        w("def dispDistance : Calc → UExpr")
        for c, n in zip(ids, self.calc_names):
            w("  | .%s => %s" % (c, dd[n]))
        w("")
        w("end PhononModel.Gen.Units")
        return "\n".join(L) + "\n"

    @staticmethod
    def cname(c):
        s = "".join(ch if ch.isalnum() else "_" for ch in c)
        return s if not s[0].isdigit() else "c" + s


def generate(repo, out):
    su = open(os.path.join(repo, "phonopy", "units.py")).read()
    sc = open(os.path.join(repo, "phonopy", "interface", "calculator.py")).read()
    text = Translator(su, sc, repo=repo).render()
    old = open(out).read() if os.path.exists(out) else None
    if old != text:  # keep the mtime (and lake's cache) when nothing changed
        tmp = out + ".tmp%d" % os.getpid()
        with open(tmp, "w") as f:
            f.write(text)
        os.replace(tmp, out)
    return text


if __name__ == "__main__":
    here = os.path.dirname(os.path.dirname(os.path.abspath(__file__)))
    repo = sys.argv[1] if len(sys.argv) > 1 else os.environ.get("VERIF_REPO", "/repo")
    out = sys.argv[2] if len(sys.argv) > 2 else os.path.join(here, "lean", "PhononModel", "Gen", "Units.lean")
    generate(repo, out)
    print("wrote", out)
