#!/usr/bin/env python3
"""Symbolic trace of the per-calculator unit tables of phonopy/interface/calculator.py (fallback route of
tools/units2lean.py, used when `get_default_physical_units` & co. are no longer the if/elif chains the `ast`
route reads: import-time tables, NamedTuple rows, helper look-ups, ...).

Run in its own process: `units_trace.py <repo> <json list of the names defined in units.py>`.
calculator.py is executed once in a scratch namespace in which every name imported from `phonopy.units` is
bound to a symbolic value (`Sym`) that records `* / **` with numbers and with other symbols as an expression
tree.  Then the PUBLIC functions are called for every key of `calculator_info` (and None):
`get_default_physical_units`, `get_default_displacement_distance`, `get_force_constant_conversion_factor`.
What is printed (JSON) is the expression tree of every value: ["name", N] | ["lit", repr] | ["mul", a, b] |
["div", a, b] | ["pow", a, k] | None | ["str", s].  No numeric value of a constant takes part.
"""
import importlib
import json
import os
import re
import sys
import types


class Sym:
    def __init__(self, tree):
        self.tree = tree

    @staticmethod
    def lift(x):
        if isinstance(x, Sym):
            return x.tree
        if isinstance(x, bool) or not isinstance(x, (int, float)):
            raise TypeError("symbolic unit combined with %r" % (x,))
        return ["lit", repr(x)]

    def __mul__(self, o):
        return Sym(["mul", self.tree, Sym.lift(o)])

    def __rmul__(self, o):
        return Sym(["mul", Sym.lift(o), self.tree])

    def __truediv__(self, o):
        return Sym(["div", self.tree, Sym.lift(o)])

    def __rtruediv__(self, o):
        return Sym(["div", Sym.lift(o), self.tree])

    def __pow__(self, k):
        if isinstance(k, bool) or not isinstance(k, int):
            raise TypeError("symbolic unit to the power %r" % (k,))
        return Sym(["pow", self.tree, k])

    def _no(self, *a):
        raise TypeError("operation on a symbolic unit outside * / **")

    __add__ = __radd__ = __sub__ = __rsub__ = __float__ = __lt__ = __gt__ = __le__ = __ge__ = __bool__ = _no

    def __eq__(self, o):
        return isinstance(o, Sym) and o.tree == self.tree

    def __hash__(self):
        return hash(json.dumps(self.tree))


def enc(v):
    if v is None:
        return None
    if isinstance(v, Sym):
        return v.tree
    if isinstance(v, str):
        return ["str", v]
    if isinstance(v, bool):
        raise TypeError("bool value")
    if isinstance(v, (int, float)):
        return ["lit", repr(v)]
    raise TypeError("value %r" % (v,))


def main():
    repo, names = sys.argv[1], json.loads(sys.argv[2])
    sys.path.insert(0, repo)
    import phonopy.interface.calculator as real  # noqa: F401  (all dependencies imported for real first)

    path = os.path.join(repo, "phonopy", "interface", "calculator.py")
    src = open(path).read()
    fake = types.ModuleType("phonopy.units")
    for n in names:
        setattr(fake, n, Sym(["name", n]))
    saved = sys.modules["phonopy.units"]
    sys.modules["phonopy.units"] = fake
    try:
        mod = types.ModuleType("phonopy.interface.calculator_traced")
        mod.__file__ = path
        mod.__package__ = "phonopy.interface"
        exec(compile(src, path, "exec"), mod.__dict__)
    finally:
        sys.modules["phonopy.units"] = saved
    calcs = list(mod.calculator_info)
    out = {"calculators": calcs, "units": {}, "disp": {}, "table": []}
    keys = None
    for c in calcs + [None]:
        u = mod.get_default_physical_units(c)
        if keys is None:
            keys = list(u)
        if list(u) != keys:
            raise TypeError("get_default_physical_units: key order differs between calculators")
        out["units"]["" if c is None else c] = {k: enc(v) for k, v in u.items()}
    out["keys"] = keys
    for c in calcs:
        out["disp"][c] = enc(mod.get_default_displacement_distance(c))
    # the units the conversion function knows: every unit-looking string literal of the module is tried; the reference
    # calculator is one whose own unit is eV/angstrom^2 (the table's entry 1)
    cand = []
    for m in re.finditer(r"[\"']((?:eV|Ry|mRy|hartree)/[A-Za-z.^0-9]+)[\"']", src):
        if m.group(1) not in cand:
            cand.append(m.group(1))
    ref = [c for c in calcs if out["units"][c]["force_constants_unit"] == ["str", "eV/angstrom^2"]]
    if not ref:
        raise TypeError("no calculator with eV/angstrom^2 force constants")
    for ustr in cand:
        if ustr.count("/") != 1 or ustr.endswith("/angstrom") or ustr.endswith("/au"):
            continue  # force units
        try:
            v = mod.get_force_constant_conversion_factor(ustr, ref[0])
        except (KeyError, NotImplementedError):
            continue
        out["table"].append([ustr, enc(v)])
    json.dump(out, sys.stdout)


if __name__ == "__main__":
    main()
