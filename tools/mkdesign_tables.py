#!/usr/bin/env python3
"""Regenerate the generated tables of DESIGN.md (between <!-- GEN:x --> … <!-- /GEN:x --> markers)
from evidence/*.json, manifest.d/*.json, seeded/*/meta.json and known_findings.json."""
import glob, json, os, re
H = os.path.dirname(os.path.dirname(os.path.abspath(__file__)))
def esc(s): return str(s).replace("|", "\\|").replace("\n", " ")
def short(s, n): 
    s = esc(s); return s if len(s) <= n else s[:n-1] + "…"
props = {json.loads(l)["id"]: json.loads(l) for l in open(os.path.join(H, "properties.jsonl"))}
# per-property table
rows = ["| id | title | theorems audited | quick: evaluations / non-trivial / wall | Lean files (model · lemmas) |", "|---|---|---|---|---|"]
for pid in sorted(props):
    ev = os.path.join(H, "evidence", pid + ".json")
    if not os.path.exists(ev): continue
    e = json.load(open(ev)); c = e["coverage"]
    src = open(os.path.join(H, "lean", "PhononModel", "Props", pid + ".lean")).read()
    closure, todo = set(), [os.path.join(H, "lean", "PhononModel", "Props", pid + ".lean")]
    while todo:
        f = todo.pop()
        if f in closure or not os.path.exists(f): continue
        closure.add(f)
        for m in re.findall(r"^import\s+(PhononModel\.\S+)", open(f).read(), re.M):
            todo.append(os.path.join(H, "lean", *m.split(".")) + ".lean")
    nm = sum(1 for f in closure if "/Model/" in f or "/Gen/" in f); nl = sum(1 for f in closure if "/Lemmas/" in f)
    lines = sum(len(open(f).read().split("\n")) for f in closure)
    rows.append("| %s | %s | %d/%d | %d / %d / %.0f s (%s, seed %d) | %d · %d (%d lines incl. Props) |" % (
        pid, esc(props[pid]["title"]), c.get("discharged", 0), c.get("obligations", 0), c.get("evaluations", 0),
        c.get("distinct_nontrivial", 0), e.get("wall_s", 0), e["tier"], e["seed"], nm, nl, lines))
tab_props = "\n".join(rows)
# theorem names
th = []
for pid in sorted(props):
    ev = os.path.join(H, "evidence", pid + ".json")
    if not os.path.exists(ev): continue
    names = sorted(json.load(open(ev))["coverage"].get("theorems", {}))
    th.append("* **%s** (%d): %s" % (pid, len(names), ", ".join("`%s`" % n.split(".")[-1] for n in names)))
tab_th = "\n".join(th)
# seeded
rows = ["| seeded change | property | what it changes (needs) | result when stored | re-run on /repo HEAD (tools/seed_regress.py) |", "|---|---|---|---|---|"]
for d in sorted(glob.glob(os.path.join(H, "seeded", "*"))):
    m = json.load(open(os.path.join(d, "meta.json")))
    res = m.get("verified_by_coordinator", {})
    note = res.get("check_result") or res.get("check") or ""
    rg = ""
    rp = os.path.join(d, "regress.json")
    if os.path.exists(rp):
        r = json.load(open(rp))
        bits = ["HEAD %s" % r.get("head", "?")]
        if not r.get("applies_to_head", True):
            bits.append("patch no longer applies")
        if "pinned_tests_pass_with_change" in r:
            bits.append("81 pinned tests %s with the change" % ("pass" if r["pinned_tests_pass_with_change"] else "DO NOT pass"))
        for k, v in (r.get("checks") or {}).items():
            bits.append("%s: %s" % (k, ("violation, failing input" if v["rc"] == 1 and not v["no_failing_input_found"] else "violation, no-failing-input-found" if v["rc"] == 1 else "NOT reported (rc %d)" % v["rc"])))
        rg = "; ".join(bits)
    if m.get("neutralised"):
        rg = "NEUTRALISED: " + m["neutralised"]
    rows.append("| %s | %s | %s — needs: %s | %s | %s |" % (os.path.basename(d), m.get("property", "")[:3] if isinstance(m.get("property"), str) else os.path.basename(d)[:3],
                short(m.get("summary", ""), 260), short(m.get("what_it_needs_to_manifest", ""), 200), short(note, 330), esc(rg)))
tab_seed = "\n".join(rows)
# harmless refactorings
rows_h = ["| refactoring | property | what was refactored | equivalence program / pinned tests | check on the refactored tree (seeds 0, 1) |", "|---|---|---|---|---|"]
for d in sorted(glob.glob(os.path.join(H, "harmless", "*"))):
    if not os.path.exists(os.path.join(d, "meta.json")): continue
    m = json.load(open(os.path.join(d, "meta.json")))
    r = json.load(open(os.path.join(d, "result.json"))) if os.path.exists(os.path.join(d, "result.json")) else {}
    eq = r.get("equiv", {})
    a = "equiv.py /repo <patched>: %s" % ("all public results agree (exit 0)" if eq.get("rc") == 0 else "exit %s" % eq.get("rc", "not run"))
    if "pinned_tests_pass_with_change" in r:
        a += "; 81 pinned tests %s" % ("pass" if r["pinned_tests_pass_with_change"] else "DO NOT pass")
    b = "; ".join("%s: %s%s" % (k, v["outcome"], (" (" + v["no_longer_checks"][0][:160] + ")") if v.get("no_longer_checks") and v["outcome"] != "OK" else "") for k, v in (r.get("checks") or {}).items())
    if m.get("coordinator_note"): b += " — " + m["coordinator_note"]
    rows_h.append("| %s | %s | %s | %s | %s |" % (os.path.basename(d), m.get("property", ""), short(m.get("summary", ""), 300), esc(a), esc(b)))
tab_harm = "\n".join(rows_h)
kf = json.load(open(os.path.join(H, "known_findings.json")))
tab_fixed = "\n".join("* " + esc(x) for x in kf["fixed"])
tab_kf = "\n".join("* **%s** (%s; site `%s`, class `%s`): %s" % (f["id"], f["property"], f["match"]["site"], f["match"]["class"], esc(f["what"])) for f in kf["findings"])
p = os.path.join(H, "DESIGN.md"); s = open(p).read()
for key, val in (("props", tab_props), ("theorems", tab_th), ("seeded", tab_seed), ("fixed", tab_fixed), ("known", tab_kf), ("harmless", tab_harm)):
    a, b = "<!-- GEN:%s -->" % key, "<!-- /GEN:%s -->" % key
    if a in s:
        s = s[:s.index(a) + len(a)] + "\n" + val + "\n" + s[s.index(b):]
open(p, "w").write(s)
print("DESIGN.md tables regenerated: %d properties, %d seeded, %d fixed, %d known" % (len(th), len(rows) - 2, len(kf["fixed"]), len(kf["findings"])))
