#!/usr/bin/env python3
"""tools/try_matrix.py <outdir> <jobs> "patch.diff:Cxx[,Cyy...]" ... : run tools/try_seed.sh for each (patch, check) pair.
Pairs of the same check run one after another (translators regenerate Gen files), different checks in parallel.
Prints one summary line per pair: CAUGHT (failing input on both seeds) / NFIF / PARTIAL / MISSED / ERROR."""
import concurrent.futures as cf, os, subprocess, sys

out, jobs = sys.argv[1], int(sys.argv[2])
os.makedirs(out, exist_ok=True)
by = {}
for a in sys.argv[3:]:
    p, cs = a.rsplit(":", 1)
    for c in cs.split(","):
        by.setdefault(c, []).append(p)


def tag(p):
    d = os.path.basename(os.path.dirname(p))
    return d[:-4] if d.endswith("-out") else d


def run(c):
    res = []
    for p in by[c]:
        f = os.path.join(out, "%s-%s.txt" % (tag(p), c))
        with open(f, "w") as fh:
            subprocess.run(["/verif/tools/try_seed.sh", p, c, "0", "1"], stdout=fh, stderr=subprocess.STDOUT, cwd="/verif")
        t = open(f).read()
        nv = t.count("VIOLATION property")
        nf = t.count("no-failing-input-found")
        nok = t.count("OK property")
        fi = [l for l in t.splitlines() if l.startswith("failing input")]
        if nv == 2 and nf == 0:
            v = "CAUGHT"
        elif nv == 2:
            v = "NFIF" if nf == 2 else "CAUGHT(1 nfif)"
        elif nv == 1:
            v = "PARTIAL"
        elif nok == 2:
            v = "MISSED"
        else:
            v = "ERROR"
        res.append("%-8s %s %-14s %s" % (tag(p), c, v, (fi[0][:200] if fi else "")))
    return res


with cf.ThreadPoolExecutor(jobs) as ex:
    for r in ex.map(run, sorted(by)):
        for l in r:
            print(l, flush=True)
