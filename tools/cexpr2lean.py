#!/usr/bin/env python3
"""T-cexpr (thermal part): c/phonopy.c + phonopy/units.py  ->  lean/PhononModel/Gen/ThermalC.lean

Translates the three straight-line C functions

    static double get_free_energy / get_entropy / get_heat_capacity
        (const double temperature, const double f, const int classical)

into Lean definitions that are polymorphic in the scalar type.  libm functions
and the macro ``KB`` become fields of ``PhononModel.ThermalEnv`` (hand-written,
Model/ThermalEnv.lean), so the *same* definition is instantiated with
``Real.exp`` … in the proofs, with ``Float.exp`` … in the driver and with the
special-values model (Model/IEEE.lean) for the finiteness clause.

Accepted C subset (anything else raises ``Unsupported`` -> the check reports
the proof step as broken):

    static double NAME(const double a, ..., const int c) {
        double v1, v2;                      (locals, all double)
        if (intparam) { stmts } else { stmts }      |   stmts
    }
    stmt  ::=  v = expr;  |  return expr;
    expr  ::=  + - * / unary-  ( )  integer and decimal literals,
               parameters, locals, the macro KB, calls of exp log sinh cosh expm1
    every arithmetic node must have at least one double operand (no integer arithmetic).

It also copies the numeric constants that the thermal-property and QHA code take
from phonopy/units.py (kb_J, EV, Avogadro, PlanckConstant and the derived Kb,
THzToEv, EvTokJmol, EVAngstromToGPa) as exact rationals and as `Float`
expressions evaluated in the same order as Python does.

Output: Gen/ThermalUnits.lean (units.py constants; `--only units` writes just this, used by C20) and
Gen/ThermalC.lean (the C functions and the KB literal).

Usage: cexpr2lean.py [--repo /repo] [--outdir DIR] [--only all|units]
"""
import argparse
import ast
import os
import re
import sys
from fractions import Fraction

HERE = os.path.dirname(os.path.dirname(os.path.abspath(__file__)))
FUNCS = ["get_free_energy", "get_entropy", "get_heat_capacity"]
LIBM = {"exp", "log", "sinh", "cosh", "expm1"}
MACROS = {"KB"}
UNIT_NAMES = ["kb_J", "PlanckConstant", "Avogadro", "EV", "THzToEv", "Kb", "EvTokJmol", "EVAngstromToGPa"]


class Unsupported(Exception):
    pass


# ----------------------------------------------------------------------------- C side

TOKEN = re.compile(r"\s*(?:(\d+\.\d*(?:[eE][-+]?\d+)?|\.\d+(?:[eE][-+]?\d+)?|\d+[eE][-+]?\d+)|(\d+)|([A-Za-z_]\w*)|(.))", re.S)


def strip_comments(src):
    src = re.sub(r"/\*.*?\*/", " ", src, flags=re.S)
    return re.sub(r"//[^\n]*", " ", src)


def tokenize(s):
    out = []
    pos = 0
    s = s.rstrip()
    while pos < len(s):
        m = TOKEN.match(s, pos)
        if not m:
            raise Unsupported("cannot tokenize at %r" % s[pos:pos + 20])
        pos = m.end()
        if m.group(1):
            out.append(("float", m.group(1)))
        elif m.group(2):
            out.append(("int", m.group(2)))
        elif m.group(3):
            out.append(("id", m.group(3)))
        elif m.group(4) and not m.group(4).isspace():
            out.append(("op", m.group(4)))
    return out


class Parser:
    """Recursive descent for one function body; produces a small tree with types."""

    def __init__(self, toks, params, locals_):
        self.t = toks
        self.i = 0
        self.params = params  # name -> 'double' | 'int'
        self.locals = locals_  # set of names
        self.ints = set()  # integer literals used in double context

    def peek(self):
        return self.t[self.i] if self.i < len(self.t) else (None, None)

    def eat(self, kind=None, val=None):
        k, v = self.peek()
        if (kind and k != kind) or (val is not None and v != val):
            raise Unsupported("expected %s %s, found %s %r" % (kind, val, k, v))
        self.i += 1
        return v

    # ---- statements
    def block(self, assigned):
        """stmts until '}' or end; returns list of ('let', name, expr) ending in ('ret', expr) or an ('if', ...)"""
        stmts = []
        assigned = set(assigned)
        while True:
            k, v = self.peek()
            if k is None or (k == "op" and v == "}"):
                break
            if k == "id" and v == "return":
                self.eat()
                e = self.expr(assigned)
                self.eat("op", ";")
                stmts.append(("ret", e))
                k2, v2 = self.peek()
                if not (k2 is None or (k2 == "op" and v2 == "}")):
                    raise Unsupported("statement after return")
                return stmts
            if k == "id" and v == "if":
                self.eat()
                self.eat("op", "(")
                c = self.eat("id")
                if self.params.get(c) != "int":
                    raise Unsupported("condition must be an int parameter, found %r" % c)
                self.eat("op", ")")
                self.eat("op", "{")
                a = self.block(assigned)
                self.eat("op", "}")
                self.eat("id", "else")
                self.eat("op", "{")
                b = self.block(assigned)
                self.eat("op", "}")
                for br in (a, b):
                    if not br or br[-1][0] not in ("ret", "if"):
                        raise Unsupported("if/else branch does not end in return")
                stmts.append(("if", c, a, b))
                k2, v2 = self.peek()
                if not (k2 is None or (k2 == "op" and v2 == "}")):
                    raise Unsupported("statement after if/else that returns in both branches")
                return stmts
            if k == "id" and v in self.locals:
                self.eat()
                self.eat("op", "=")
                e = self.expr(assigned)
                self.eat("op", ";")
                if v in assigned:
                    raise Unsupported("local %r assigned twice (subset is single assignment)" % v)
                assigned.add(v)
                stmts.append(("let", v, e))
                continue
            raise Unsupported("statement starting with %s %r" % (k, v))
        raise Unsupported("control reaches end of function without return")

    # ---- expressions: returns (leanstring, type)
    def expr(self, assigned):
        e = self.term(assigned)
        while self.peek() in (("op", "+"), ("op", "-")):
            op = self.eat()
            r = self.term(assigned)
            e = self.bin(op, e, r)
        return e

    def term(self, assigned):
        e = self.unary(assigned)
        while self.peek() in (("op", "*"), ("op", "/")):
            op = self.eat()
            r = self.unary(assigned)
            e = self.bin(op, e, r)
        return e

    def bin(self, op, a, b):
        if a[1] == "int" and b[1] == "int":
            raise Unsupported("integer arithmetic %s %s %s" % (a[0], op, b[0]))
        return ("(%s %s %s)" % (self.dbl(a), op, self.dbl(b)), "double")

    def dbl(self, a):
        if a[1] == "int":
            # an integer literal promoted to double
            self.ints.add(int(a[0]))
            return "(%s : α)" % a[0]
        return a[0]

    def unary(self, assigned):
        if self.peek() == ("op", "-"):
            self.eat()
            a = self.unary(assigned)
            return ("(-%s)" % self.dbl(a), "double")
        if self.peek() == ("op", "+"):
            self.eat()
            return self.unary(assigned)
        return self.atom(assigned)

    def atom(self, assigned):
        k, v = self.peek()
        if k == "int":
            self.eat()
            return (v, "int")
        if k == "float":
            raise Unsupported("decimal literal %s (only integer literals and the macro KB occur in the subset)" % v)
        if k == "op" and v == "(":
            self.eat()
            e = self.expr(assigned)
            self.eat("op", ")")
            return e
        if k == "id":
            self.eat()
            if self.peek() == ("op", "("):
                if v not in LIBM:
                    raise Unsupported("call of %r (allowed: %s)" % (v, sorted(LIBM)))
                self.eat()
                a = self.expr(assigned)
                self.eat("op", ")")
                return ("(E.%s %s)" % (v, self.dbl(a)), "double")
            if v in MACROS:
                return ("E.%s" % v, "double")
            if v in self.params:
                if self.params[v] != "double":
                    raise Unsupported("int parameter %r used in arithmetic" % v)
                return (v, "double")
            if v in self.locals:
                if v not in assigned:
                    raise Unsupported("local %r read before assignment" % v)
                return (v, "double")
            raise Unsupported("unknown identifier %r" % v)
        raise Unsupported("unexpected token %s %r" % (k, v))


def find_function(src, name):
    m = re.search(r"static\s+double\s+%s\s*\(([^)]*)\)\s*\{" % re.escape(name), src)
    if not m:
        raise Unsupported("definition of %s not found" % name)
    i = m.end()
    depth = 1
    while depth:
        if i >= len(src):
            raise Unsupported("unbalanced braces in %s" % name)
        if src[i] == "{":
            depth += 1
        elif src[i] == "}":
            depth -= 1
        i += 1
    return m.group(1), src[m.end():i - 1]


def emit_block(stmts, ind):
    out = []
    pad = "  " * ind
    for s in stmts:
        if s[0] == "let":
            out.append("%slet %s : α := %s" % (pad, s[1], s[2][0] if s[2][1] == "double" else "(%s : α)" % s[2][0]))
        elif s[0] == "ret":
            out.append("%s%s" % (pad, s[1][0] if s[1][1] == "double" else "(%s : α)" % s[1][0]))
        elif s[0] == "if":
            out.append("%sif %s ≠ 0 then" % (pad, s[1]))
            out += emit_block(s[2], ind + 1)
            out.append("%selse" % pad)
            out += emit_block(s[3], ind + 1)
    return out


def rename_locals(stmts):
    """alpha-rename the single-assignment locals to v1, v2, … in order of assignment (per branch), so that renamed C locals give the
    same Lean text"""
    def sub(text, ren):
        return re.sub(r"\b[A-Za-z_]\w*\b", lambda m: ren.get(m.group(0), m.group(0)) if not text[max(0, m.start() - 2):m.start()].endswith("E.") else m.group(0), text)

    def go(stmts, ren):
        ren = dict(ren)
        out = []
        for st in stmts:
            if st[0] == "let":
                e = (sub(st[2][0], ren), st[2][1])
                ren[st[1]] = "v%d" % (len(ren) + 1)
                out.append(("let", ren[st[1]], e))
            elif st[0] == "ret":
                out.append(("ret", (sub(st[1][0], ren), st[1][1])))
            elif st[0] == "if":
                out.append(("if", st[1], go(st[2], ren), go(st[3], ren)))
        return out
    return go(stmts, {})


def translate_function(src, name, lean_name=None):
    params_s, body = find_function(src, name)
    params = {}
    order = []
    for p in params_s.split(","):
        m = re.fullmatch(r"\s*const\s+(double|int)\s+([A-Za-z_]\w*)\s*", p)
        if not m:
            raise Unsupported("%s: parameter %r" % (name, p.strip()))
        params[m.group(2)] = m.group(1)
        order.append(m.group(2))
    locals_ = set()
    # leading declarations `double a, b;`
    while True:
        m = re.match(r"\s*double\s+([^;=]*);", body)
        if not m:
            break
        for v in m.group(1).split(","):
            v = v.strip()
            if not re.fullmatch(r"[A-Za-z_]\w*", v):
                raise Unsupported("%s: declaration %r" % (name, v))
            locals_.add(v)
        body = body[m.end():]
    ps = Parser(tokenize(body), params, locals_)
    stmts = ps.block(set())
    stmts = rename_locals(stmts)
    if ps.peek() != (None, None):
        raise Unsupported("%s: trailing tokens" % name)
    sig = " ".join("(%s : %s)" % (p, "α" if params[p] == "double" else "Int") for p in order)
    lines = ["def %s (E : ThermalEnv α) %s : α :=" % (lean_name or name, sig)] + emit_block(stmts, 1)
    return "\n".join(lines), ps.ints


# ----------------------------------------------------------------------------- C procedures with loops

PROC = "phpy_get_thermal_properties"
TOKEN2 = re.compile(r"\s*(?:(\d+\.\d*(?:[eE][-+]?\d+)?|\.\d+(?:[eE][-+]?\d+)?|\d+[eE][-+]?\d+)|(\d+)|([A-Za-z_]\w*)|(\+\+|\+=|&&|<=|>=|==|!=|.))", re.S)


def tokenize2(s):
    out, pos = [], 0
    s = s.rstrip()
    while pos < len(s):
        m = TOKEN2.match(s, pos)
        if not m:
            raise Unsupported("cannot tokenize at %r" % s[pos:pos + 20])
        pos = m.end()
        if m.group(1):
            out.append(("float", m.group(1)))
        elif m.group(2):
            out.append(("int", m.group(2)))
        elif m.group(3):
            out.append(("id", m.group(3)))
        elif m.group(4) and not m.group(4).isspace():
            out.append(("op", m.group(4)))
    return out


def find_procedure(src, name):
    m = re.search(r"\bvoid\s+%s\s*\(([^)]*)\)\s*\{" % re.escape(name), src)
    if not m:
        raise Unsupported("definition of %s not found" % name)
    i, depth = m.end(), 1
    while depth:
        if i >= len(src):
            raise Unsupported("unbalanced braces in %s" % name)
        depth += {"{": 1, "}": -1}.get(src[i], 0)
        i += 1
    return m.group(1), src[m.end():i - 1]


class ProcParser:
    """Loop subset:

        void NAME(double *out, const double *a, const int64_t *w, const int64_t n, const double c, const int flag) {
            int64_t i, j, k;  double f;  double *tp;
            tp = (double *)malloc(sizeof(double) * <int expr>);      (contents indeterminate: a parameter of the Lean term)
            for (v = 0; v < <int expr>; v++) { stmts }
            if (<double> > <double> && ...) { stmts }                (no else)
            scalar = <double expr>;   arr[<int expr>] = <double expr>;   arr[<int expr>] += <double expr>;
            free(tp); tp = NULL;                                     (ignored)
        }
        #ifdef _OPENMP / #pragma omp … / #endif are dropped: the term has the sequential semantics
        (thread-independence is C13's obligation).

    int64 loop counters / sizes are `Nat`; an `int64_t` array read inside double arithmetic is the
    promoted double (`weights : Nat → α`).  The state of the mutable objects (output array, malloc'd
    arrays, scalar locals) is a generated structure; every `for` becomes `CLoop.forN`, every loop a
    separate definition `<NAME>_for<k>` (numbered in source order) so that proofs can address them.
    """

    def __init__(self, name, params_s, body, known_funcs):
        self.name = name
        self.known = known_funcs  # name -> list of param kinds
        self.params = []  # (name, kind) kind in outarr, arr, iarr, nat, double, int
        for p in params_s.split(","):
            p = " ".join(p.split())
            m = re.fullmatch(r"(const )?(double|int64_t|int) ?(\*)? ?([A-Za-z_]\w*)", p)
            if not m:
                raise Unsupported("%s: parameter %r" % (name, p))
            const, ty, ptr, nm = m.groups()
            if ptr:
                if ty == "double":
                    kind = "arr" if const else "outarr"
                elif ty == "int64_t" and const:
                    kind = "iarr"
                else:
                    raise Unsupported("%s: parameter %r" % (name, p))
            else:
                if not const:
                    raise Unsupported("%s: non-const scalar parameter %r" % (name, p))
                kind = {"double": "double", "int64_t": "nat", "int": "int"}[ty]
            self.params.append((nm, kind))
        self.kind = dict(self.params)
        self.loopvars_decl = set()
        self.scalars = []  # double locals (state fields)
        self.larrs = []  # malloc'd double arrays (state fields)
        self.ints = set()
        self.loops = []  # emitted loop definitions (text)
        self.counter = 0
        body = self.preprocess(body)
        self.t = tokenize2(body)
        self.i = 0

    # ---- declarations, malloc/free, preprocessor
    def preprocess(self, body):
        lines = []
        for ln in body.split("\n"):
            st = ln.strip()
            if st.startswith("#"):
                if not re.fullmatch(r"#ifdef _OPENMP|#endif|#pragma omp parallel for( private\([\w, ]*\))?", st):
                    raise Unsupported("%s: preprocessor line %r" % (self.name, st))
                continue
            lines.append(ln)
        body = "\n".join(lines)

        def decl(m):
            ty, names = m.group(1), m.group(2)
            for v in names.split(","):
                v = v.strip()
                if ty == "double" and re.fullmatch(r"\*\s*[A-Za-z_]\w*", v):
                    self.larrs.append(v.lstrip("* "))
                elif ty == "double" and re.fullmatch(r"[A-Za-z_]\w*", v):
                    self.scalars.append(v)
                elif ty == "int64_t" and re.fullmatch(r"[A-Za-z_]\w*", v):
                    self.loopvars_decl.add(v)
                else:
                    raise Unsupported("%s: declaration %r %r" % (self.name, ty, v))
            return " "

        while True:
            m = re.match(r"\s*(double|int64_t)\s+([^;=()]*);", body)
            if not m:
                break
            decl(m)
            body = body[m.end():]
        self.malloc = {}
        for a in self.larrs:
            m = re.search(r"\b%s\s*=\s*\(double\s*\*\)\s*malloc\(sizeof\(double\)\s*\*([^;]*)\);" % a, body)
            if not m:
                raise Unsupported("%s: local array %s is not malloc'd in the recognised form" % (self.name, a))
            self.malloc[a] = " ".join(m.group(1).split())
            body = body[:m.start()] + body[m.end():]
            body, n1 = re.subn(r"\bfree\(%s\);" % a, " ", body)
            body, n2 = re.subn(r"\b%s\s*=\s*NULL;" % a, " ", body)
            if n1 != 1:
                raise Unsupported("%s: %s is not freed exactly once" % (self.name, a))
        return body

    def peek(self, k=0):
        return self.t[self.i + k] if self.i + k < len(self.t) else (None, None)

    def eat(self, kind=None, val=None):
        k, v = self.peek()
        if (kind and k != kind) or (val is not None and v != val):
            raise Unsupported("%s: expected %s %s, found %s %r" % (self.name, kind, val, k, v))
        self.i += 1
        return v

    # ---- integer (index / bound) expressions over loop variables, nat parameters, literals
    def iexpr(self, env):
        e = self.iterm(env)
        while self.peek() == ("op", "+"):
            self.eat()
            e = "(%s + %s)" % (e, self.iterm(env))
        return e

    def iterm(self, env):
        e = self.iatom(env)
        while self.peek() == ("op", "*"):
            self.eat()
            e = "(%s * %s)" % (e, self.iatom(env))
        return e

    def iatom(self, env):
        k, v = self.peek()
        if k == "int":
            self.eat()
            return v
        if k == "op" and v == "(":
            self.eat()
            e = self.iexpr(env)
            self.eat("op", ")")
            return e
        if k == "id" and (v in env or self.kind.get(v) == "nat"):
            self.eat()
            return v
        raise Unsupported("%s: integer expression: unexpected %s %r" % (self.name, k, v))

    # ---- double expressions
    def dexpr(self, env):
        e = self.dterm(env)
        while self.peek() in (("op", "+"), ("op", "-")):
            op = self.eat()
            e = "(%s %s %s)" % (e, op, self.dterm(env))
        return e

    def dterm(self, env):
        e = self.dunary(env)
        while self.peek() in (("op", "*"), ("op", "/")):
            op = self.eat()
            e = "(%s %s %s)" % (e, op, self.dunary(env))
        return e

    def dunary(self, env):
        if self.peek() == ("op", "-"):
            self.eat()
            return "(-%s)" % self.dunary(env)
        return self.datom(env)

    def datom(self, env):
        k, v = self.peek()
        if k == "int":
            self.eat()
            self.ints.add(int(v))
            return "(%s : α)" % v
        if k == "op" and v == "(":
            self.eat()
            e = self.dexpr(env)
            self.eat("op", ")")
            return e
        if k != "id":
            raise Unsupported("%s: double expression: unexpected %s %r" % (self.name, k, v))
        self.eat()
        if self.peek() == ("op", "["):
            self.eat()
            ix = self.iexpr(env)
            self.eat("op", "]")
            kd = self.kind.get(v)
            if kd in ("arr", "iarr"):
                return "(%s %s)" % (v, ix)
            if kd == "outarr" or v in self.larrs:
                return "(s.%s %s)" % (v, ix)
            raise Unsupported("%s: %r is not an array" % (self.name, v))
        if self.peek() == ("op", "("):
            if v not in self.known:
                raise Unsupported("%s: call of %r" % (self.name, v))
            self.eat()
            args = []
            for n, pk in enumerate(self.known[v]):
                if n:
                    self.eat("op", ",")
                if pk == "double":
                    args.append(self.dexpr(env))
                else:
                    a = self.eat("id")
                    if self.kind.get(a) != "int":
                        raise Unsupported("%s: int argument %r of %s" % (self.name, a, v))
                    args.append(a)
            self.eat("op", ")")
            return "(%s E %s)" % (v, " ".join(args))
        if v in self.scalars:
            return "s.%s" % v
        if self.kind.get(v) == "double":
            return v
        raise Unsupported("%s: unknown identifier %r in double expression" % (self.name, v))

    def cond(self, env):
        cs = [self.cmp(env)]
        while self.peek() == ("op", "&&"):
            self.eat()
            cs.append(self.cmp(env))
        return " ∧ ".join(cs)

    def cmp(self, env):
        a = self.dexpr(env)
        k, op = self.peek()
        if (k, op) not in (("op", ">"), ("op", "<")):
            raise Unsupported("%s: comparison operator %r" % (self.name, op))
        self.eat()
        b = self.dexpr(env)
        return "%s < %s" % ((b, a) if op == ">" else (a, b))

    # ---- statements: returns list of Lean lines transforming `s`
    def stmts(self, env, ind):
        out = []
        pad = "  " * ind
        while True:
            k, v = self.peek()
            if k is None or (k, v) == ("op", "}"):
                return out
            if (k, v) == ("id", "for"):
                self.eat()
                self.eat("op", "(")
                var = self.eat("id")
                if var not in self.loopvars_decl or var in env:
                    raise Unsupported("%s: loop variable %r" % (self.name, var))
                self.eat("op", "=")
                self.eat("int", "0")
                self.eat("op", ";")
                self.eat("id", var)
                self.eat("op", "<")
                bound = self.iexpr(env)
                self.eat("op", ";")
                self.eat("id", var)
                self.eat("op", "++")
                self.eat("op", ")")
                self.eat("op", "{")
                self.counter += 1
                nm = "%s_for%d" % (self.name, self.counter)
                slot = len(self.loops)
                self.loops.append(None)
                body = self.stmts(env + [var], 2)
                self.eat("op", "}")
                sig = "".join(" (%s : Nat)" % e for e in env)
                self.loops[slot] = ("def %s (E : ThermalEnv α)%s%s (s : %s_St α) : %s_St α :=\n  CLoop.forN %s (fun %s s =>\n%s\n    s) s"
                                    % (nm, self.psig, sig, self.name, self.name, bound, var, "\n".join(body)))
                out.append("%slet s := %s E%s%s s" % (pad, nm, self.pargs, "".join(" " + e for e in env)))
                continue
            if (k, v) == ("id", "if"):
                self.eat()
                self.eat("op", "(")
                c = self.cond(env)
                self.eat("op", ")")
                self.eat("op", "{")
                body = self.stmts(env, ind + 1)
                self.eat("op", "}")
                if self.peek() == ("id", "else"):
                    raise Unsupported("%s: else branch" % self.name)
                out.append("%slet s := if %s then" % (pad, c))
                out += body
                out.append("%s  s" % pad)
                out.append("%selse s" % pad)
                continue
            if k == "id":
                name = self.eat()
                ix = None
                if self.peek() == ("op", "["):
                    self.eat()
                    ix = self.iexpr(env)
                    self.eat("op", "]")
                    if not (self.kind.get(name) == "outarr" or name in self.larrs):
                        raise Unsupported("%s: assignment to %r[...]" % (self.name, name))
                elif name not in self.scalars:
                    raise Unsupported("%s: assignment to %r" % (self.name, name))
                k2, op = self.peek()
                if (k2, op) not in (("op", "="), ("op", "+=")):
                    raise Unsupported("%s: statement %r %r" % (self.name, name, op))
                self.eat()
                e = self.dexpr(env)
                self.eat("op", ";")
                if ix is None:
                    if op == "+=":
                        e = "(s.%s + %s)" % (name, e)
                    out.append("%slet s := { s with %s := %s }" % (pad, name, e))
                else:
                    if op == "+=":
                        e = "((s.%s %s) + %s)" % (name, ix, e)
                    out.append("%slet s := { s with %s := CLoop.upd s.%s %s %s }" % (pad, name, name, ix, e))
                continue
            raise Unsupported("%s: statement starting with %s %r" % (self.name, k, v))

    def translate(self):
        kinds = {"outarr": "Nat → α", "arr": "Nat → α", "iarr": "Nat → α", "nat": "Nat", "double": "α", "int": "Int"}
        self.psig = "".join(" (%s : %s)" % (n, kinds[k]) for n, k in self.params if k != "outarr")
        self.pargs = "".join(" " + n for n, k in self.params if k != "outarr")
        outs = [n for n, k in self.params if k == "outarr"]
        if len(outs) != 1:
            raise Unsupported("%s: exactly one output array expected" % self.name)
        top = self.stmts([], 1)
        if self.peek() != (None, None):
            raise Unsupported("%s: trailing tokens %r" % (self.name, self.peek()))
        fields = ["  %s : Nat → α" % outs[0]] + ["  %s : Nat → α" % a for a in self.larrs] + ["  %s : α" % f for f in self.scalars]
        L = ["structure %s_St (α : Type) where" % self.name] + fields + [""]
        return L, top, outs[0]


def translate_procedure(src, name, known):
    params_s, body = find_procedure(src, name)
    pp = ProcParser(name, params_s, body, known)
    struct, top, out = pp.translate()
    return pp, struct, top, out


# ----------------------------------------------------------------------------- canonical procedure translation (AST based)
#
# The loop nest is translated through an abstract syntax tree that is NORMALISED before it is printed, so that
# behaviour-preserving rewrites of the C text give the same Lean term:
#   * static functions are found through the call graph from the public entry point (the mode function whose value is added
#     to slot 0 / 1 / 2 of the output block is printed as get_free_energy / get_entropy / get_heat_capacity whatever its C name);
#   * `static void` helpers are inlined at their call sites (pointer arguments `base + offset`, array-typed parameters `double a[3]`,
#     scalar arguments incl. an int64 value read from an integer array, casts);
#   * const / pointer / scalar locals that are assigned a pure expression are substituted (`f = freqs[...]`, `t = temperatures[j]`,
#     `fsc = tp_q + 3*j`, `const int64_t block = 3*num_temp`); scalar locals never enter the state record;
#   * `if (!(c)) continue;` guards the rest of the loop body; an `if` whose body is a single `for` not binding a variable of the
#     condition is pushed into the loop; nested `if`s are merged into one conjunction (in source order);
#   * integer index expressions are printed in a polynomial normal form (loop variables outermost first, then size parameters
#     in signature order, numeric coefficient last; higher-degree terms first, constant last);
#   * loop variables are renamed by nesting depth (i, j, k, l3, …), malloc'd arrays by order of allocation (buf0, buf1, …);
#   * `#pragma omp parallel for` with any private/shared/schedule/default clauses (also over continuation lines) is dropped
#     (sequential semantics), malloc'd contents are a parameter.
# Anything outside the subset raises Unsupported (proof step broken).  NOT made canonical (these change the printed term and thus
# lead to `no-failing-input-found` even if behaviour is preserved): a different summation order or blocking of the q-point loop,
# loop fusion/fission, an `if` around several statements one of which is a loop, accumulation into scalar locals.

LOOPVARS = ["i", "j", "k"]


def loopvar(depth):
    return LOOPVARS[depth] if depth < len(LOOPVARS) else "l%d" % depth


class Poly:
    def __init__(self, d=None):
        self.d = {k: v for k, v in (d or {}).items() if v != 0}

    @staticmethod
    def const(n):
        return Poly({(): n})

    @staticmethod
    def var(v):
        return Poly({(v,): 1})

    def __add__(self, o):
        d = dict(self.d)
        for k, v in o.d.items():
            d[k] = d.get(k, 0) + v
        return Poly(d)

    def __mul__(self, o):
        d = {}
        for k1, v1 in self.d.items():
            for k2, v2 in o.d.items():
                k = tuple(sorted(k1 + k2))
                d[k] = d.get(k, 0) + v1 * v2
        return Poly(d)

    def const_term(self):
        return self.d.get((), 0)

    def vars(self):
        return {v for k in self.d for v in k}

    def show(self, order):
        """order: list of variable names, outermost loop variable first, then size parameters"""
        rank = {v: n for n, v in enumerate(order)}
        terms = []
        for k, c in self.d.items():
            if c < 0:
                raise Unsupported("negative coefficient in an index expression")
            ks = sorted(k, key=lambda v: rank[v])
            terms.append((-len(ks), [rank[v] for v in ks], ks, c))
        terms.sort(key=lambda t: (t[0], t[1]))
        out = []
        for _, _, ks, c in terms:
            fac = list(ks) + ([str(c)] if (c != 1 or not ks) else [])
            out.append(" * ".join(fac))
        return " + ".join(out) if out else "0"


class CanonProc:
    def __init__(self, src, name):
        self.src = src
        self.name = name
        self.calls = []  # static double functions called, in order of first call
        self.fsig = {}
        self.ints = set()
        self.bufs = []  # canonical names of malloc'd arrays
        self.bufsize = {}
        self.slot = {}  # C function name -> set of constant index offsets its value is added at
        params_s, body = find_procedure(src, name)
        self.params = self.parse_params(name, params_s, public=True)
        self.natorder = [n for n, k in self.params if k == "nat"]
        outs = [n for n, k in self.params if k == "outarr"]
        if len(outs) != 1:
            raise Unsupported("%s: exactly one output array expected" % name)
        self.out = outs[0]
        env = dict(ints={}, ptrs={}, dbl={}, flags={}, decl_scalar=set(), decl_ptr=set(), decl_int=set(), loopdecl=set())
        for n, k in self.params:
            if k == "nat":
                env["ints"][n] = Poly.var(n)
            elif k == "outarr":
                env["ptrs"][n] = ("out:" + n, Poly())
            elif k == "arr":
                env["ptrs"][n] = ("arr:" + n, Poly())
            elif k == "iarr":
                env["ptrs"][n] = ("iarr:" + n, Poly())
            elif k == "double":
                env["dbl"][n] = ("var", n)
            elif k == "int":
                env["flags"][n] = n
        self.depth_names = []
        stmts = self.parse_body(name, body, env, 0)
        self.ast = self.norm_block(stmts)

    # ---------------- signatures
    def parse_params(self, fname, params_s, public=False):
        out = []
        for p in params_s.split(","):
            p = " ".join(p.split())
            m = re.fullmatch(r"(const )?(double|int64_t|int) ?(\*)? ?([A-Za-z_]\w*) ?(\[ ?\d* ?\])?", p)
            if not m or (m.group(3) and m.group(5)):
                raise Unsupported("%s: parameter %r" % (fname, p))
            const, ty, ptr, nm, arr = m.groups()
            ptr = ptr or arr  # `double tp[3]` is `double *tp`
            if ptr:
                if ty == "double":
                    kind = "arr" if const else "outarr"
                elif ty == "int64_t" and const:
                    kind = "iarr"
                else:
                    raise Unsupported("%s: parameter %r" % (fname, p))
            else:
                if not const:
                    raise Unsupported("%s: non-const scalar parameter %r" % (fname, p))
                kind = {"double": "double", "int64_t": "nat", "int": "int"}[ty]
            out.append((nm, kind))
        return out

    def static_def(self, fname, ret):
        m = re.search(r"static\s+%s\s+%s\s*\(([^)]*)\)\s*\{" % (ret, re.escape(fname)), self.src)
        if not m:
            return None
        i, depth = m.end(), 1
        while depth:
            if i >= len(self.src):
                raise Unsupported("unbalanced braces in %s" % fname)
            depth += {"{": 1, "}": -1}.get(self.src[i], 0)
            i += 1
        return m.group(1), self.src[m.end():i - 1]

    # ---------------- token helpers
    def peek(self, k=0):
        return self.t[self.i + k] if self.i + k < len(self.t) else (None, None)

    def eat(self, kind=None, val=None):
        k, v = self.peek()
        if (kind and k != kind) or (val is not None and v != val):
            raise Unsupported("%s: expected %s %s, found %s %r" % (self.cur, kind, val, k, v))
        self.i += 1
        return v

    def parse_body(self, fname, body, env, depth):
        lines = []
        body = re.sub(r"\\\s*\n", " ", body)  # preprocessor line continuations
        for ln in body.split("\n"):
            st = " ".join(ln.split())
            if st.startswith("#"):
                # the pragma only distributes the outer loop over threads (clauses: private / schedule / default / shared lists); the
                # term has the sequential semantics whatever they say — thread-independence is C13's obligation
                if not re.fullmatch(r"#ifdef _OPENMP|#endif|#pragma omp parallel for( ?(private|shared|firstprivate) ?\([\w, ]*\)| ?schedule ?\( ?(static|dynamic|guided|auto|runtime)( ?, ?\d+)? ?\)| ?default ?\( ?(shared|none) ?\))*", st):
                    raise Unsupported("%s: preprocessor line %r" % (fname, st))
                continue
            lines.append(ln)
        saved = (getattr(self, "t", None), getattr(self, "i", None), getattr(self, "cur", None))
        self.t, self.i, self.cur = tokenize2("\n".join(lines)), 0, fname
        stmts = self.block(env, depth)
        if self.peek() != (None, None):
            raise Unsupported("%s: trailing tokens %r" % (fname, self.peek()))
        self.t, self.i, self.cur = saved
        return stmts

    # ---------------- integer / pointer / double expressions
    def iexpr(self, env):
        e = self.iterm(env)
        while self.peek() == ("op", "+"):
            self.eat()
            e = e + self.iterm(env)
        return e

    def iterm(self, env):
        e = self.iatom(env)
        while self.peek() == ("op", "*"):
            self.eat()
            e = e * self.iatom(env)
        return e

    def iatom(self, env):
        k, v = self.peek()
        if k == "int":
            self.eat()
            return Poly.const(int(v))
        if (k, v) == ("op", "("):
            self.eat()
            e = self.iexpr(env)
            self.eat("op", ")")
            return e
        if k == "id" and v in env["ints"]:
            self.eat()
            return env["ints"][v]
        raise Unsupported("%s: integer expression: unexpected %s %r" % (self.cur, k, v))

    def pexpr(self, env):
        nm = self.eat("id")
        if nm not in env["ptrs"]:
            raise Unsupported("%s: %r is not a known array / pointer" % (self.cur, nm))
        root, off = env["ptrs"][nm]
        if self.peek() == ("op", "+"):
            self.eat()
            off = off + self.iexpr(env)
        return (root, off)

    def dexpr(self, env):
        e = self.dterm(env)
        while self.peek() in (("op", "+"), ("op", "-")):
            op = self.eat()
            e = ("bin", op, e, self.dterm(env))
        return e

    def dterm(self, env):
        e = self.dunary(env)
        while self.peek() in (("op", "*"), ("op", "/")):
            op = self.eat()
            e = ("bin", op, e, self.dunary(env))
        return e

    def dunary(self, env):
        if self.peek() == ("op", "-"):
            self.eat()
            return ("neg", self.dunary(env))
        return self.datom(env)

    def datom(self, env):
        k, v = self.peek()
        if k == "int":
            self.eat()
            self.ints.add(int(v))
            return ("num", int(v))
        if (k, v) == ("op", "("):
            if self.peek(1) == ("id", "double") and self.peek(2) == ("op", ")"):
                self.eat(); self.eat(); self.eat()  # (double) cast: the promoted value
                return self.dunary(env)
            self.eat()
            e = self.dexpr(env)
            self.eat("op", ")")
            return e
        if k != "id":
            raise Unsupported("%s: double expression: unexpected %s %r" % (self.cur, k, v))
        if v in env["ptrs"] and self.peek(1) == ("op", "["):
            self.eat()
            self.eat()
            ix = self.iexpr(env)
            self.eat("op", "]")
            root, off = env["ptrs"][v]
            return ("idx", root, off + ix)
        if self.peek(1) == ("op", "("):
            self.eat()
            d = self.static_def(v, "double")
            if d is None:
                raise Unsupported("%s: call of %r (not a static double function of this file)" % (self.cur, v))
            if v not in self.fsig:
                self.fsig[v] = [kd for _, kd in self.parse_params(v, d[0])]
                self.calls.append(v)
            self.eat()
            args = []
            for n, pk in enumerate(self.fsig[v]):
                if n:
                    self.eat("op", ",")
                if pk == "double":
                    args.append(self.dexpr(env))
                elif pk == "int":
                    a = self.eat("id")
                    if a not in env["flags"]:
                        raise Unsupported("%s: int argument %r of %s" % (self.cur, a, v))
                    args.append(("flag", env["flags"][a]))
                else:
                    raise Unsupported("%s: parameter kind %s of %s" % (self.cur, pk, v))
            self.eat("op", ")")
            return ("call", v, args)
        if v in env["dbl"]:
            self.eat()
            return env["dbl"][v]
        if v in env["decl_scalar"]:
            raise Unsupported("%s: scalar local %r read before assignment in this block" % (self.cur, v))
        raise Unsupported("%s: unknown identifier %r in double expression" % (self.cur, v))

    def cmp(self, env):
        a = self.dexpr(env)
        k, op = self.peek()
        if (k, op) not in (("op", ">"), ("op", "<")):
            raise Unsupported("%s: comparison operator %r" % (self.cur, op))
        self.eat()
        b = self.dexpr(env)
        return ("lt", b, a) if op == ">" else ("lt", a, b)

    def cond(self, env):
        cs = [self.cmp(env)]
        while self.peek() == ("op", "&&"):
            self.eat()
            cs.append(self.cmp(env))
        return cs

    @staticmethod
    def reads_mutable(e):
        if e[0] == "idx":
            return e[1].startswith(("out:", "loc:"))
        if e[0] == "bin":
            return CanonProc.reads_mutable(e[2]) or CanonProc.reads_mutable(e[3])
        if e[0] == "neg":
            return CanonProc.reads_mutable(e[1])
        if e[0] == "call":
            return any(a[0] != "flag" and CanonProc.reads_mutable(a) for a in e[2])
        return False

    # ---------------- statements
    def block(self, env, depth):
        env = dict(env, ints=dict(env["ints"]), ptrs=dict(env["ptrs"]), dbl=dict(env["dbl"]), decl_scalar=set(env["decl_scalar"]),
                   decl_ptr=set(env["decl_ptr"]), decl_int=set(env["decl_int"]), loopdecl=set(env["loopdecl"]))
        out = []
        while True:
            k, v = self.peek()
            if k is None or (k, v) == ("op", "}"):
                return self.apply_guards(out)
            # ---- declarations
            if k == "id" and v in ("const", "int64_t", "double"):
                const = False
                if v == "const":
                    self.eat()
                    const = True
                ty = self.eat("id")
                if ty not in ("int64_t", "double"):
                    raise Unsupported("%s: declaration of type %r" % (self.cur, ty))
                while True:
                    ptr = False
                    if self.peek() == ("op", "*"):
                        self.eat()
                        ptr = True
                    nm = self.eat("id")
                    if self.peek() == ("op", "="):
                        self.eat()
                        if ty == "int64_t" and not ptr:
                            env["ints"][nm] = self.iexpr(env)
                        elif ty == "double" and ptr:
                            env["ptrs"][nm] = self.pexpr(env)
                        elif ty == "double":
                            e = self.dexpr(env)
                            if self.reads_mutable(e):
                                raise Unsupported("%s: scalar %r initialised from a mutable array" % (self.cur, nm))
                            env["dbl"][nm] = e
                        else:
                            raise Unsupported("%s: initialised declaration of %r" % (self.cur, nm))
                    else:
                        if const:
                            raise Unsupported("%s: const %r without initialiser" % (self.cur, nm))
                        if ty == "int64_t" and not ptr:
                            env["loopdecl"].add(nm)
                        elif ty == "double" and ptr:
                            env["decl_ptr"].add(nm)
                        elif ty == "double":
                            env["decl_scalar"].add(nm)
                        else:
                            raise Unsupported("%s: declaration of %r" % (self.cur, nm))
                    if self.peek() == ("op", ","):
                        self.eat()
                        continue
                    self.eat("op", ";")
                    break
                continue
            if (k, v) == ("id", "for"):
                self.eat()
                self.eat("op", "(")
                var = self.eat("id")
                if var not in env["loopdecl"]:
                    raise Unsupported("%s: loop variable %r is not a declared int64_t local" % (self.cur, var))
                self.eat("op", "=")
                self.eat("int", "0")
                self.eat("op", ";")
                self.eat("id", var)
                self.eat("op", "<")
                bound = self.iexpr(env)
                self.eat("op", ";")
                self.eat("id", var)
                self.eat("op", "++")
                self.eat("op", ")")
                self.eat("op", "{")
                cv = loopvar(depth)
                inner = dict(env, ints=dict(env["ints"]))
                inner["ints"][var] = Poly.var(cv)
                body = self.block(inner, depth + 1)
                self.eat("op", "}")
                out.append(("for", cv, bound, body))
                continue
            if (k, v) == ("id", "if"):
                self.eat()
                self.eat("op", "(")
                if self.peek() == ("op", "!"):
                    self.eat()
                    self.eat("op", "(")
                    c = self.cond(env)
                    self.eat("op", ")")
                    self.eat("op", ")")
                    self.eat("op", "{")
                    self.eat("id", "continue")
                    self.eat("op", ";")
                    self.eat("op", "}")
                    if len(c) != 1:
                        raise Unsupported("%s: negated conjunction before continue" % self.cur)
                    out.append(("guard", c))
                    continue
                c = self.cond(env)
                self.eat("op", ")")
                self.eat("op", "{")
                body = self.block(env, depth)
                self.eat("op", "}")
                if self.peek() == ("id", "else"):
                    raise Unsupported("%s: else branch" % self.cur)
                out.append(("if", c, body))
                continue
            if k == "id" and v == "free":
                self.eat(); self.eat("op", "("); self.eat("id"); self.eat("op", ")"); self.eat("op", ";")
                continue
            if k == "id":
                name = self.eat()
                # helper call
                if self.peek() == ("op", "("):
                    d = self.static_def(name, "void")
                    if d is None:
                        raise Unsupported("%s: call of %r (not a static void helper of this file)" % (self.cur, name))
                    hp = self.parse_params(name, d[0])
                    self.eat()
                    henv = dict(ints={}, ptrs={}, dbl={}, flags={}, decl_scalar=set(), decl_ptr=set(), decl_int=set(), loopdecl=set())
                    for n, (pn, pk) in enumerate(hp):
                        if n:
                            self.eat("op", ",")
                        if pk in ("outarr", "arr", "iarr"):
                            root, off = self.pexpr(env)
                            if pk == "outarr" and not root.startswith(("out:", "loc:")):
                                raise Unsupported("%s: %s passes a read-only array as output" % (self.cur, name))
                            henv["ptrs"][pn] = (root, off)
                        elif pk == "nat":
                            k3, v3 = self.peek()
                            if k3 == "id" and v3 in env["ptrs"] and self.peek(1) == ("op", "[") and env["ptrs"][v3][0].startswith("iarr:"):
                                # an int64 VALUE read from an integer array (e.g. the weight of the q-point): used in double arithmetic
                                henv["dbl"][pn] = self.dexpr(env)
                            else:
                                henv["ints"][pn] = self.iexpr(env)
                        elif pk == "double":
                            e = self.dexpr(env)
                            if self.reads_mutable(e):
                                raise Unsupported("%s: scalar argument of %s reads a mutable array" % (self.cur, name))
                            henv["dbl"][pn] = e
                        else:
                            a = self.eat("id")
                            if a not in env["flags"]:
                                raise Unsupported("%s: int argument %r of %s" % (self.cur, a, name))
                            henv["flags"][pn] = env["flags"][a]
                    self.eat("op", ")")
                    self.eat("op", ";")
                    out += self.parse_body(name, d[1], henv, depth)
                    continue
                ix = None
                if self.peek() == ("op", "["):
                    if name not in env["ptrs"]:
                        raise Unsupported("%s: assignment to %r[...]" % (self.cur, name))
                    self.eat()
                    ix = self.iexpr(env)
                    self.eat("op", "]")
                k2, op = self.peek()
                if (k2, op) not in (("op", "="), ("op", "+=")):
                    raise Unsupported("%s: statement %r %r" % (self.cur, name, op))
                self.eat()
                if ix is None and name in env["decl_ptr"] | set(b for b in ()):  # pointer local (or malloc)
                    if op != "=":
                        raise Unsupported("%s: pointer arithmetic assignment to %r" % (self.cur, name))
                    if self.peek() == ("id", "NULL"):
                        self.eat(); self.eat("op", ";")
                        continue
                    if self.peek() == ("op", "(") and self.peek(1) == ("id", "double") and self.peek(2) == ("op", "*"):
                        for tk in (("op", "("), ("id", "double"), ("op", "*"), ("op", ")"), ("id", "malloc"), ("op", "("), ("id", "sizeof"), ("op", "("),
                                   ("id", "double"), ("op", ")"), ("op", "*")):
                            self.eat(*tk)
                        size = self.iexpr(env)
                        self.eat("op", ")")
                        self.eat("op", ";")
                        cn = "buf%d" % len(self.bufs)
                        self.bufs.append(cn)
                        self.bufsize[cn] = size
                        env["ptrs"][name] = ("loc:" + cn, Poly())
                        continue
                    env["ptrs"][name] = self.pexpr(env)
                    self.eat("op", ";")
                    continue
                if ix is None:
                    if name not in env["decl_scalar"]:
                        raise Unsupported("%s: assignment to %r" % (self.cur, name))
                    if op != "=":
                        raise Unsupported("%s: accumulation into the scalar local %r" % (self.cur, name))
                    e = self.dexpr(env)
                    self.eat("op", ";")
                    if self.reads_mutable(e):
                        raise Unsupported("%s: scalar %r assigned from a mutable array" % (self.cur, name))
                    env["dbl"][name] = e
                    continue
                root, off = env["ptrs"][name]
                if not root.startswith(("out:", "loc:")):
                    raise Unsupported("%s: assignment to the read-only array %r" % (self.cur, name))
                e = self.dexpr(env)
                self.eat("op", ";")
                idx = off + ix
                if op == "+=":
                    e = ("bin", "+", ("idx", root, idx), e)
                    self.note_slot(e, idx)
                out.append(("assign", root, idx, e))
                continue
            raise Unsupported("%s: statement starting with %s %r" % (self.cur, k, v))

    def note_slot(self, e, idx):
        def calls(x, acc):
            if x[0] == "call":
                acc.append(x[1])
                for a in x[2]:
                    if a[0] != "flag":
                        calls(a, acc)
            elif x[0] == "bin":
                calls(x[2], acc); calls(x[3], acc)
            elif x[0] == "neg":
                calls(x[1], acc)
            return acc
        cs = calls(e, [])
        if len(cs) == 1:
            self.slot.setdefault(cs[0], set()).add(idx.const_term())

    @staticmethod
    def apply_guards(stmts):
        for n, st in enumerate(stmts):
            if st[0] == "guard":
                rest = CanonProc.apply_guards(stmts[n + 1:])
                return stmts[:n] + ([("if", st[1], rest)] if rest else [])
        return stmts

    # ---------------- normalisation
    def mentions(self, conds, var):
        def m(e):
            if e[0] == "idx":
                return var in e[2].vars()
            if e[0] == "bin":
                return m(e[2]) or m(e[3])
            if e[0] == "neg":
                return m(e[1])
            if e[0] == "call":
                return any(a[0] != "flag" and m(a) for a in e[2])
            return False
        return any(m(c[1]) or m(c[2]) for c in conds)

    def norm_block(self, stmts):
        out = []
        for st in stmts:
            if st[0] == "for":
                out.append(("for", st[1], st[2], self.norm_block(st[3])))
            elif st[0] == "if":
                out += self.norm_if(st[1], self.norm_block(st[2]))
            else:
                out.append(st)
        return out

    def norm_if(self, conds, body):
        if len(body) == 1 and body[0][0] == "for" and not self.mentions(conds, body[0][1]):
            f = body[0]
            return [("for", f[1], f[2], self.norm_if(conds, f[3]))]
        if len(body) == 1 and body[0][0] == "if":
            return self.norm_if(conds + body[0][1], body[0][2])
        return [("if", conds, body)]

    # ---------------- printing
    def order(self):
        return [loopvar(d) for d in range(12)] + self.natorder

    def fname(self, cname):
        return self.rename.get(cname, cname)

    def pe(self, e):
        if e[0] == "num":
            return "(%d : α)" % e[1]
        if e[0] == "var":
            return e[1]
        if e[0] == "idx":
            root = e[1]
            ix = e[2].show(self.order())
            kind, nm = root.split(":", 1)
            return "(%s %s)" % (nm if kind in ("arr", "iarr") else "s." + nm, ix if re.fullmatch(r"\w+", ix) else "(" + ix + ")")
        if e[0] == "bin":
            return "(%s %s %s)" % (self.pe(e[2]), e[1], self.pe(e[3]))
        if e[0] == "neg":
            return "(-%s)" % self.pe(e[1])
        if e[0] == "call":
            return "(%s E %s)" % (self.fname(e[1]), " ".join(a[1] if a[0] == "flag" else self.pe(a) for a in e[2]))
        raise Unsupported("cannot print %r" % (e,))

    def pc(self, conds):
        return " ∧ ".join("%s < %s" % (self.pe(c[1]), self.pe(c[2])) for c in conds)

    def emit(self):
        # canonical names of the mode functions: by the slot their value is added to
        self.rename = {}
        if len(self.calls) == len(FUNCS) and all(len(self.slot.get(c, ())) == 1 for c in self.calls) and \
                sorted(next(iter(self.slot[c])) for c in self.calls) == list(range(len(FUNCS))):
            for c in self.calls:
                self.rename[c] = FUNCS[next(iter(self.slot[c]))]
        elif set(self.calls) != set(FUNCS):
            raise Unsupported("%s: cannot identify the three mode functions (called: %s; slots: %s)" % (self.name, self.calls, self.slot))
        kinds = {"outarr": "Nat → α", "arr": "Nat → α", "iarr": "Nat → α", "nat": "Nat", "double": "α", "int": "Int"}
        self.psig = "".join(" (%s : %s)" % (n, kinds[k]) for n, k in self.params if k != "outarr")
        self.pargs = "".join(" " + n for n, k in self.params if k != "outarr")
        self.loops = []
        self.counter = 0
        top = self.emit_block(self.ast, [], 1)
        struct = ["structure %s_St (α : Type) where" % self.name, "  %s : Nat → α" % self.out] + ["  %s : Nat → α" % b for b in self.bufs] + [""]
        return struct, top

    def emit_block(self, stmts, encl, ind):
        out = []
        pad = "  " * ind
        for st in stmts:
            if st[0] == "for":
                self.counter += 1
                nm = "%s_for%d" % (self.name, self.counter)
                slot = len(self.loops)
                self.loops.append(None)
                body = self.emit_block(st[3], encl + [st[1]], 2)
                sig = "".join(" (%s : Nat)" % e for e in encl)
                self.loops[slot] = ("def %s (E : ThermalEnv α)%s%s (s : %s_St α) : %s_St α :=\n  CLoop.forN (%s) (fun %s s =>\n%s\n    s) s"
                                    % (nm, self.psig, sig, self.name, self.name, st[2].show(self.order()), st[1], "\n".join(body)))
                out.append("%slet s := %s E%s%s s" % (pad, nm, self.pargs, "".join(" " + e for e in encl)))
            elif st[0] == "if":
                out.append("%slet s := if %s then" % (pad, self.pc(st[1])))
                out += self.emit_block(st[2], encl, ind + 1)
                out.append("%s  s" % pad)
                out.append("%selse s" % pad)
            elif st[0] == "assign":
                kind, nm = st[1].split(":", 1)
                out.append("%slet s := { s with %s := CLoop.upd s.%s (%s) %s }" % (pad, nm, nm, st[2].show(self.order()), self.pe(st[3])))
            else:
                raise Unsupported("cannot print statement %r" % (st[0],))
        return out


def kb_literal(src):
    m = re.search(r"^#define\s+KB\s+(\S+)\s*$", src, re.M)
    if not m:
        raise Unsupported("#define KB not found")
    lit = m.group(1)
    if not re.fullmatch(r"\d+\.\d+[eE][-+]?\d+", lit):
        raise Unsupported("KB literal %r is not a plain decimal" % lit)
    return lit


# ----------------------------------------------------------------------------- units.py

def rat_of_literal(text):
    return Fraction(text)


def lean_rat(fr):
    return "(%d : Rat)" % fr.numerator if fr.denominator == 1 else "((%d : Rat) / %d)" % (fr.numerator, fr.denominator)


def units_defs(path):
    src = open(path).read()
    tree = ast.parse(src)
    seg = {}
    for node in tree.body:
        if isinstance(node, ast.Assign) and len(node.targets) == 1 and isinstance(node.targets[0], ast.Name):
            seg[node.targets[0].id] = node.value
    out_rat, out_flt = [], []
    done = set()

    def lit(node):
        t = ast.get_source_segment(src, node)
        if not re.fullmatch(r"[0-9.]+(?:[eE][-+]?\d+)?", t):
            raise Unsupported("units.py: literal %r" % t)
        return t

    def conv(node, flt):
        if isinstance(node, ast.Constant) and isinstance(node.value, (int, float)) and not isinstance(node.value, bool):
            t = lit(node)
            if flt:
                # Lean's decimal Float literals are correctly rounded for these sizes; checked per run by the harness
                return "(%s : Float)" % (t if re.search(r"[.eE]", t) else t + ".0")
            return lean_rat(rat_of_literal(t))
        if isinstance(node, ast.Name):
            need(node.id)
            return node.id + ("_f" if flt else "_q")
        if isinstance(node, ast.BinOp) and isinstance(node.op, (ast.Mult, ast.Div)):
            return "(%s %s %s)" % (conv(node.left, flt), "*" if isinstance(node.op, ast.Mult) else "/", conv(node.right, flt))
        raise Unsupported("units.py: expression %s" % ast.dump(node)[:80])

    def need(name):
        if name in done:
            return
        if name not in seg:
            raise Unsupported("units.py: %s not defined" % name)
        done.add(name)
        r = conv(seg[name], False)
        f = conv(seg[name], True)
        out_rat.append("def %s_q : Rat := %s" % (name, r))
        out_flt.append("def %s_f : Float := %s" % (name, f))

    for n in UNIT_NAMES:
        need(n)
    return out_rat, out_flt


# ----------------------------------------------------------------------------- main

def generate_units(repo):
    ur, uf = units_defs(os.path.join(repo, "phonopy", "units.py"))
    L = []
    L.append("/-!")
    L.append("GENERATED by tools/cexpr2lean.py from phonopy/units.py — do not edit; regenerated by every")
    L.append("`./check C10` / `./check C20` run.  Exact decimal values (`_q`) and the binary64 evaluation in")
    L.append("Python's order of operations (`_f`) of the constants the thermal-property and QHA code use.")
    L.append("-/")
    L.append("namespace PhononModel.ThermalC")
    L.append("")
    L += ur
    L += uf
    L.append("")
    L.append("end PhononModel.ThermalC")
    return "\n".join(L) + "\n"


def generate(repo):
    csrc = strip_comments(open(os.path.join(repo, "c", "phonopy.c")).read())
    lit = kb_literal(csrc)
    cp = CanonProc(csrc, PROC)
    struct, top = cp.emit()
    cname = {v: k for k, v in cp.rename.items()} if cp.rename else {f: f for f in FUNCS}
    fdefs, ints = [], set()
    for f in FUNCS:
        d, i = translate_function(csrc, cname[f], lean_name=f)
        fdefs.append(d)
        ints |= i
    classes = "[Add α] [Sub α] [Mul α] [Div α] [Neg α]" + "".join(" [OfNat α %d]" % n for n in sorted(ints))
    pclasses = "[LT α] [∀ a b : α, Decidable (a < b)]" + "".join(" [OfNat α %d]" % n for n in sorted(cp.ints - ints))
    L = []
    L.append("import PhononModel.Model.ThermalEnv")
    L.append("import PhononModel.Model.CLoop")
    L.append("import PhononModel.Gen.ThermalUnits")
    L.append("/-!")
    L.append("GENERATED by tools/cexpr2lean.py from c/phonopy.c — do not edit; regenerated by every `./check C10` run.")
    L.append("Entry point `%s`; the static mode functions are found through its call graph and named by the output" % PROC)
    L.append("slot their value is added to (0: get_free_energy, 1: get_entropy, 2: get_heat_capacity; C names here: %s)." % ", ".join(cname[f] for f in FUNCS))
    L.append("libm calls and the macro KB are fields of `ThermalEnv`; loops are `CLoop.forN` over a state record; the loop nest is")
    L.append("printed in the normal form described in tools/cexpr2lean.py (helpers inlined, pure locals substituted, guards merged,")
    L.append("index polynomials sorted, loop variables i j k by depth, malloc'd arrays buf0 …).")
    L.append("-/")
    L.append("set_option linter.unusedVariables false")
    L.append("namespace PhononModel.ThermalC")
    L.append("")
    L.append("section")
    L.append("variable {α : Type} %s" % classes)
    L.append("")
    for d in fdefs:
        L.append(d)
        L.append("")
    L.append("/-! `%s`: mutable objects of the procedure (output array, malloc'd arrays) -/" % PROC)
    L += struct
    L.append("variable %s" % pclasses)
    L.append("")
    for d in reversed(cp.loops):
        L.append(d)
        L.append("")
    uninit = "".join(" (%s_uninit : Nat → α)" % a for a in cp.bufs)
    L.append("/-- the procedure: value of `%s[]` on return (sequential semantics; `malloc`ed arrays start with the" % cp.out)
    L.append("arbitrary contents `*_uninit`; sizes: %s) -/" % ", ".join("%s[%s]" % (a, cp.bufsize[a].show(cp.order())) for a in cp.bufs))
    L.append("def %s (E : ThermalEnv α) (%s : Nat → α)%s%s : Nat → α :=" % (PROC, cp.out, cp.psig, uninit))
    L.append("  let s : %s_St α := { %s }" % (PROC, ", ".join(["%s := %s" % (cp.out, cp.out)] + ["%s := %s_uninit" % (a, a) for a in cp.bufs])))
    L += top
    L.append("  s.%s" % cp.out)
    L.append("")
    L.append("end")
    L.append("")
    L.append("/-- `#define KB %s` -/" % lit)
    L.append("def KB_q : Rat := %s" % lean_rat(rat_of_literal(lit)))
    L.append("def KB_f : Float := (%s : Float)" % lit)
    L.append("")
    L.append("end PhononModel.ThermalC")
    return "\n".join(L) + "\n"


def write_if_changed(path, text):
    try:
        if open(path).read() == text:
            return False
    except OSError:
        pass
    os.makedirs(os.path.dirname(path), exist_ok=True)
    tmp = path + ".tmp%d" % os.getpid()
    with open(tmp, "w") as f:
        f.write(text)
    os.replace(tmp, path)
    return True


def main():
    ap = argparse.ArgumentParser()
    ap.add_argument("--repo", default=os.environ.get("VERIF_REPO", "/repo"))
    ap.add_argument("--outdir", default=os.path.join(HERE, "lean", "PhononModel", "Gen"))
    ap.add_argument("--only", default="all", choices=["all", "units"])
    a = ap.parse_args()
    try:
        texts = [("ThermalUnits.lean", generate_units(a.repo))]
        if a.only == "all":
            texts.append(("ThermalC.lean", generate(a.repo)))
    except Unsupported as e:
        print("cexpr2lean: source left the translatable subset: %s" % e, file=sys.stderr)
        sys.exit(3)
    for name, text in texts:
        out = os.path.join(a.outdir, name)
        ch = write_if_changed(out, text)
        print("%s %s" % (out, "written" if ch else "unchanged"))


if __name__ == "__main__":
    main()
