#!/usr/bin/env python3
"""T-cexpr (thermal part): c/phonopy.c + phonopy/units.py  ->  lean/PhononModel/Gen/ThermalC.lean

Translates the three straight-line C functions

    static double get_free_energy / get_entropy / get_heat_capacity
        (const double temperature, const double f, const int classical)

into Lean definitions that are polymorphic in the scalar type.  libm functions
and the macro ``KB`` become fields of ``PhononModel.ThermalEnv`` (hand-written,
Model/ThermalEnv.lean), so the *same* definition is instantiated with
``Real.exp`` … in the proofs, with ``Float.exp`` … in the driver and with the
special-values model (Model/IEEE.lean) for the finiteness clause.

Accepted C subset (anything else raises ``Unsupported`` -> the check reports
the proof step as broken):

    static double NAME(const double a, ..., const int c) {
        double v1, v2;                      (locals, all double)
        if (intparam) { stmts } else { stmts }      |   stmts
    }
    stmt  ::=  v = expr;  |  return expr;
    expr  ::=  + - * / unary-  ( )  integer and decimal literals,
               parameters, locals, the macro KB, calls of exp log sinh cosh expm1
    every arithmetic node must have at least one double operand (no integer arithmetic).

It also copies the numeric constants that the thermal-property and QHA code take
from phonopy/units.py (kb_J, EV, Avogadro, PlanckConstant and the derived Kb,
THzToEv, EvTokJmol, EVAngstromToGPa) as exact rationals and as `Float`
expressions evaluated in the same order as Python does.

Output: Gen/ThermalUnits.lean (units.py constants; `--only units` writes just this, used by C20) and
Gen/ThermalC.lean (the C functions and the KB literal).

Usage: cexpr2lean.py [--repo /repo] [--outdir DIR] [--only all|units]
"""
import argparse
import ast
import os
import re
import sys
from fractions import Fraction

HERE = os.path.dirname(os.path.dirname(os.path.abspath(__file__)))
FUNCS = ["get_free_energy", "get_entropy", "get_heat_capacity"]
LIBM = {"exp", "log", "sinh", "cosh", "expm1"}
MACROS = {"KB"}
UNIT_NAMES = ["kb_J", "PlanckConstant", "Avogadro", "EV", "THzToEv", "Kb", "EvTokJmol", "EVAngstromToGPa"]


class Unsupported(Exception):
    pass


# ----------------------------------------------------------------------------- C side

TOKEN = re.compile(r"\s*(?:(\d+\.\d*(?:[eE][-+]?\d+)?|\.\d+(?:[eE][-+]?\d+)?|\d+[eE][-+]?\d+)|(\d+)|([A-Za-z_]\w*)|(.))", re.S)


def strip_comments(src):
    src = re.sub(r"/\*.*?\*/", " ", src, flags=re.S)
    return re.sub(r"//[^\n]*", " ", src)


def tokenize(s):
    out = []
    pos = 0
    s = s.rstrip()
    while pos < len(s):
        m = TOKEN.match(s, pos)
        if not m:
            raise Unsupported("cannot tokenize at %r" % s[pos:pos + 20])
        pos = m.end()
        if m.group(1):
            out.append(("float", m.group(1)))
        elif m.group(2):
            out.append(("int", m.group(2)))
        elif m.group(3):
            out.append(("id", m.group(3)))
        elif m.group(4) and not m.group(4).isspace():
            out.append(("op", m.group(4)))
    return out


class Parser:
    """Recursive descent for one function body; produces a small tree with types."""

    def __init__(self, toks, params, locals_):
        self.t = toks
        self.i = 0
        self.params = params  # name -> 'double' | 'int'
        self.locals = locals_  # set of names
        self.ints = set()  # integer literals used in double context

    def peek(self):
        return self.t[self.i] if self.i < len(self.t) else (None, None)

    def eat(self, kind=None, val=None):
        k, v = self.peek()
        if (kind and k != kind) or (val is not None and v != val):
            raise Unsupported("expected %s %s, found %s %r" % (kind, val, k, v))
        self.i += 1
        return v

    # ---- statements
    def block(self, assigned):
        """stmts until '}' or end; returns list of ('let', name, expr) ending in ('ret', expr) or an ('if', ...)"""
        stmts = []
        assigned = set(assigned)
        while True:
            k, v = self.peek()
            if k is None or (k == "op" and v == "}"):
                break
            if k == "id" and v == "return":
                self.eat()
                e = self.expr(assigned)
                self.eat("op", ";")
                stmts.append(("ret", e))
                k2, v2 = self.peek()
                if not (k2 is None or (k2 == "op" and v2 == "}")):
                    raise Unsupported("statement after return")
                return stmts
            if k == "id" and v == "if":
                self.eat()
                self.eat("op", "(")
                c = self.eat("id")
                if self.params.get(c) != "int":
                    raise Unsupported("condition must be an int parameter, found %r" % c)
                self.eat("op", ")")
                self.eat("op", "{")
                a = self.block(assigned)
                self.eat("op", "}")
                self.eat("id", "else")
                self.eat("op", "{")
                b = self.block(assigned)
                self.eat("op", "}")
                for br in (a, b):
                    if not br or br[-1][0] not in ("ret", "if"):
                        raise Unsupported("if/else branch does not end in return")
                stmts.append(("if", c, a, b))
                k2, v2 = self.peek()
                if not (k2 is None or (k2 == "op" and v2 == "}")):
                    raise Unsupported("statement after if/else that returns in both branches")
                return stmts
            if k == "id" and v in self.locals:
                self.eat()
                self.eat("op", "=")
                e = self.expr(assigned)
                self.eat("op", ";")
                if v in assigned:
                    raise Unsupported("local %r assigned twice (subset is single assignment)" % v)
                assigned.add(v)
                stmts.append(("let", v, e))
                continue
            raise Unsupported("statement starting with %s %r" % (k, v))
        raise Unsupported("control reaches end of function without return")

    # ---- expressions: returns (leanstring, type)
    def expr(self, assigned):
        e = self.term(assigned)
        while self.peek() in (("op", "+"), ("op", "-")):
            op = self.eat()
            r = self.term(assigned)
            e = self.bin(op, e, r)
        return e

    def term(self, assigned):
        e = self.unary(assigned)
        while self.peek() in (("op", "*"), ("op", "/")):
            op = self.eat()
            r = self.unary(assigned)
            e = self.bin(op, e, r)
        return e

    def bin(self, op, a, b):
        if a[1] == "int" and b[1] == "int":
            raise Unsupported("integer arithmetic %s %s %s" % (a[0], op, b[0]))
        return ("(%s %s %s)" % (self.dbl(a), op, self.dbl(b)), "double")

    def dbl(self, a):
        if a[1] == "int":
            # an integer literal promoted to double
            self.ints.add(int(a[0]))
            return "(%s : α)" % a[0]
        return a[0]

    def unary(self, assigned):
        if self.peek() == ("op", "-"):
            self.eat()
            a = self.unary(assigned)
            return ("(-%s)" % self.dbl(a), "double")
        if self.peek() == ("op", "+"):
            self.eat()
            return self.unary(assigned)
        return self.atom(assigned)

    def atom(self, assigned):
        k, v = self.peek()
        if k == "int":
            self.eat()
            return (v, "int")
        if k == "float":
            raise Unsupported("decimal literal %s (only integer literals and the macro KB occur in the subset)" % v)
        if k == "op" and v == "(":
            self.eat()
            e = self.expr(assigned)
            self.eat("op", ")")
            return e
        if k == "id":
            self.eat()
            if self.peek() == ("op", "("):
                if v not in LIBM:
                    raise Unsupported("call of %r (allowed: %s)" % (v, sorted(LIBM)))
                self.eat()
                a = self.expr(assigned)
                self.eat("op", ")")
                return ("(E.%s %s)" % (v, self.dbl(a)), "double")
            if v in MACROS:
                return ("E.%s" % v, "double")
            if v in self.params:
                if self.params[v] != "double":
                    raise Unsupported("int parameter %r used in arithmetic" % v)
                return (v, "double")
            if v in self.locals:
                if v not in assigned:
                    raise Unsupported("local %r read before assignment" % v)
                return (v, "double")
            raise Unsupported("unknown identifier %r" % v)
        raise Unsupported("unexpected token %s %r" % (k, v))


def find_function(src, name):
    m = re.search(r"static\s+double\s+%s\s*\(([^)]*)\)\s*\{" % re.escape(name), src)
    if not m:
        raise Unsupported("definition of %s not found" % name)
    i = m.end()
    depth = 1
    while depth:
        if i >= len(src):
            raise Unsupported("unbalanced braces in %s" % name)
        if src[i] == "{":
            depth += 1
        elif src[i] == "}":
            depth -= 1
        i += 1
    return m.group(1), src[m.end():i - 1]


def emit_block(stmts, ind):
    out = []
    pad = "  " * ind
    for s in stmts:
        if s[0] == "let":
            out.append("%slet %s : α := %s" % (pad, s[1], s[2][0] if s[2][1] == "double" else "(%s : α)" % s[2][0]))
        elif s[0] == "ret":
            out.append("%s%s" % (pad, s[1][0] if s[1][1] == "double" else "(%s : α)" % s[1][0]))
        elif s[0] == "if":
            out.append("%sif %s ≠ 0 then" % (pad, s[1]))
            out += emit_block(s[2], ind + 1)
            out.append("%selse" % pad)
            out += emit_block(s[3], ind + 1)
    return out


def translate_function(src, name):
    params_s, body = find_function(src, name)
    params = {}
    order = []
    for p in params_s.split(","):
        m = re.fullmatch(r"\s*const\s+(double|int)\s+([A-Za-z_]\w*)\s*", p)
        if not m:
            raise Unsupported("%s: parameter %r" % (name, p.strip()))
        params[m.group(2)] = m.group(1)
        order.append(m.group(2))
    locals_ = set()
    # leading declarations `double a, b;`
    while True:
        m = re.match(r"\s*double\s+([^;=]*);", body)
        if not m:
            break
        for v in m.group(1).split(","):
            v = v.strip()
            if not re.fullmatch(r"[A-Za-z_]\w*", v):
                raise Unsupported("%s: declaration %r" % (name, v))
            locals_.add(v)
        body = body[m.end():]
    ps = Parser(tokenize(body), params, locals_)
    stmts = ps.block(set())
    if ps.peek() != (None, None):
        raise Unsupported("%s: trailing tokens" % name)
    sig = " ".join("(%s : %s)" % (p, "α" if params[p] == "double" else "Int") for p in order)
    lines = ["def %s (E : ThermalEnv α) %s : α :=" % (name, sig)] + emit_block(stmts, 1)
    return "\n".join(lines), ps.ints


def kb_literal(src):
    m = re.search(r"^#define\s+KB\s+(\S+)\s*$", src, re.M)
    if not m:
        raise Unsupported("#define KB not found")
    lit = m.group(1)
    if not re.fullmatch(r"\d+\.\d+[eE][-+]?\d+", lit):
        raise Unsupported("KB literal %r is not a plain decimal" % lit)
    return lit


# ----------------------------------------------------------------------------- units.py

def rat_of_literal(text):
    return Fraction(text)


def lean_rat(fr):
    return "(%d : Rat)" % fr.numerator if fr.denominator == 1 else "((%d : Rat) / %d)" % (fr.numerator, fr.denominator)


def units_defs(path):
    src = open(path).read()
    tree = ast.parse(src)
    seg = {}
    for node in tree.body:
        if isinstance(node, ast.Assign) and len(node.targets) == 1 and isinstance(node.targets[0], ast.Name):
            seg[node.targets[0].id] = node.value
    out_rat, out_flt = [], []
    done = set()

    def lit(node):
        t = ast.get_source_segment(src, node)
        if not re.fullmatch(r"[0-9.]+(?:[eE][-+]?\d+)?", t):
            raise Unsupported("units.py: literal %r" % t)
        return t

    def conv(node, flt):
        if isinstance(node, ast.Constant) and isinstance(node.value, (int, float)) and not isinstance(node.value, bool):
            t = lit(node)
            if flt:
                # Lean's decimal Float literals are correctly rounded for these sizes; checked per run by the harness
                return "(%s : Float)" % (t if re.search(r"[.eE]", t) else t + ".0")
            return lean_rat(rat_of_literal(t))
        if isinstance(node, ast.Name):
            need(node.id)
            return node.id + ("_f" if flt else "_q")
        if isinstance(node, ast.BinOp) and isinstance(node.op, (ast.Mult, ast.Div)):
            return "(%s %s %s)" % (conv(node.left, flt), "*" if isinstance(node.op, ast.Mult) else "/", conv(node.right, flt))
        raise Unsupported("units.py: expression %s" % ast.dump(node)[:80])

    def need(name):
        if name in done:
            return
        if name not in seg:
            raise Unsupported("units.py: %s not defined" % name)
        done.add(name)
        r = conv(seg[name], False)
        f = conv(seg[name], True)
        out_rat.append("def %s_q : Rat := %s" % (name, r))
        out_flt.append("def %s_f : Float := %s" % (name, f))

    for n in UNIT_NAMES:
        need(n)
    return out_rat, out_flt


# ----------------------------------------------------------------------------- main

def generate_units(repo):
    ur, uf = units_defs(os.path.join(repo, "phonopy", "units.py"))
    L = []
    L.append("/-!")
    L.append("GENERATED by tools/cexpr2lean.py from phonopy/units.py — do not edit; regenerated by every")
    L.append("`./check C10` / `./check C20` run.  Exact decimal values (`_q`) and the binary64 evaluation in")
    L.append("Python's order of operations (`_f`) of the constants the thermal-property and QHA code use.")
    L.append("-/")
    L.append("namespace PhononModel.ThermalC")
    L.append("")
    L += ur
    L += uf
    L.append("")
    L.append("end PhononModel.ThermalC")
    return "\n".join(L) + "\n"


def generate(repo):
    csrc = strip_comments(open(os.path.join(repo, "c", "phonopy.c")).read())
    lit = kb_literal(csrc)
    fdefs, ints = [], set()
    for f in FUNCS:
        d, i = translate_function(csrc, f)
        fdefs.append(d)
        ints |= i
    classes = "[Add α] [Sub α] [Mul α] [Div α] [Neg α]" + "".join(" [OfNat α %d]" % n for n in sorted(ints))
    L = []
    L.append("import PhononModel.Model.ThermalEnv")
    L.append("import PhononModel.Gen.ThermalUnits")
    L.append("/-!")
    L.append("GENERATED by tools/cexpr2lean.py from c/phonopy.c (get_free_energy, get_entropy,")
    L.append("get_heat_capacity, #define KB) — do not edit; regenerated by every `./check C10` run.")
    L.append("libm calls and the macro KB are fields of `ThermalEnv`.")
    L.append("-/")
    L.append("namespace PhononModel.ThermalC")
    L.append("")
    L.append("section")
    L.append("variable {α : Type} %s" % classes)
    L.append("")
    for d in fdefs:
        L.append(d)
        L.append("")
    L.append("end")
    L.append("")
    L.append("/-- `#define KB %s` -/" % lit)
    L.append("def KB_q : Rat := %s" % lean_rat(rat_of_literal(lit)))
    L.append("def KB_f : Float := (%s : Float)" % lit)
    L.append("")
    L.append("end PhononModel.ThermalC")
    return "\n".join(L) + "\n"


def write_if_changed(path, text):
    try:
        if open(path).read() == text:
            return False
    except OSError:
        pass
    os.makedirs(os.path.dirname(path), exist_ok=True)
    tmp = path + ".tmp%d" % os.getpid()
    with open(tmp, "w") as f:
        f.write(text)
    os.replace(tmp, path)
    return True


def main():
    ap = argparse.ArgumentParser()
    ap.add_argument("--repo", default=os.environ.get("VERIF_REPO", "/repo"))
    ap.add_argument("--outdir", default=os.path.join(HERE, "lean", "PhononModel", "Gen"))
    ap.add_argument("--only", default="all", choices=["all", "units"])
    a = ap.parse_args()
    try:
        texts = [("ThermalUnits.lean", generate_units(a.repo))]
        if a.only == "all":
            texts.append(("ThermalC.lean", generate(a.repo)))
    except Unsupported as e:
        print("cexpr2lean: source left the translatable subset: %s" % e, file=sys.stderr)
        sys.exit(3)
    for name, text in texts:
        out = os.path.join(a.outdir, name)
        ch = write_if_changed(out, text)
        print("%s %s" % (out, "written" if ch else "unchanged"))


if __name__ == "__main__":
    main()
