#!/usr/bin/env python3
"""killpat.py <substring>...: kill processes whose command line contains ALL substrings (never itself/ancestors)."""
import os, sys, signal
me = os.getpid(); anc = set()
p = me
while p > 1:
    anc.add(p)
    try: p = int(open('/proc/%d/stat' % p).read().split(')')[1].split()[1])
    except Exception: break
for d in os.listdir('/proc'):
    if not d.isdigit() or int(d) in anc: continue
    try: cmd = open('/proc/%s/cmdline' % d, 'rb').read().replace(b'\0', b' ').decode(errors='ignore')
    except Exception: continue
    if all(s in cmd for s in sys.argv[1:]) and 'killpat' not in cmd:
        print('kill', d, cmd[:100]); os.kill(int(d), signal.SIGTERM)
