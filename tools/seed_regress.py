#!/usr/bin/env python3
"""tools/seed_regress.py [--baseline] [--check] [--jobs N] [names...]

For every stored seeded change (seeded/<name>/): apply patch.diff to a scratch worktree of /repo's HEAD (under /tmp,
removed afterwards) and
  --baseline : run the pinned test suite on the patched tree (tools/baseline_check.py) - the change must still pass it;
  --check    : run the owning property's quick check (seeds 0 and 1, VERIF_REPO=<worktree>, evidence sent to a scratch
               directory) and record whether it reports a violation with a failing input.
Results go to seeded/<name>/regress.json.  Seeds of one property run one after another (translators regenerate
lean/PhononModel/Gen/* per run); different properties run in parallel.  Nothing is ever applied to /repo itself.
"""
import concurrent.futures as cf, json, os, subprocess, sys, time

V = "/verif"
args = sys.argv[1:]
do_base = "--baseline" in args
do_check = "--check" in args
jobs = 5
if "--jobs" in args:
    jobs = int(args[args.index("--jobs") + 1]); del args[args.index("--jobs"):args.index("--jobs") + 2]
names = [a for a in args if not a.startswith("--")] or sorted(os.listdir(V + "/seeded"))
names = [n for n in names if os.path.exists("%s/seeded/%s/patch.diff" % (V, n))]


def sh(cmd, **kw):
    return subprocess.run(cmd, capture_output=True, text=True, **kw)


def one(name):
    d = "%s/seeded/%s" % (V, name)
    meta = json.load(open(d + "/meta.json"))
    prop = meta.get("property") or name.split("-")[0]
    checks = meta.get("checks") or [prop]
    wt = "/tmp/wt-regress-%s-%d" % (name, os.getpid())
    res = {"head": sh(["git", "-C", "/repo", "rev-parse", "--short", "HEAD"]).stdout.strip(), "property": prop}
    pf = d + "/regress.json"
    if os.path.exists(pf):
        try:
            old = json.load(open(pf))
            if old.get("head") == res["head"]:
                res = old
        except Exception:
            pass
    if sh(["git", "-C", "/repo", "worktree", "add", "-q", wt, "HEAD"]).returncode:
        return name, {"error": "worktree"}
    try:
        ap = sh(["git", "apply", d + "/patch.diff"], cwd=wt)
        if ap.returncode:
            ap = sh(["git", "apply", "-3", d + "/patch.diff"], cwd=wt)
        res["applies_to_head"] = ap.returncode == 0
        if not res["applies_to_head"]:
            res["apply_error"] = ap.stderr[-300:]
        else:
            if do_base:
                b = sh(["python3", V + "/tools/baseline_check.py", wt])
                res["pinned_tests_pass_with_change"] = b.returncode == 0
                res["pinned_tests"] = b.stdout.strip().splitlines()[:4]
            if do_check:
                res["checks"] = {}
                for c in checks:
                    for seed in (0, 1):
                        env = dict(os.environ, VERIF_REPO=wt, VERIF_SEED=str(seed),
                                   VERIF_EVIDENCE_DIR="/tmp/seed-evidence")
                        t = time.time()
                        try:
                            r = sh([V + "/check", c], cwd=V, env=env, timeout=1800)
                            out = r.stdout + r.stderr; rc = r.returncode
                        except subprocess.TimeoutExpired:
                            out, rc = "", 124
                        vio = [ln for ln in out.splitlines() if ln.startswith("VIOLATION")]
                        fi = [ln for ln in out.splitlines() if ln.startswith("failing input")]
                        res["checks"]["%s seed %d" % (c, seed)] = {
                            "rc": rc, "violation": vio[:1], "failing_input": [x[:300] for x in fi[:1]],
                            "no_failing_input_found": any("no-failing-input-found" in v for v in vio),
                            "wall_s": round(time.time() - t)}
    finally:
        sh(["git", "-C", "/repo", "worktree", "remove", "--force", wt])
    json.dump(res, open(pf, "w"), indent=1)
    return name, res


def group(names):
    g = {}
    for n in names:
        m = json.load(open("%s/seeded/%s/meta.json" % (V, n)))
        g.setdefault(m.get("property") or n, []).append(n)
    return g


def run_group(ns):
    return [one(n) for n in ns]


os.makedirs("/tmp/seed-evidence", exist_ok=True)
with cf.ThreadPoolExecutor(jobs) as ex:
    futs = [ex.submit(run_group, ns) for ns in (group(names).values() if do_check else [[n] for n in names])]
    for f in cf.as_completed(futs):
        for name, res in f.result():
            line = [name, "applies=%s" % res.get("applies_to_head")]
            if "pinned_tests_pass_with_change" in res:
                line.append("tests=%s" % res["pinned_tests_pass_with_change"])
            for k, v in (res.get("checks") or {}).items():
                line.append("%s:rc%d%s" % (k, v["rc"], "(nfif)" if v["no_failing_input_found"] else ""))
            print(" ".join(line), flush=True)
