#!/usr/bin/env python3
"""tools/seed_regress.py [--baseline] [--check] [--jobs N] [names...]

For every stored seeded change (seeded/<name>/): apply patch.diff to a scratch worktree of /repo's HEAD (under /tmp,
removed afterwards) and
  --baseline : run the pinned test suite on the patched tree (tools/baseline_check.py) - the change must still pass it;
  --check    : run the owning property's quick check (seeds 0 and 1, VERIF_REPO=<worktree>, evidence sent to a scratch
               directory) and record whether it reports a violation with a failing input.
Results go to seeded/<name>/regress.json.  Seeds of one property run one after another (translators regenerate
lean/PhononModel/Gen/* per run); different properties run in parallel.  Nothing is ever applied to /repo itself.
"""
import concurrent.futures as cf, json, os, subprocess, sys, time

V = "/verif"
args = sys.argv[1:]
do_base = "--baseline" in args
do_check = "--check" in args
jobs = 5
only = None
if "--only-checks" in args:
    only = args[args.index("--only-checks") + 1].split(","); del args[args.index("--only-checks"):args.index("--only-checks") + 2]
if "--jobs" in args:
    jobs = int(args[args.index("--jobs") + 1]); del args[args.index("--jobs"):args.index("--jobs") + 2]
names = [a for a in args if not a.startswith("--")] or sorted(os.listdir(V + "/seeded"))
names = [n for n in names if os.path.exists("%s/seeded/%s/patch.diff" % (V, n))]


def sh(cmd, **kw):
    return subprocess.run(cmd, capture_output=True, text=True, **kw)


def prep(name):
    d = "%s/seeded/%s" % (V, name)
    meta = json.load(open(d + "/meta.json"))
    prop = meta.get("property") or name.split("-")[0]
    res = {"head": HEAD, "property": prop}
    pf = d + "/regress.json"
    if os.path.exists(pf):
        try:
            old = json.load(open(pf))
            if old.get("head") == HEAD:
                res = old
            else:   # keep the pinned-test result (recorded with the HEAD it was run on), drop check results
                for k in ("pinned_tests_pass_with_change", "pinned_tests"):
                    if k in old:
                        res[k] = old[k]
                if "pinned_tests_pass_with_change" in old:
                    res["pinned_tests_head"] = old.get("pinned_tests_head", old.get("head"))
        except Exception:
            pass
    return d, meta, prop, res, pf


LOCK = __import__("threading").Lock()


def save(name, upd):
    """merge `upd` into seeded/<name>/regress.json (several threads may hold results for one seed)"""
    with LOCK:
        d, meta, prop, res, pf = prep(name)
        for k, v in upd.items():
            if k == "checks":
                res.setdefault("checks", {}).update(v)
            else:
                res[k] = v
        json.dump(res, open(pf, "w"), indent=1)
        return res


def with_tree(name, fn):
    d = "%s/seeded/%s" % (V, name)
    wt = "/tmp/wt-regress-%s-%d-%d" % (name, os.getpid(), __import__("threading").get_ident() % 100000)
    if sh(["git", "-C", "/repo", "worktree", "add", "-q", wt, "HEAD"]).returncode:
        return {"error": "worktree"}
    try:
        ap = sh(["git", "apply", d + "/patch.diff"], cwd=wt)
        if ap.returncode:
            ap = sh(["git", "apply", "-3", d + "/patch.diff"], cwd=wt)
        if ap.returncode:
            return {"applies_to_head": False, "apply_error": ap.stderr[-300:]}
        out = {"applies_to_head": True}
        out.update(fn(wt))
        return out
    finally:
        sh(["git", "-C", "/repo", "worktree", "remove", "--force", wt])


def baseline(name):
    def fn(wt):
        b = sh(["python3", V + "/tools/baseline_check.py", wt])
        return {"pinned_tests_pass_with_change": b.returncode == 0, "pinned_tests": b.stdout.strip().splitlines()[:4], "pinned_tests_head": HEAD}
    r = save(name, with_tree(name, fn))
    return "%s applies=%s tests=%s" % (name, r.get("applies_to_head"), r.get("pinned_tests_pass_with_change"))


def run_check_group(c, ns):
    lines = []
    for name in ns:
        def fn(wt):
            out = {}
            for seed in (0, 1):
                env = dict(os.environ, VERIF_REPO=wt, VERIF_SEED=str(seed), VERIF_EVIDENCE_DIR="/tmp/seed-evidence")
                t = time.time()
                try:
                    r = sh([V + "/check", c], cwd=V, env=env, timeout=1800)
                    o = r.stdout + r.stderr; rc = r.returncode
                except subprocess.TimeoutExpired:
                    o, rc = "", 124
                vio = [ln for ln in o.splitlines() if ln.startswith("VIOLATION")]
                fi = [ln for ln in o.splitlines() if ln.startswith("failing input")]
                out["%s seed %d" % (c, seed)] = {"rc": rc, "violation": vio[:1], "failing_input": [x[:300] for x in fi[:1]],
                                                 "no_failing_input_found": any("no-failing-input-found" in v for v in vio),
                                                 "wall_s": round(time.time() - t)}
            return {"checks": out}
        r = with_tree(name, fn)
        save(name, r)
        bits = [name, c]
        for k, v in (r.get("checks") or {}).items():
            bits.append("s%s:rc%d%s" % (k[-1], v["rc"], "(nfif)" if v["no_failing_input_found"] else ""))
        if not r.get("applies_to_head", True):
            bits.append("PATCH-DOES-NOT-APPLY")
        lines.append(" ".join(bits))
        print(lines[-1], flush=True)
    return lines


HEAD = sh(["git", "-C", "/repo", "rev-parse", "--short", "HEAD"]).stdout.strip()
os.makedirs("/tmp/seed-evidence", exist_ok=True)
with cf.ThreadPoolExecutor(jobs) as ex:
    if do_base:
        for l in ex.map(baseline, names):
            print(l, flush=True)
    if do_check:
        by = {}
        for n in names:
            m = json.load(open("%s/seeded/%s/meta.json" % (V, n)))
            for c in (m["checks"] if "checks" in m else [m.get("property")]):
                if only is None or c in only:
                    by.setdefault(c, []).append(n)
        list(ex.map(lambda kv: run_check_group(*kv), sorted(by.items())))
