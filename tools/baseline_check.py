#!/usr/bin/env python3
"""Run /repo's pinned test command and compare with /root/.vp/BASELINE.json stable_pass."""
import json, subprocess, sys, tempfile, os, xml.etree.ElementTree as ET
repo = sys.argv[1] if len(sys.argv) > 1 else "/repo"
base = json.load(open("/root/.vp/BASELINE.json"))
out = tempfile.mktemp(suffix=".xml", dir="/tmp")
env = dict(os.environ); env.pop("PHONOPY_VERIF", None)
subprocess.run(["/venv/bin/python", "-m", "pytest", "-ra", "-q", "-p", "no:cacheprovider", "--timeout=900",
                "--continue-on-collection-errors", "--junitxml=" + out], cwd=repo, env=env, capture_output=True)
passed = set()
for tc in ET.parse(out).getroot().iter("testcase"):
    if not any(ch.tag in ("failure", "error", "skipped") for ch in tc):
        passed.add(tc.get("classname") + "::" + tc.get("name"))
os.remove(out)
missing = [t for t in base["stable_pass"] if t not in passed]
print("stable_pass: %d, passing now: %d, missing: %d" % (len(base["stable_pass"]), len(passed), len(missing)))
for m in missing: print("  MISSING", m)
sys.exit(1 if missing else 0)
