#!/bin/sh
# tools/try_seed.sh <patch.diff> <Cxx> [seeds...] : apply a seeded change to a scratch worktree of /repo's HEAD,
# run the check against it (VERIF_REPO), remove the worktree. (While other builders run checks against /repo the
# change is not applied to /repo itself; for the final record the same is done on /repo with git apply / checkout.)
P="$1"; C="$2"; shift 2; SEEDS="${*:-0 1}"
WT=/tmp/wt-seed-$$
git -C /repo worktree add -q "$WT" HEAD || exit 2
( cd "$WT" && git apply "$P" ) || { echo "patch does not apply"; git -C /repo worktree remove --force "$WT"; exit 2; }
cd /verif
mkdir -p /tmp/seed-evidence
for s in $SEEDS; do VERIF_EVIDENCE_DIR=/tmp/seed-evidence VERIF_REPO="$WT" VERIF_SEED=$s timeout 1500 ./check "$C" 2>&1 | grep -v "^Warning: Point\|^spglib" | tail -2; done
git -C /repo worktree remove --force "$WT"
