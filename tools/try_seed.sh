#!/bin/sh
# tools/try_seed.sh <patch.diff> <Cxx> [seeds...] : apply a seeded change to /repo, run the check, undo.
P="$1"; C="$2"; shift 2; SEEDS="${*:-0 1}"
cd /repo || exit 2
if [ -n "$(git status --porcelain)" ]; then echo "/repo not clean"; exit 2; fi
git apply "$P" || { echo "patch does not apply"; exit 2; }
cd /verif
for s in $SEEDS; do VERIF_SEED=$s timeout 1500 ./check "$C" 2>&1 | grep -v "^Warning: Point\|^spglib" | tail -2; done
git -C /repo checkout -- . ; git -C /repo status --porcelain | head -3
