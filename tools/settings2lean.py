#!/usr/bin/env python3
"""T-tables for C18: cui/settings.py + cui/phonopy_argparse.py + docs -> Lean.

Everything is read with Python's `ast` (no import of phonopy, no evaluation of source):

* `Settings._default`, `PhonopySettings._default`, the `set_X` setters      -> attributes + defaults
* `ConfParser.read_options` + `PhonopyConfParser._read_options`              -> `optRules`
  (one rule per `if "<dest>" in arg_list:` block: activation test, written conf key, value kind)
* `ConfParser.parse_conf` + `PhonopyConfParser._parse_conf`                  -> `parseRules`
  (conf keys of a branch, its `.true./.false.` table if it has one, the parameter keys it can write)
* `ConfParser.set_settings` + `PhonopyConfParser._set_settings`              -> `prog`
  (a small statement language: guards over `params` / `self._settings`, setter calls)
* `get_parser` in phonopy_argparse.py, `calculator_info` in interface/calculator.py -> `flags`
* headings of doc/setting-tags.md, the equivalence list and headings of doc/command-options.md

Any construct outside the recognised shapes raises TranslateError (the check then reports the
proof step as broken).  Output: lean/PhononModel/Gen/SettingsTable.lean (rewritten only on change)
and the table as a Python dict for the harness (`build_table`).
"""
import ast
import json
import os
import re
import sys

HERE = os.path.dirname(os.path.dirname(os.path.abspath(__file__)))


class TranslateError(Exception):
    pass


def _fail(msg, node=None):
    where = ""
    if node is not None and hasattr(node, "lineno"):
        where = " (line %d: %s)" % (node.lineno, ast.unparse(node)[:160])
    raise TranslateError(msg + where)


# --------------------------------------------------------------------------
# small AST predicates
# --------------------------------------------------------------------------

def _is_self_attr(n, name=None):
    return isinstance(n, ast.Attribute) and isinstance(n.value, ast.Name) and n.value.id == "self" and (name is None or n.attr == name)


def _const_str(n):
    return n.value if isinstance(n, ast.Constant) and isinstance(n.value, str) else None


def _args_dest(n):
    """self._args.<dest> -> dest"""
    if isinstance(n, ast.Attribute) and _is_self_attr(n.value, "_args"):
        return n.attr
    return None


def _is_docstring(st):
    return isinstance(st, ast.Expr) and isinstance(st.value, ast.Constant) and isinstance(st.value.value, str)


_MODULE_FUNCS = {}


def _only_prints(fn):
    return all(_is_docstring(b) or _is_print(b) or (isinstance(b, ast.Assign) and isinstance(b.value, ast.Constant)) for b in fn.body)


def _is_print(st):
    if not (isinstance(st, ast.Expr) and isinstance(st.value, ast.Call) and isinstance(st.value.func, ast.Name)):
        return False
    nm = st.value.func.id
    if nm == "print":
        return True
    # a module-level helper that does nothing but print (e.g. a deprecation notice)
    return nm in _MODULE_FUNCS and not st.value.args and nm not in _only_prints.__dict__.setdefault("busy", set()) and _only_prints_guard(nm)


def _only_prints_guard(nm):
    busy = _only_prints.__dict__.setdefault("busy", set())
    busy.add(nm)
    try:
        return _only_prints(_MODULE_FUNCS[nm])
    finally:
        busy.discard(nm)


def _is_join_if_list(fn):
    """def f(x): if isinstance(x, list): return " ".join(x) ; return x"""
    body = [b for b in fn.body if not _is_docstring(b)]
    if len(fn.args.args) != 1 or len(body) != 2:
        return False
    x = fn.args.args[0].arg
    return ast.unparse(body[0]) == "if isinstance(%s, list):\n    return ' '.join(%s)" % (x, x) and ast.unparse(body[1]) == "return %s" % x


def _confs_target(n):
    """self._confs["k"] -> k"""
    if isinstance(n, ast.Subscript) and _is_self_attr(n.value, "_confs"):
        return _const_str(n.slice)
    return None


# --------------------------------------------------------------------------
# values
# --------------------------------------------------------------------------

def _value(n, strs):
    if isinstance(n, ast.Constant):
        v = n.value
        if v is None:
            return ("none",)
        if isinstance(v, bool):
            return ("bool", v)
        if isinstance(v, int):
            return ("num", v)
        if isinstance(v, str):
            if v not in strs:
                strs.append(v)
            return ("str", v)
    if isinstance(n, ast.List) and not n.elts:
        return ("nil",)
    _fail("unsupported constant", n)


# --------------------------------------------------------------------------
# settings classes: defaults and setters
# --------------------------------------------------------------------------

def _class_defaults(cls, strs):
    out = []
    for st in cls.body:
        if isinstance(st, ast.Assign) and len(st.targets) == 1 and isinstance(st.targets[0], ast.Name) and st.targets[0].id == "_default":
            if not isinstance(st.value, ast.Dict):
                _fail("_default is not a dict literal", st)
            for k, v in zip(st.value.keys, st.value.values):
                ks = _const_str(k)
                if ks is None:
                    _fail("_default key is not a string", k)
                out.append((ks, _value(v, strs)))
            return out
    _fail("class %s has no _default" % cls.name)


def _class_setters(cls):
    out = {}
    for st in cls.body:
        if isinstance(st, ast.FunctionDef) and st.name.startswith("set_"):
            body = [b for b in st.body if not _is_docstring(b)]
            ok = (len(body) == 1 and isinstance(body[0], ast.Assign) and len(body[0].targets) == 1
                  and isinstance(body[0].targets[0], ast.Subscript) and _is_self_attr(body[0].targets[0].value, "_v")
                  and isinstance(body[0].value, ast.Name) and body[0].value.id == st.args.args[1].arg)
            if not ok:
                _fail("setter %s is not `self._v[k] = val`" % st.name, st)
            out[st.name] = _const_str(body[0].targets[0].slice)
    return out


# --------------------------------------------------------------------------
# read_options -> opt rules
# --------------------------------------------------------------------------

def _opt_block(dest, body, strs):
    env = {}
    rule = {"dest": dest, "act": None, "dflt_attr": None, "tag": None, "val": None, "join": "never", "range_check": False}

    def sym(e):
        d = _args_dest(e)
        if d is not None:
            if d != dest:
                _fail("block of %s reads another option" % dest, e)
            return "ARG"
        if isinstance(e, ast.Name) and e.id in env:
            return env[e.id]
        if isinstance(e, ast.Call) and isinstance(e.func, ast.Attribute) and e.func.attr == "join" and _const_str(e.func.value) == " " and len(e.args) == 1:
            if sym(e.args[0]) == "ARG":
                return "JOIN"
        if isinstance(e, ast.Call) and isinstance(e.func, ast.Name) and e.func.id in _MODULE_FUNCS and len(e.args) == 1 and not e.keywords \
                and _is_join_if_list(_MODULE_FUNCS[e.func.id]) and sym(e.args[0]) == "ARG":
            return "IFLIST"
        s = _const_str(e)
        if s is not None:
            return ("CONST", s)
        return None

    def record(tag, v):
        if rule["tag"] is not None:
            _fail("block of %s writes two conf keys" % dest)
        rule["tag"] = tag
        if v == "ARG":
            rule["val"] = ("arg",)
        elif v == "JOIN":
            rule["val"], rule["join"] = ("arg",), "always"
        elif v == "IFLIST":
            rule["val"], rule["join"] = ("arg",), "iflist"
        elif isinstance(v, tuple):
            s = v[1]
            if s == ".true.":
                rule["val"] = ("t",)
            elif s == ".false.":
                rule["val"] = ("f",)
            else:
                if s not in strs:
                    strs.append(s)
                rule["val"] = ("str", s)
        else:
            _fail("unsupported conf value in block of %s" % dest)

    def single_assign(stmts):
        """statements that (after local aliases / prints) make exactly one conf assignment -> (tag, sym)"""
        got = []
        for st in stmts:
            if _is_print(st):
                continue
            if isinstance(st, ast.Assign) and len(st.targets) == 1 and isinstance(st.targets[0], ast.Name):
                v = sym(st.value)
                if v is None:
                    _fail("unsupported local in block of %s" % dest, st)
                env[st.targets[0].id] = v
                continue
            if isinstance(st, ast.Assign) and len(st.targets) == 1 and _confs_target(st.targets[0]) is not None:
                v = sym(st.value)
                if v is None:
                    _fail("unsupported conf value", st)
                got.append((_confs_target(st.targets[0]), v))
                continue
            _fail("unsupported statement in block of %s" % dest, st)
        if len(got) != 1:
            _fail("block of %s: expected exactly one conf assignment" % dest)
        return got[0]

    def then_body(stmts):
        pending = []

        def flush():
            if pending:
                tag, v = single_assign(list(pending))
                record(tag, v)
                pending.clear()

        for st in stmts:
            if _is_print(st):
                continue
            if isinstance(st, ast.Assign) and len(st.targets) == 1 and isinstance(st.targets[0], ast.Name):
                v = sym(st.value)
                if v is None:
                    _fail("unsupported local in block of %s" % dest, st)
                env[st.targets[0].id] = v
                continue
            if isinstance(st, ast.If):
                t = st.test
                # isinstance(X, list)
                if isinstance(t, ast.Call) and isinstance(t.func, ast.Name) and t.func.id == "isinstance" and sym(t.args[0]) == "ARG" and isinstance(t.args[1], ast.Name) and t.args[1].id == "list":
                    a = single_assign(st.body)
                    b = single_assign(st.orelse)
                    if a[0] != b[0] or a[1] != "JOIN" or b[1] != "ARG":
                        _fail("isinstance(list) branches are not join / raw", st)
                    record(a[0], "IFLIST")
                    continue
                src = ast.unparse(t)
                # random_seed range check
                if re.fullmatch(r"np\.issubdtype\(type\((\w+)\), np\.integer\) and \1 >= 0 and \(?\1 < 2 \*\* 32\)?", src) and sym(t.values[1].left) == "ARG" and not st.orelse:
                    rule["range_check"] = True
                    then_body(st.body)
                    continue
                # "<tag>" not in self._confs
                if isinstance(t, ast.Compare) and len(t.ops) == 1 and isinstance(t.ops[0], ast.NotIn) and _const_str(t.left) is not None and _is_self_attr(t.comparators[0], "_confs") and not st.orelse:
                    tag, v = single_assign(st.body)
                    if tag != _const_str(t.left):
                        _fail("if-absent guard and assignment disagree", st)
                    rule["act"] = "ifTagAbsent"
                    record(tag, v)
                    continue
                _fail("unsupported nested if in block of %s" % dest, st)
            pending.append(st)
        flush()
        if rule["tag"] is None:
            _fail("block of %s writes no conf key" % dest)

    main = None
    for st in body:
        if isinstance(st, ast.Assign) and len(st.targets) == 1 and isinstance(st.targets[0], ast.Name) and sym(st.value) is not None:
            env[st.targets[0].id] = sym(st.value)
            continue
        if isinstance(st, ast.If) and main is None:
            main = st
            continue
        _fail("unsupported statement in block of %s" % dest, st)
    if main is None:
        _fail("block of %s has no test" % dest)
    t = main.test
    # default-dependent shape
    if isinstance(t, ast.Subscript) and isinstance(t.value, ast.Attribute) and t.value.attr == "default" and _is_self_attr(t.value.value, "_settings"):
        attr = _const_str(t.slice)
        ok = (len(main.body) == 1 and isinstance(main.body[0], ast.If) and not main.body[0].orelse
              and isinstance(main.body[0].test, ast.Compare) and sym(main.body[0].test.left) == "ARG"
              and isinstance(main.body[0].test.ops[0], ast.Is) and isinstance(main.body[0].test.comparators[0], ast.Constant) and main.body[0].test.comparators[0].value is False
              and len(main.orelse) == 1 and isinstance(main.orelse[0], ast.If) and not main.orelse[0].orelse and sym(main.orelse[0].test) == "ARG")
        if not ok:
            _fail("default-dependent block of %s has an unexpected shape" % dest, main)
        a = single_assign(main.body[0].body)
        b = single_assign(main.orelse[0].body)
        if a[0] != b[0] or a[1] != ("CONST", ".false.") or b[1] != ("CONST", ".true."):
            _fail("default-dependent block of %s does not write .false./.true." % dest, main)
        rule.update(act="dflt", dflt_attr=attr, tag=a[0], val=("dflt",))
        return rule
    if sym(t) == "ARG":
        rule["act"] = "truthy"
    elif isinstance(t, ast.Compare) and len(t.ops) == 1 and sym(t.left) == "ARG" and isinstance(t.comparators[0], ast.Constant):
        c = t.comparators[0].value
        if isinstance(t.ops[0], ast.IsNot) and c is None:
            rule["act"] = "notNone"
        elif isinstance(t.ops[0], ast.Is) and c is False:
            rule["act"] = "isFalse"
        else:
            _fail("unsupported option test", t)
    else:
        _fail("unsupported option test", t)
    if main.orelse:
        if rule["act"] != "truthy":
            _fail("else-branch on a non-truthiness test", main)
        a = single_assign(main.body)
        b = single_assign(main.orelse)
        if a[0] != b[0] or a[1] != ("CONST", ".true.") or b[1] != ("CONST", ".false."):
            _fail("if/else block of %s does not write .true./.false." % dest, main)
        rule.update(act="always", tag=a[0], val=("always",))
        return rule
    act = rule["act"]
    then_body(main.body)
    if rule["act"] == "ifTagAbsent":
        if act != "truthy":
            _fail("if-absent rule under a non-truthiness test", main)
    return rule


def _read_options(fn, classes, strs):
    rules = []
    pending_iface = None
    for st in fn.body:
        if _is_docstring(st) or isinstance(st, ast.ImportFrom):
            continue
        if isinstance(st, ast.Assign) and len(st.targets) == 1 and isinstance(st.targets[0], ast.Name):
            nm = st.targets[0].id
            src = ast.unparse(st.value)
            if nm == "arg_list" and src == "vars(self._args)":
                continue
            if src == "get_interface_mode(arg_list)":
                pending_iface = nm
                continue
            _fail("unsupported top-level assignment in %s" % fn.name, st)
        if isinstance(st, ast.Expr) and ast.unparse(st.value) == "ConfParser.read_options(self)":
            rules += _read_options(classes["ConfParser"]["read_options"], classes, strs)
            continue
        if isinstance(st, ast.If) and not st.orelse:
            t = st.test
            if isinstance(t, ast.Name) and t.id == pending_iface:
                ok = (len(st.body) == 1 and isinstance(st.body[0], ast.Assign) and _confs_target(st.body[0].targets[0]) is not None
                      and isinstance(st.body[0].value, ast.Name) and st.body[0].value.id == pending_iface)
                if not ok:
                    _fail("interface-mode block has an unexpected shape", st)
                rules.append({"dest": "@interface_mode", "act": "truthy", "dflt_attr": None, "tag": _confs_target(st.body[0].targets[0]),
                              "val": ("arg",), "join": "never", "range_check": False})
                continue
            if isinstance(t, ast.Compare) and len(t.ops) == 1 and isinstance(t.ops[0], ast.In) and _const_str(t.left) is not None and isinstance(t.comparators[0], ast.Name) and t.comparators[0].id == "arg_list":
                rules.append(_opt_block(_const_str(t.left), st.body, strs))
                continue
        _fail("unsupported statement in %s" % fn.name, st)
    return rules


# --------------------------------------------------------------------------
# parse_conf -> parse rules
# --------------------------------------------------------------------------

def _set_parameter_call(st):
    """`self.set_parameter("k", e)` statement -> (k, e)"""
    if isinstance(st, ast.Expr) and isinstance(st.value, ast.Call) and _is_self_attr(st.value.func, "set_parameter") and len(st.value.args) == 2:
        k = _const_str(st.value.args[0])
        if k is not None:
            return k, st.value.args[1]
    return None


def _collect_targets(stmts, methods, seen=None, visiting=None):
    seen = seen if seen is not None else []
    visiting = visiting if visiting is not None else []
    for st in stmts:
        for n in ast.walk(st):
            if isinstance(n, ast.Call) and _is_self_attr(n.func, "set_parameter"):
                k = _const_str(n.args[0]) if n.args else None
                if k is None:
                    _fail("set_parameter with a computed key", n)
                if k not in seen:
                    seen.append(k)
            elif isinstance(n, ast.Call) and _is_self_attr(n.func) and n.func.attr in methods and n.func.attr not in ("set_parameter", "setting_error") and n.func.attr not in visiting:
                visiting.append(n.func.attr)
                _collect_targets(methods[n.func.attr].body, methods, seen, visiting)
                visiting.pop()
    return seen


_BOOL_TEST = re.compile(r"^confs\[(?:'[a-z_0-9]+'|conf_key)\]\.lower\(\) == '\.(true|false)\.'$")


def _bool_chain(stmts, strs):
    """-> (on_true, on_false, has_else) or None when the body is not a pure `.true./.false.` table"""
    on = {"true": [], "false": []}
    has_else = False

    def one_if(st):
        nonlocal has_else
        m = _BOOL_TEST.match(ast.unparse(st.test))
        if not m:
            return False
        for b in st.body:
            sp = _set_parameter_call(b)
            if sp is None or not (isinstance(sp[1], ast.Constant) and isinstance(sp[1].value, bool)):
                return False
            on[m.group(1)].append((sp[0], ("bool", sp[1].value)))
        if st.orelse:
            if len(st.orelse) == 1 and isinstance(st.orelse[0], ast.If):
                return one_if(st.orelse[0])
            has_else = True
        return True

    for st in stmts:
        if not isinstance(st, ast.If) or not one_if(st):
            return None
    return on["true"], on["false"], has_else


def _parse_conf(fn, classes, phase, strs):
    methods = classes["PhonopyConfParser"] if phase == 1 else classes["ConfParser"]
    rules = []
    loop = None
    for st in fn.body:
        if _is_docstring(st):
            continue
        src = ast.unparse(st)
        if src in ("confs = self._confs", "ConfParser.parse_conf(self)"):
            continue
        if isinstance(st, ast.For) and ast.unparse(st.iter) == "confs.keys()" and isinstance(st.target, ast.Name) and st.target.id == "conf_key" and loop is None:
            loop = st
            continue
        _fail("unsupported statement in %s" % fn.name, st)
    if loop is None:
        _fail("%s has no `for conf_key in confs.keys()` loop" % fn.name)
    for st in loop.body:
        if not (isinstance(st, ast.If) and not st.orelse and isinstance(st.test, ast.Compare) and len(st.test.ops) == 1
                and isinstance(st.test.left, ast.Name) and st.test.left.id == "conf_key"):
            _fail("unsupported branch in %s" % fn.name, st)
        op, rhs = st.test.ops[0], st.test.comparators[0]
        if isinstance(op, ast.Eq) and _const_str(rhs) is not None:
            keys = [_const_str(rhs)]
        elif isinstance(op, ast.In) and isinstance(rhs, (ast.Tuple, ast.List)) and all(_const_str(e) is not None for e in rhs.elts):
            keys = [_const_str(e) for e in rhs.elts]
        else:
            _fail("unsupported branch test in %s" % fn.name, st)
        targets = _collect_targets(st.body, methods)
        bc = _bool_chain(st.body, strs)
        if bc is None:
            rule = {"phase": phase, "keys": keys, "on_true": [], "on_false": [], "has_bool": False, "valued": True, "targets": targets}
        else:
            rule = {"phase": phase, "keys": keys, "on_true": bc[0], "on_false": bc[1], "has_bool": True, "valued": bc[2], "targets": targets}
        rules.append(rule)
    return rules


# --------------------------------------------------------------------------
# set_settings -> statement program
# --------------------------------------------------------------------------

class _Prog:
    def __init__(self, setters, strs, fns):
        self.setters = setters
        self.strs = strs
        self.fns = fns
        self.env = {}

    def fn(self, name):
        if name not in self.fns:
            self.fns.append(name)
        return name

    def expr(self, e):
        if isinstance(e, ast.Name) and e.id in self.env:
            return self.env[e.id]
        if isinstance(e, ast.Subscript) and isinstance(e.value, ast.Name) and e.value.id == "params" and _const_str(e.slice) is not None:
            return ("param", _const_str(e.slice))
        if isinstance(e, ast.Attribute) and _is_self_attr(e.value, "_settings"):
            return ("attr", e.attr)
        if isinstance(e, ast.Constant) or (isinstance(e, ast.List) and not e.elts):
            return ("const", _value(e, self.strs))
        if isinstance(e, ast.Call) and isinstance(e.func, ast.Name) and e.func.id in ("int", "float") and len(e.args) == 1 and not e.keywords:
            return ("app", self.fn(e.func.id), self.expr(e.args[0]))
        if isinstance(e, ast.Subscript):
            base = self.expr(e.value)
            s = e.slice
            if isinstance(s, ast.Constant) and isinstance(s.value, int):
                return ("app", self.fn("index_%d" % s.value), base)
            if isinstance(s, ast.Slice) and s.step is None:
                lo = "" if s.lower is None else str(ast.literal_eval(s.lower))
                hi = "" if s.upper is None else str(ast.literal_eval(s.upper))
                return ("app", self.fn("slice_%s_%s" % (lo, hi)), base)
        if isinstance(e, ast.ListComp) and len(e.generators) == 1 and not e.generators[0].ifs and isinstance(e.generators[0].target, ast.Name):
            v = e.generators[0].target.id
            if isinstance(e.elt, ast.Call) and isinstance(e.elt.func, ast.Name) and len(e.elt.args) == 1 and isinstance(e.elt.args[0], ast.Name) and e.elt.args[0].id == v:
                return ("app", self.fn("map_%s" % e.elt.func.id), self.expr(e.generators[0].iter))
        _fail("unsupported expression in set_settings", e)

    @staticmethod
    def _has_app(x):
        return x[0] == "app"

    def cond(self, t):
        if isinstance(t, ast.BoolOp):
            op = "and" if isinstance(t.op, ast.And) else "or"
            cs = [self.cond(v) for v in t.values]
            out = cs[-1]
            for c in reversed(cs[:-1]):
                out = (op, c, out)
            return out
        if isinstance(t, ast.UnaryOp) and isinstance(t.op, ast.Not):
            return ("not", self.cond(t.operand))
        if isinstance(t, ast.Compare) and len(t.ops) == 1:
            op, lhs, rhs = t.ops[0], t.left, t.comparators[0]
            if isinstance(op, (ast.In, ast.NotIn)) and isinstance(rhs, ast.Name) and rhs.id == "params" and _const_str(lhs) is not None:
                c = ("hasParam", _const_str(lhs))
                return c if isinstance(op, ast.In) else ("not", c)
            if isinstance(op, ast.Eq) and _const_str(rhs) is not None:
                e = self.expr(lhs)
                if self._has_app(e):
                    _fail("guard inspects a converted value", t)
                if rhs.value not in self.strs:
                    self.strs.append(rhs.value)
                return ("eqStr", e, rhs.value)
            if isinstance(op, (ast.Is, ast.IsNot)) and isinstance(rhs, ast.Constant) and rhs.value is None:
                e = self.expr(lhs)
                if self._has_app(e):
                    _fail("guard inspects a converted value", t)
                c = ("isNone", e)
                return c if isinstance(op, ast.Is) else ("not", c)
            if isinstance(lhs, ast.Call) and isinstance(lhs.func, ast.Name) and lhs.func.id == "len" and isinstance(rhs, ast.Constant) and isinstance(rhs.value, int):
                e = self.expr(lhs.args[0])
                if self._has_app(e):
                    _fail("guard inspects a converted value", t)
                if isinstance(op, ast.Eq):
                    return ("lenEq", e, rhs.value)
                if isinstance(op, ast.Gt):
                    return ("lenGt", e, rhs.value)
            _fail("unsupported comparison in set_settings", t)
        e = self.expr(t)
        if self._has_app(e):
            _fail("guard inspects a converted value", t)
        return ("truthy", e)

    # reads / writes for the staleness check of inlined locals
    def _reads(self, x, acc):
        if x[0] in ("param", "attr"):
            acc.add((x[0], x[1]))
        elif x[0] == "app":
            self._reads(x[2], acc)
        return acc

    def stmts(self, body):
        out = []
        for st in body:
            if _is_docstring(st):
                continue
            src = ast.unparse(st)
            if src == "params = self._parameters":
                continue
            if src == "self.set_settings()":
                out.append(("splice",))
                continue
            if isinstance(st, ast.Assign) and len(st.targets) == 1 and isinstance(st.targets[0], ast.Name):
                self.env[st.targets[0].id] = self.expr(st.value)
                continue
            if isinstance(st, ast.If):
                c = self.cond(st.test)
                out.append(("ite", c, self.stmts(st.body), self.stmts(st.orelse)))
                continue
            sp = _set_parameter_call(st)
            if sp is not None:
                out.append(("setParam", sp[0], self.expr(sp[1])))
                self._invalidate(("param", sp[0]))
                continue
            if isinstance(st, ast.Expr) and isinstance(st.value, ast.Call) and isinstance(st.value.func, ast.Attribute) and _is_self_attr(st.value.func.value, "_settings") and len(st.value.args) == 1 and not st.value.keywords:
                nm = st.value.func.attr
                if nm not in self.setters:
                    _fail("unknown setter %s" % nm, st)
                out.append(("set", self.setters[nm], self.expr(st.value.args[0])))
                self._invalidate(("attr", self.setters[nm]))
                continue
            _fail("unsupported statement in set_settings", st)
        return out

    def _invalidate(self, what):
        for nm in list(self.env):
            if what in self._reads(self.env[nm], set()):
                # a local that was inlined would now be stale: mark it unusable
                self.env[nm] = ("stale", nm)


def _flatten_prog(stmts, base):
    out = []
    for s in stmts:
        if s == ("splice",):
            out += base
        else:
            out.append(s)
    return out


def _check_no_stale(stmts):
    def ex(x):
        if x[0] == "stale":
            raise TranslateError("local variable %s is used after the state it reads was modified" % x[1])
        if x[0] == "app":
            ex(x[2])

    def cd(c):
        if c[0] in ("and", "or"):
            cd(c[1]); cd(c[2])
        elif c[0] == "not":
            cd(c[1])
        elif c[0] != "hasParam":
            ex(c[1])

    for s in stmts:
        if s[0] == "ite":
            cd(s[1]); _check_no_stale(s[2]); _check_no_stale(s[3])
        elif s[0] in ("set", "setParam"):
            ex(s[2])


# --------------------------------------------------------------------------
# argparse
# --------------------------------------------------------------------------

VARIANTS = {1: {"fc_symmetry": False, "is_nac": False, "load_phonopy_yaml": False},
            2: {"fc_symmetry": True, "is_nac": True, "load_phonopy_yaml": True}}


def norm_flag(f):
    return f.replace("_", "-")


def _argparse(repo):
    tree = ast.parse(open(os.path.join(repo, "phonopy", "cui", "phonopy_argparse.py")).read())
    fn = [n for n in tree.body if isinstance(n, ast.FunctionDef) and n.name == "get_parser"]
    if len(fn) != 1:
        _fail("get_parser not found")
    fn = fn[0]
    if [a.arg for a in fn.args.args] != ["fc_symmetry", "is_nac", "load_phonopy_yaml"]:
        _fail("get_parser has unexpected parameters")
    rows = []

    def add(call, mask):
        flags = [_const_str(a) for a in call.args]
        if any(f is None for f in flags):
            _fail("add_argument with a computed flag", call)
        kw = {}
        for k in call.keywords:
            if k.arg == "type":
                if not (isinstance(k.value, ast.Name) and k.value.id in ("int", "float", "str")):
                    _fail("unsupported type=", call)
                kw["type"] = k.value.id
            elif k.arg in ("dest", "action", "nargs", "metavar"):
                kw[k.arg] = _const_str(k.value)
            elif k.arg == "default":
                if not isinstance(k.value, ast.Constant):
                    _fail("unsupported default=", call)
                kw["default"] = k.value.value
            elif k.arg == "help":
                pass
            else:
                _fail("unsupported add_argument keyword %s" % k.arg, call)
        if not flags[0].startswith("-"):
            rows.append({"flags": [], "positional": flags[0], "dest": flags[0], "type": None, "action": None, "nargs": kw.get("nargs"), "default": None, "variants": mask})
            return
        if kw.get("dest") is None:
            _fail("add_argument without dest", call)
        rows.append({"flags": flags, "positional": None, "dest": kw["dest"], "type": kw.get("type"), "action": kw.get("action"),
                     "nargs": kw.get("nargs"), "default": kw.get("default"), "variants": mask})

    def is_add(st):
        return isinstance(st, ast.Expr) and isinstance(st.value, ast.Call) and isinstance(st.value.func, ast.Attribute) and st.value.func.attr == "add_argument" and isinstance(st.value.func.value, ast.Name) and st.value.func.value.id == "parser"

    def test_mask(t):
        neg = False
        if isinstance(t, ast.UnaryOp) and isinstance(t.op, ast.Not):
            neg, t = True, t.operand
        if not (isinstance(t, ast.Name) and t.id in VARIANTS[1]):
            _fail("unsupported condition in get_parser", t)
        m = 0
        for bit, envv in VARIANTS.items():
            if envv[t.id] != neg:
                m |= bit
        return m

    calc_seen = False
    for st in fn.body:
        if _is_docstring(st) or isinstance(st, (ast.Import, ast.ImportFrom, ast.Try)):
            continue
        src = ast.unparse(st)
        if src == "deprecated = fix_deprecated_option_names(sys.argv)" or src == "return (parser, deprecated)":
            continue
        if src == "add_arguments_of_calculators(parser, calculator_info)":
            calc_seen = True
            continue
        if is_add(st):
            add(st.value, 3)
            continue
        if isinstance(st, ast.If) and not st.orelse and all(is_add(b) for b in st.body):
            m = test_mask(st.test)
            for b in st.body:
                add(b.value, m)
            continue
        if isinstance(st, ast.If) and st.orelse and all(is_add(b) for b in st.body + st.orelse):
            m = test_mask(st.test)
            for b in st.body:
                add(b.value, m)
            for b in st.orelse:
                add(b.value, 3 & ~m)
            continue
        _fail("unsupported statement in get_parser", st)
    if not calc_seen:
        _fail("get_parser does not register the calculator options")
    # calculators
    ctree = ast.parse(open(os.path.join(repo, "phonopy", "interface", "calculator.py")).read())
    calcs = []
    for st in ctree.body:
        if isinstance(st, ast.Assign) and len(st.targets) == 1 and isinstance(st.targets[0], ast.Name) and st.targets[0].id == "calculator_info":
            d = ast.literal_eval(st.value)
            for name, info in d.items():
                calcs.append(name)
                rows.append({"flags": [info["option"]["name"]], "positional": None, "dest": "%s_mode" % name, "type": None, "action": "store_true",
                             "nargs": None, "default": False, "variants": 3, "calculator": name})
    if not calcs:
        _fail("calculator_info not found")
    return rows, calcs


# --------------------------------------------------------------------------
# docs
# --------------------------------------------------------------------------

def _docs(repo):
    tags_md = open(os.path.join(repo, "doc", "setting-tags.md")).read()
    doc_tags = []
    for line in tags_md.split("\n"):
        if re.match(r"^#{3,4} ", line):
            for nm in re.findall(r"`([^`]+)`", line):
                if re.fullmatch(r"[A-Z][A-Z0-9_]*", nm) and nm.lower() not in doc_tags:
                    doc_tags.append(nm.lower())
    opt_md = open(os.path.join(repo, "doc", "command-options.md")).read()
    lines = opt_md.split("\n")
    # equivalence list: bullets after "equivalent to respective setting tags"
    pairs, doc_flags, pair_values = [], [], []
    i = 0
    while i < len(lines) and "equivalent to respective setting tags" not in lines[i]:
        i += 1
    if i == len(lines):
        raise TranslateError("equivalence list not found in doc/command-options.md")
    i += 1
    bullets = []
    while i < len(lines):
        ln = lines[i]
        if ln.startswith("- "):
            bullets.append(ln)
        elif ln.startswith("  ") and bullets:
            bullets[-1] += " " + ln.strip()
        elif ln.strip() == "" and not bullets:
            pass
        else:
            break
        i += 1
    for b in bullets:
        m = re.match(r"^- ((?:`-[^`]+`(?:, )?)+) \(([^)]*)\)", b)
        if not m:
            raise TranslateError("cannot read equivalence bullet: %s" % b)
        flags = [norm_flag(f) for f in re.findall(r"`(-[^`]+)`", m.group(1))]
        tg = []
        for t in re.findall(r"`([^`]+)`", m.group(2)):
            t, _, val = t.partition("=")
            t = t.strip()
            if not re.fullmatch(r"[A-Z][A-Z0-9_]*", t):
                raise TranslateError("cannot read tag in bullet: %s" % b)
            tg.append((t.lower(), val.strip() or None))
        if not tg:
            raise TranslateError("no tag in bullet: %s" % b)
        for f in flags:
            if f not in doc_flags:
                doc_flags.append(f)
            for t, val in tg:
                pairs.append((f, t))
                pair_values.append((f, t, val))
    heading_flags = []
    for line in lines:
        if re.match(r"^#{2,4} ", line):
            for nm in re.findall(r"`([^`]+)`", line):
                for tok in nm.split():
                    if tok.startswith("-"):
                        f = norm_flag(tok)
                        if f not in heading_flags:
                            heading_flags.append(f)
    return doc_tags, pairs, doc_flags, heading_flags, pair_values


# --------------------------------------------------------------------------
# normalisation: private names, locals, helper methods, early returns, module constants -> the canonical spelling
# --------------------------------------------------------------------------
# The translation below recognises statement shapes by their text.  To keep it independent of behaviour-preserving
# refactorings, the module is first rewritten to a canonical spelling; everything is found through PUBLIC names:
#   * private attributes: `self.<x>` assigned from the parameter `args` in ConfParser.__init__ (-> _args), returned by
#     the properties `confs` / `settings` (-> _confs / _settings), written by `set_parameter` (-> _parameters),
#     read by `Settings.__getattr__` (-> _v);
#   * the subclass methods with the roles read-options / parse / set are found by what they do (they read
#     `vars(self._args)`, loop over the conf keys comparing the loop variable with constants, call the setters) and
#     by the call of the public base-class method (`read_options`, `parse_conf`, `set_settings`);
#   * locals: the alias of `vars(self._args)` -> arg_list, of `self._confs` -> confs, of `self._parameters` -> params,
#     the loop variable over the conf keys -> conf_key;
#   * a private helper method called as a statement with plain names as arguments is inlined;
#   * `if c: return` followed by statements -> `if not c: statements`; `not (x is None)` -> `x is not None` …;
#   * module-level private constants (`_X = "…"`, `_T = {"k": …}` looked up with a constant key) are substituted.

CANON_ATTR = ("_args", "_confs", "_settings", "_parameters", "_v")


def _self_attr_name(n):
    return n.attr if isinstance(n, ast.Attribute) and isinstance(n.value, ast.Name) and n.value.id == "self" else None


class _RenameSelfAttr(ast.NodeTransformer):
    def __init__(self, mapping):
        self.mapping = mapping

    def visit_Attribute(self, node):
        self.generic_visit(node)
        if isinstance(node.value, ast.Name) and node.value.id == "self" and node.attr in self.mapping:
            node.attr = self.mapping[node.attr]
        return node


class _RenameNames(ast.NodeTransformer):
    def __init__(self, mapping):
        self.mapping = mapping

    def visit_Name(self, node):
        if node.id in self.mapping:
            v = self.mapping[node.id]
            if isinstance(v, ast.AST):
                import copy

                return copy.deepcopy(v)
            node.id = v
        return node

    def visit_arg(self, node):
        if node.arg in self.mapping and isinstance(self.mapping[node.arg], str):
            node.arg = self.mapping[node.arg]
        return node


class _SimplifyNot(ast.NodeTransformer):
    def visit_UnaryOp(self, node):
        self.generic_visit(node)
        if isinstance(node.op, ast.Not):
            o = node.operand
            if isinstance(o, ast.UnaryOp) and isinstance(o.op, ast.Not):
                return o.operand
            if isinstance(o, ast.Compare) and len(o.ops) == 1:
                flip = {ast.Is: ast.IsNot, ast.IsNot: ast.Is, ast.In: ast.NotIn, ast.NotIn: ast.In, ast.Eq: ast.NotEq, ast.NotEq: ast.Eq}
                for a, b in flip.items():
                    if isinstance(o.ops[0], a):
                        return ast.Compare(left=o.left, ops=[b()], comparators=o.comparators)
        return node


def _early_returns(body):
    """`if c: return` + rest  ->  `if not c: rest` (recursively)"""
    out = []
    for i, st in enumerate(body):
        if isinstance(st, ast.If) and not st.orelse and len(st.body) == 1 and isinstance(st.body[0], ast.Return) and st.body[0].value is None and i + 1 < len(body):
            rest = _early_returns(body[i + 1:])
            test = _SimplifyNot().visit(ast.UnaryOp(op=ast.Not(), operand=st.test))
            out.append(ast.fix_missing_locations(ast.copy_location(ast.If(test=test, body=rest, orelse=[]), st)))
            return out
        for fld in ("body", "orelse"):
            if isinstance(st, (ast.If, ast.For)) and getattr(st, fld, None):
                setattr(st, fld, _early_returns(getattr(st, fld)))
        out.append(st)
    return out


def _module_constants(tree):
    consts = {}
    for st in tree.body:
        if isinstance(st, ast.Assign) and len(st.targets) == 1 and isinstance(st.targets[0], ast.Name):
            v = st.value
            if isinstance(v, ast.Constant) and isinstance(v.value, (str, bool, int)) or (
                    isinstance(v, (ast.Dict, ast.Tuple)) and all(isinstance(x, ast.Constant) for x in (list(v.keys) + list(v.values) if isinstance(v, ast.Dict) else v.elts))):
                consts[st.targets[0].id] = v
    return consts


class _SubstConstants(ast.NodeTransformer):
    def __init__(self, consts):
        self.consts = consts

    def visit_Subscript(self, node):
        self.generic_visit(node)
        if isinstance(node.value, ast.Name) and isinstance(node.ctx, ast.Load):
            t = self.consts.get(node.value.id)
            if isinstance(t, ast.Dict) and isinstance(node.slice, ast.Constant):
                for k, v in zip(t.keys, t.values):
                    if k.value == node.slice.value:
                        return ast.copy_location(ast.Constant(value=v.value), node)
            if isinstance(t, ast.Tuple) and isinstance(node.slice, ast.Constant) and isinstance(node.slice.value, int) and node.slice.value < len(t.elts):
                return ast.copy_location(ast.Constant(value=t.elts[node.slice.value].value), node)
        return node

    def visit_Name(self, node):
        if isinstance(node.ctx, ast.Load) and isinstance(self.consts.get(node.id), ast.Constant) and isinstance(self.consts[node.id].value, str):
            return ast.copy_location(ast.Constant(value=self.consts[node.id].value), node)
        return node


def _methods(cls):
    return {m.name: m for m in cls.body if isinstance(m, ast.FunctionDef)}


def _calls_base(fn, public):
    """does fn call the public base-class method `public` (ConfParser.x(self) / super().x() / self.x())?"""
    for n in ast.walk(fn):
        if isinstance(n, ast.Call) and isinstance(n.func, ast.Attribute) and n.func.attr == public:
            return True
    return False


def _is_keys_loop(st, confs_names):
    """`for k in <confs>.keys()` / `for k in <confs>` whose body compares k with constants"""
    if not isinstance(st, ast.For) or not isinstance(st.target, ast.Name):
        return False
    it = st.iter
    if isinstance(it, ast.Call) and isinstance(it.func, ast.Attribute) and it.func.attr == "keys" and not it.args:
        it = it.func.value
    ok = (isinstance(it, ast.Name) and it.id in confs_names) or _self_attr_name(it) == "_confs"
    if not ok:
        return False
    k = st.target.id
    return any(isinstance(b, ast.If) and isinstance(b.test, ast.Compare) and isinstance(b.test.left, ast.Name) and b.test.left.id == k for b in st.body)


def _row_tables(tree, classes):
    """module / class level `NAME = ( (c, c, …), … )`: rows of constants (str, None, bool, numbers) or plain names"""
    out = {}

    def rows(v):
        if not isinstance(v, (ast.Tuple, ast.List)) or not v.elts:
            return None
        rs = []
        for r in v.elts:
            if isinstance(r, (ast.Tuple, ast.List)):
                if not all(isinstance(x, (ast.Constant, ast.Name)) for x in r.elts):
                    return None
                rs.append(list(r.elts))
            elif isinstance(r, ast.Constant):
                rs.append([r])
            else:
                return None
        return rs if len({len(r) for r in rs}) == 1 else None

    for scope in [tree] + list(classes):
        for st in scope.body:
            if isinstance(st, ast.Assign) and len(st.targets) == 1 and isinstance(st.targets[0], ast.Name):
                r = rows(st.value)
                if r is not None:
                    out[st.targets[0].id] = r
    return out


def _continue_to_if(body):
    """inside a loop body: `if c: continue` + rest -> `if not c: rest`"""
    out = []
    for i, st in enumerate(body):
        if isinstance(st, ast.If) and not st.orelse and len(st.body) == 1 and isinstance(st.body[0], ast.Continue):
            rest = _continue_to_if(body[i + 1:])
            if rest:
                test = _SimplifyNot().visit(ast.UnaryOp(op=ast.Not(), operand=st.test))
                out.append(ast.fix_missing_locations(ast.copy_location(ast.If(test=test, body=rest, orelse=[]), st)))
            return out
        out.append(st)
    return out


def _unroll(body, tables):
    """`for a, b, … in TABLE: body` over a constant table of literal rows -> the body once per row, targets substituted"""
    import copy

    out = []
    for st in body:
        for fld in ("body", "orelse"):
            if isinstance(st, (ast.If, ast.For)) and getattr(st, fld, None):
                setattr(st, fld, _unroll(getattr(st, fld), tables))
        tname = None
        if isinstance(st, ast.For) and not st.orelse:
            tname = st.iter.id if isinstance(st.iter, ast.Name) else _self_attr_name(st.iter)
        if tname in tables and not any(isinstance(n, ast.Break) for n in ast.walk(st)):
            tg = st.target
            names = [tg.id] if isinstance(tg, ast.Name) else ([e.id for e in tg.elts] if isinstance(tg, ast.Tuple) and all(isinstance(e, ast.Name) for e in tg.elts) else None)
            rows = tables[tname]
            if names is not None and len(names) == len(rows[0]) and not any(
                    isinstance(n, ast.Name) and isinstance(n.ctx, ast.Store) and n.id in names for b in st.body for n in ast.walk(b)):
                lb = _continue_to_if(st.body)
                if not any(isinstance(n, ast.Continue) for b in lb for n in ast.walk(b)):
                    for row in rows:
                        mp = dict(zip(names, row))
                        out += [_RenameNames(mp).visit(copy.deepcopy(b)) for b in lb]
                    continue
        out.append(st)
    return out


_BUILTIN_NAMES = ("int", "float", "str", "bool", "list", "tuple")


def _static(t):
    """truth value of a test that is decided at translation time, else None"""
    if isinstance(t, ast.Constant):
        return bool(t.value)
    if isinstance(t, ast.Name) and t.id in _BUILTIN_NAMES:
        return True
    if isinstance(t, ast.UnaryOp) and isinstance(t.op, ast.Not):
        v = _static(t.operand)
        return None if v is None else not v
    if isinstance(t, ast.Compare) and len(t.ops) == 1:
        a, b, op = t.left, t.comparators[0], t.ops[0]

        def lit(x):
            if isinstance(x, ast.Constant):
                return True, x.value
            if isinstance(x, ast.Name) and x.id in _BUILTIN_NAMES:
                return True, ("<builtin>", x.id)
            return False, None
        ka, va = lit(a)
        if isinstance(op, (ast.In, ast.NotIn)) and ka and isinstance(b, (ast.Tuple, ast.List)) and all(isinstance(e, ast.Constant) for e in b.elts):
            r = va in [e.value for e in b.elts]
            return r if isinstance(op, ast.In) else not r
        kb, vb = lit(b)
        if ka and kb:
            if isinstance(op, (ast.Eq, ast.Is)):
                return va == vb and type(va) is type(vb)
            if isinstance(op, (ast.NotEq, ast.IsNot)):
                return not (va == vb and type(va) is type(vb))
    if isinstance(t, ast.BoolOp):
        vals = [_static(v) for v in t.values]
        if isinstance(t.op, ast.And):
            if any(v is False for v in vals):
                return False
            if all(v is True for v in vals):
                return True
        else:
            if any(v is True for v in vals):
                return True
            if all(v is False for v in vals):
                return False
    return None


class _FoldExpr(ast.NodeTransformer):
    def visit_Call(self, node):
        self.generic_visit(node)
        # getattr(x, "name") -> x.name
        if isinstance(node.func, ast.Name) and node.func.id == "getattr" and len(node.args) == 2 and isinstance(node.args[1], ast.Constant) and isinstance(node.args[1].value, str) and node.args[1].value.isidentifier():
            return ast.copy_location(ast.Attribute(value=node.args[0], attr=node.args[1].value, ctx=ast.Load()), node)
        return node

    def visit_BoolOp(self, node):
        self.generic_visit(node)
        keep = []
        for v in node.values:
            sv = _static(v)
            if isinstance(node.op, ast.And) and sv is True:
                continue
            if isinstance(node.op, ast.Or) and sv is False:
                continue
            keep.append(v)
        if not keep:
            return ast.copy_location(ast.Constant(value=isinstance(node.op, ast.And)), node)
        if len(keep) == 1:
            return keep[0]
        node.values = keep
        return node


def _fold(body):
    """drop branches decided at translation time; inline `f = self._settings.set_x` aliases used as callables"""
    import copy

    out = []
    alias = {}
    for st in body:
        st = _FoldExpr().visit(st)
        if alias:
            st = _RenameNames(alias).visit(st)
        if isinstance(st, ast.Assign) and len(st.targets) == 1 and isinstance(st.targets[0], ast.Name) and isinstance(st.value, ast.Attribute) \
                and _self_attr_name(st.value.value) == "_settings" and st.value.attr.startswith("set_"):
            alias[st.targets[0].id] = st.value
            continue
        if isinstance(st, ast.If):
            st.test = _SimplifyNot().visit(st.test)
            sv = _static(st.test)
            if sv is True:
                out += _fold(st.body)
                continue
            if sv is False:
                out += _fold(st.orelse)
                continue
            st.body = _fold(st.body)
            st.orelse = _fold(st.orelse)
            if not st.body and not st.orelse:
                continue
            if not st.body:
                st.test = _SimplifyNot().visit(ast.UnaryOp(op=ast.Not(), operand=st.test))
                st.body, st.orelse = st.orelse, []
        elif isinstance(st, ast.For):
            st.body = _fold(st.body)
        out.append(st)
    return out


def _class_constants(c):
    out = {}
    for st in c.body:
        if isinstance(st, ast.Assign) and len(st.targets) == 1 and isinstance(st.targets[0], ast.Name) and isinstance(st.value, ast.Dict) and st.value.keys and all(
                isinstance(x, ast.Constant) and isinstance(x.value, str) for x in list(st.value.keys) + list(st.value.values)):
            out[st.targets[0].id] = st.value
    return out


def _expand_table_branches(loop, tables):
    """inside the loop over the conf keys: `if k in T: body(T[k])` with T a constant dict (class or module level)
    -> one branch `if k == "<key>": body("<value>")` per entry (the keys are distinct, so this is the same program)"""
    import copy

    k = loop.target.id

    def table_of(n):
        nm = _self_attr_name(n) or (n.id if isinstance(n, ast.Name) else None)
        return nm if nm in tables else None

    out = []
    for st in loop.body:
        if (isinstance(st, ast.If) and not st.orelse and isinstance(st.test, ast.Compare) and len(st.test.ops) == 1 and isinstance(st.test.ops[0], ast.In)
                and isinstance(st.test.left, ast.Name) and st.test.left.id == k and table_of(st.test.comparators[0])):
            tname = table_of(st.test.comparators[0])
            t = tables[tname]
            for key, val in zip(t.keys, t.values):
                class _S(ast.NodeTransformer):
                    def visit_Subscript(self, node):
                        self.generic_visit(node)
                        if table_of(node.value) == tname and isinstance(node.slice, ast.Name) and node.slice.id == k:
                            return ast.copy_location(ast.Constant(value=val.value), node)
                        return node
                body = [_S().visit(copy.deepcopy(b)) for b in st.body]
                if any(table_of(n) == tname for b in body for n in ast.walk(b)):
                    raise TranslateError("table %s is used other than as %s[%s] in its branch" % (tname, tname, k))
                new = ast.If(test=ast.Compare(left=ast.Name(id=k, ctx=ast.Load()), ops=[ast.Eq()], comparators=[ast.Constant(value=key.value)]), body=body, orelse=[])
                out.append(ast.fix_missing_locations(ast.copy_location(new, st)))
        else:
            out.append(st)
    loop.body = out


def _subst_leading_locals(body):
    """`x = <expr>` at the head of a branch body, x not assigned again: substitute it into the rest"""
    import copy

    while body and isinstance(body[0], ast.Assign) and len(body[0].targets) == 1 and isinstance(body[0].targets[0], ast.Name) and len(body) > 1:
        nm, val = body[0].targets[0].id, body[0].value
        rest = body[1:]
        if any(isinstance(n, (ast.Assign, ast.AugAssign, ast.For)) and any(isinstance(t, ast.Name) and t.id == nm for t in ast.walk(n) if isinstance(t, ast.Name) and isinstance(t.ctx, ast.Store)) for b in rest for n in ast.walk(b)):
            break
        if not isinstance(val, (ast.Call, ast.Subscript, ast.Attribute, ast.Name, ast.Constant)) or sum(1 for b in rest for n in ast.walk(b) if isinstance(n, ast.Name) and n.id == nm) == 0:
            break
        # only for the `.lower()` of the conf value (a pure expression evaluated once): keep other locals as they are
        if not (isinstance(val, ast.Call) and isinstance(val.func, ast.Attribute) and val.func.attr in ("lower", "strip", "upper") and not val.args):
            break
        body = [_RenameNames({nm: val}).visit(copy.deepcopy(b)) for b in rest]
    return body


def normalise(tree):
    """-> (tree rewritten to the canonical spelling, discovered private names)"""
    import copy

    tree = copy.deepcopy(tree)
    consts = _module_constants(tree)
    consts_tables = {k: v for k, v in consts.items() if isinstance(v, ast.Dict) and v.keys and all(isinstance(x.value, str) for x in list(v.keys) + list(v.values))}
    cls = {n.name: n for n in tree.body if isinstance(n, ast.ClassDef)}
    for c in ("Settings", "ConfParser", "PhonopySettings", "PhonopyConfParser"):
        if c not in cls:
            raise TranslateError("class %s not found" % c)
    found = {}
    # ---- private attributes through public names
    cm = _methods(cls["ConfParser"])
    init = cm.get("__init__")
    if init is None:
        raise TranslateError("ConfParser.__init__ not found")
    for st in ast.walk(init):
        if isinstance(st, ast.Assign) and len(st.targets) == 1 and _self_attr_name(st.targets[0]) and isinstance(st.value, ast.Name) and st.value.id == "args":
            found["_args"] = _self_attr_name(st.targets[0])
    for prop, canon in (("confs", "_confs"), ("settings", "_settings")):
        f = cm.get(prop)
        if f is not None:
            for st in ast.walk(f):
                if isinstance(st, ast.Return) and _self_attr_name(st.value):
                    found[canon] = _self_attr_name(st.value)
    f = cm.get("set_parameter")
    if f is not None:
        for st in ast.walk(f):
            if isinstance(st, ast.Assign) and isinstance(st.targets[0], ast.Subscript) and _self_attr_name(st.targets[0].value):
                found["_parameters"] = _self_attr_name(st.targets[0].value)
    f = _methods(cls["Settings"]).get("__getattr__")
    if f is not None:
        for st in ast.walk(f):
            if isinstance(st, ast.Return) and isinstance(st.value, ast.Subscript) and _self_attr_name(st.value.value):
                found["_v"] = _self_attr_name(st.value.value)
    missing = [a for a in CANON_ATTR if a not in found]
    if missing:
        raise TranslateError("cannot find the attributes behind %s through the public properties / set_parameter / __getattr__" % missing)
    _MODULE_FUNCS.clear()
    _MODULE_FUNCS.update({n.name: n for n in tree.body if isinstance(n, ast.FunctionDef)})
    ren = {v: k for k, v in found.items() if v != k}
    if len(set(found.values())) != len(found):
        raise TranslateError("two roles share one private attribute: %s" % found)
    if ren:
        _RenameSelfAttr(ren).visit(tree)
    _SubstConstants(consts).visit(tree)
    _SimplifyNot().visit(tree)
    row_tables = _row_tables(tree, cls.values())
    for c in cls.values():
        for m in c.body:
            if isinstance(m, ast.FunctionDef):
                m.body = _early_returns(m.body)
                if len(m.body) > 1 and isinstance(m.body[-1], ast.Return) and m.body[-1].value is None:
                    m.body.pop()

    # ---- inline private helper methods called as statements with plain-name arguments
    def inline(c, fn, depth=0):
        methods = {}
        for base in ([cls["ConfParser"]] if c is cls["PhonopyConfParser"] else []) + [c]:
            methods.update(_methods(base))

        def expand(body):
            out = []
            for st in body:
                for fld in ("body", "orelse"):
                    if isinstance(st, (ast.If, ast.For)) and getattr(st, fld, None):
                        setattr(st, fld, expand(getattr(st, fld)))
                if (isinstance(st, ast.Expr) and isinstance(st.value, ast.Call) and _self_attr_name(st.value.func) and _self_attr_name(st.value.func).startswith("_")
                        and _self_attr_name(st.value.func) in methods and not st.value.keywords and depth < 4
                        and all(isinstance(a, ast.Name) or (isinstance(a, ast.Constant) and isinstance(a.value, (str, bool, int))) for a in st.value.args)):
                    h = methods[_self_attr_name(st.value.func)]
                    params = [a.arg for a in h.args.args[1:]]
                    if len(params) == len(st.value.args) and not any(isinstance(n, ast.Return) and n.value is not None for n in ast.walk(h)):
                        hb = copy.deepcopy([b for b in h.body if not _is_docstring(b)])
                        mp = {p: (a.id if isinstance(a, ast.Name) else a) for p, a in zip(params, st.value.args) if not (isinstance(a, ast.Name) and p == a.id)}
                        assigned = {t.id for n in ast.walk(h) if isinstance(n, ast.Assign) for t in n.targets if isinstance(t, ast.Name)}
                        if any(not isinstance(v, str) and p in assigned for p, v in mp.items()):
                            out.append(st)  # a parameter bound to a constant is reassigned in the helper: not inlined
                            continue
                        hb = [_RenameNames(mp).visit(b) for b in hb] if mp else hb
                        sub = ast.FunctionDef(name=h.name, args=h.args, body=hb, decorator_list=[], lineno=h.lineno, col_offset=0)
                        inline(c, sub, depth + 1)
                        out += sub.body
                        continue
                out.append(st)
            return out
        fn.body = expand(fn.body)

    # ---- roles of the subclass methods
    pm = _methods(cls["PhonopyConfParser"])
    roles = {}
    for name, fn in pm.items():
        if name == "__init__":
            continue
        txt = ast.unparse(fn)
        if "vars(self._args)" in txt and _calls_base(fn, "read_options"):
            roles.setdefault("_read_options", name)
        elif _calls_base(fn, "parse_conf") and any(_is_keys_loop(st, _alias_names(fn, "_confs")) for st in ast.walk(fn)):
            roles.setdefault("_parse_conf", name)
        elif _calls_base(fn, "set_settings") and "self._settings.set_" in txt:
            roles.setdefault("_set_settings", name)
    for r in ("_read_options", "_parse_conf", "_set_settings"):
        if r not in roles:
            raise TranslateError("no method of PhonopyConfParser plays the role of %s (calls the public base method and does its work)" % r)
    found.update({"method" + k: v for k, v in roles.items()})
    mren = {v: k for k, v in roles.items() if v != k}
    if mren:
        for n in ast.walk(tree):
            if isinstance(n, ast.FunctionDef) and n.name in mren and n in cls["PhonopyConfParser"].body:
                n.name = mren[n.name]
            if isinstance(n, ast.Attribute) and isinstance(n.value, ast.Name) and n.value.id == "self" and n.attr in mren:
                n.attr = mren[n.attr]
    # ---- per role: inline helpers, canonical base-class call, canonical locals
    for cname, names in (("ConfParser", ("read_options", "parse_conf", "set_settings")), ("PhonopyConfParser", ("_read_options", "_parse_conf", "_set_settings"))):
        ms = _methods(cls[cname])
        for nm in names:
            fn = ms.get(nm)
            if fn is None:
                raise TranslateError("%s.%s not found" % (cname, nm))
            for _ in range(3):  # loops over constant tables unrolled, helpers inlined with the row's constants, decided branches dropped
                fn.body = _unroll(fn.body, row_tables)
                inline(cls[cname], fn)
                _SubstConstants(consts).visit(fn)
                fn.body = _fold(fn.body)
            if nm.endswith("parse_conf"):
                tables = dict(consts_tables)
                tables.update(_class_constants(cls["ConfParser"]))
                tables.update(_class_constants(cls[cname]))
                for st in ast.walk(fn):
                    if _is_keys_loop(st, _alias_names(fn, "_confs")) or (isinstance(st, ast.For) and isinstance(st.target, ast.Name) and any(
                            isinstance(b, ast.If) and isinstance(b.test, ast.Compare) and isinstance(b.test.left, ast.Name) and b.test.left.id == st.target.id for b in st.body)):
                        _expand_table_branches(st, tables)
            inline(cls[cname], fn)
            if nm.endswith("parse_conf"):
                for st in ast.walk(fn):
                    if isinstance(st, ast.For):
                        for b in st.body:
                            if isinstance(b, ast.If):
                                b.body = _subst_leading_locals(b.body)
            for n in ast.walk(fn):  # super().x() / self.x() of the public base method -> the canonical call text
                if isinstance(n, ast.Expr) and isinstance(n.value, ast.Call) and isinstance(n.value.func, ast.Attribute) and n.value.func.attr in ("read_options", "parse_conf", "set_settings") and cname == "PhonopyConfParser":
                    pub = n.value.func.attr
                    n.value = ast.parse("self.set_settings()" if pub == "set_settings" else "ConfParser.%s(self)" % pub).body[0].value
            mp = {}
            for st in ast.walk(fn):
                if isinstance(st, ast.Assign) and len(st.targets) == 1 and isinstance(st.targets[0], ast.Name):
                    src = ast.unparse(st.value)
                    if src == "vars(self._args)":
                        mp[st.targets[0].id] = "arg_list"
                    elif src == "self._confs":
                        mp[st.targets[0].id] = "confs"
                    elif src == "self._parameters":
                        mp[st.targets[0].id] = "params"
            if nm.endswith("parse_conf"):
                for st in ast.walk(fn):
                    if _is_keys_loop(st, set(mp) | {"confs"}):
                        mp[st.target.id] = "conf_key"
                        it = st.iter
                        if not (isinstance(it, ast.Call)):
                            st.iter = ast.Call(func=ast.Attribute(value=it, attr="keys", ctx=ast.Load()), args=[], keywords=[])
            mp = {k: v for k, v in mp.items() if k != v}
            if mp:
                _RenameNames(mp).visit(fn)
            if nm.endswith("parse_conf"):
                # direct uses of self._confs inside the parse method -> the alias `confs`
                has_alias = any(ast.unparse(st) == "confs = self._confs" for st in fn.body)

                class _A(ast.NodeTransformer):
                    def visit_Attribute(self, node):
                        if _self_attr_name(node) == "_confs" and isinstance(node.ctx, ast.Load):
                            return ast.copy_location(ast.Name(id="confs", ctx=ast.Load()), node)
                        return self.generic_visit(node)
                for i, st in enumerate(fn.body):
                    if ast.unparse(st) != "confs = self._confs":
                        fn.body[i] = _A().visit(st)
                if not has_alias:
                    fn.body.insert(1 if fn.body and _is_docstring(fn.body[0]) else 0, ast.parse("confs = self._confs").body[0])
            if nm.endswith("set_settings"):
                has_alias = any(ast.unparse(st) == "params = self._parameters" for st in fn.body)

                class _B(ast.NodeTransformer):
                    def visit_Attribute(self, node):
                        if _self_attr_name(node) == "_parameters" and isinstance(node.ctx, ast.Load):
                            return ast.copy_location(ast.Name(id="params", ctx=ast.Load()), node)
                        return self.generic_visit(node)
                for i, st in enumerate(fn.body):
                    if ast.unparse(st) != "params = self._parameters":
                        fn.body[i] = _B().visit(st)
                if not has_alias:
                    fn.body.insert(1 if fn.body and _is_docstring(fn.body[0]) else 0, ast.parse("params = self._parameters").body[0])
            if nm.endswith("read_options"):
                if not any(ast.unparse(st) == "arg_list = vars(self._args)" for st in fn.body):
                    class _C(ast.NodeTransformer):
                        def visit_Call(self, node):
                            if ast.unparse(node) == "vars(self._args)":
                                return ast.copy_location(ast.Name(id="arg_list", ctx=ast.Load()), node)
                            return self.generic_visit(node)
                    fn.body = [_C().visit(st) for st in fn.body]
                    fn.body.insert(1 if fn.body and _is_docstring(fn.body[0]) else 0, ast.parse("arg_list = vars(self._args)").body[0])
    ast.fix_missing_locations(tree)
    return tree, found


def _alias_names(fn, attr):
    out = {"confs"}
    for st in ast.walk(fn):
        if isinstance(st, ast.Assign) and len(st.targets) == 1 and isinstance(st.targets[0], ast.Name) and _self_attr_name(st.value) == attr:
            out.add(st.targets[0].id)
    return out


# --------------------------------------------------------------------------
# assemble
# --------------------------------------------------------------------------

def build_table(repo="/repo"):
    src = open(os.path.join(repo, "phonopy", "cui", "settings.py")).read()
    tree, private_names = normalise(ast.parse(src))
    classes = {}
    cls_nodes = {}
    for n in tree.body:
        if isinstance(n, ast.ClassDef):
            cls_nodes[n.name] = n
            classes[n.name] = {m.name: m for m in n.body if isinstance(m, ast.FunctionDef)}
    for c in ("Settings", "ConfParser", "PhonopySettings", "PhonopyConfParser"):
        if c not in classes:
            raise TranslateError("class %s not found" % c)
    strs, fns = [], []
    defaults = _class_defaults(cls_nodes["Settings"], strs)
    for k, v in _class_defaults(cls_nodes["PhonopySettings"], strs):
        defaults = [(a, b) for a, b in defaults if a != k] + [(k, v)] if any(a == k for a, _ in defaults) else defaults + [(k, v)]
    setters = _class_setters(cls_nodes["Settings"])
    setters.update(_class_setters(cls_nodes["PhonopySettings"]))
    attrs = [a for a, _ in defaults]
    for s, a in setters.items():
        if a not in attrs:
            raise TranslateError("setter %s writes unknown attribute %s" % (s, a))

    opt_rules = _read_options(classes["PhonopyConfParser"]["_read_options"], classes, strs)
    parse_rules = _parse_conf(classes["ConfParser"]["parse_conf"], classes, 0, strs) + _parse_conf(classes["PhonopyConfParser"]["_parse_conf"], classes, 1, strs)

    # canonical form: distinct `conf_key == …` tests are mutually exclusive, so a branch over several keys is the same
    # as one branch per key, and the order of the branches of one loop does not matter
    split = []
    for r in parse_rules:
        for k in r["keys"]:
            split.append(dict(r, keys=[k]))
    seen_keys = set()
    for r in split:
        if (r["phase"], r["keys"][0]) in seen_keys:
            raise TranslateError("conf key %s is handled by two branches of one loop" % r["keys"][0])
        seen_keys.add((r["phase"], r["keys"][0]))
    parse_rules = sorted(split, key=lambda r: (r["phase"], r["keys"][0]))

    pb = _Prog(setters, strs, fns)
    base = pb.stmts(classes["ConfParser"]["set_settings"].body)
    ps = _Prog(setters, strs, fns)
    sub = ps.stmts(classes["PhonopyConfParser"]["_set_settings"].body)
    if ("splice",) not in sub:
        raise TranslateError("_set_settings does not call set_settings")
    prog = _flatten_prog(sub, base)
    _check_no_stale(prog)

    argrows, calcs = _argparse(repo)
    doc_tags, doc_pairs, doc_flags, heading_flags, doc_pair_values = _docs(repo)

    # name spaces
    tags = []
    for r in parse_rules:
        for k in r["keys"]:
            if k not in tags:
                tags.append(k)
    for r in opt_rules:
        if r["tag"] not in tags:
            tags.append(r["tag"])
    code_tags = list(tags)
    for t in doc_tags + [t for _, t in doc_pairs]:
        if t not in tags:
            tags.append(t)
    keys = []
    for r in parse_rules:
        for k in r["targets"]:
            if k not in keys:
                keys.append(k)

    def walk_prog(stmts, f):
        for s in stmts:
            f(s)
            if s[0] == "ite":
                walk_prog(s[2], f)
                walk_prog(s[3], f)

    def note_keys(s):
        def ex(x):
            if x[0] == "param" and x[1] not in keys:
                keys.append(x[1])
            if x[0] == "attr" and x[1] not in attrs:
                raise TranslateError("set_settings reads unknown attribute %s" % x[1])
            if x[0] == "app":
                ex(x[2])

        def cd(c):
            if c[0] == "hasParam":
                if c[1] not in keys:
                    keys.append(c[1])
            elif c[0] in ("and", "or"):
                cd(c[1]); cd(c[2])
            elif c[0] == "not":
                cd(c[1])
            else:
                ex(c[1])
        if s[0] == "ite":
            cd(s[1])
        elif s[0] == "set":
            ex(s[2])
        elif s[0] == "setParam":
            if s[1] not in keys:
                keys.append(s[1])
            ex(s[2])
    walk_prog(prog, note_keys)

    dests = []
    for r in opt_rules:
        if r["dest"] not in dests:
            dests.append(r["dest"])
    for r in argrows:
        if r["dest"] not in dests:
            dests.append(r["dest"])
    numeric = {r["dest"] for r in argrows if r["type"] in ("int", "float")}
    for r in opt_rules:
        r["numeric"] = r["dest"] in numeric
        if r["act"] == "dflt" and r["dflt_attr"] not in attrs:
            raise TranslateError("default-dependent rule reads unknown attribute %s" % r["dflt_attr"])
    flags = []
    for r in argrows:
        for f in r["flags"]:
            if norm_flag(f) not in flags:
                flags.append(norm_flag(f))
    for f in doc_flags + heading_flags:
        if f not in flags:
            flags.append(f)

    return {"tags": tags, "code_tags": code_tags, "keys": keys, "attrs": attrs, "dests": dests, "strs": strs, "fns": fns, "flags": flags,
            "defaults": defaults, "setters": setters, "parse_rules": parse_rules, "opt_rules": opt_rules, "prog": prog,
            "argparse": argrows, "calculators": calcs, "doc_tags": doc_tags, "doc_pairs": doc_pairs, "doc_flags": doc_flags,
            "heading_flags": heading_flags, "doc_pair_values": doc_pair_values, "private_names": private_names}


# --------------------------------------------------------------------------
# Lean rendering
# --------------------------------------------------------------------------

_RESERVED = {"at", "end", "open", "in", "from", "do", "then", "else", "if", "fun", "let", "have", "show", "by", "with", "where", "instance",
             "def", "theorem", "local", "mutual", "private", "protected", "section", "namespace", "variable", "universe", "import", "export",
             "prefix", "infix", "notation", "macro", "syntax", "deriving", "class", "structure", "inductive", "match", "return", "for",
             "unless", "try", "catch", "finally", "abbrev", "example", "axiom", "using", "calc", "nomatch", "exists", "forall", "type", "sort", "prop"}


def ident(s):
    s2 = re.sub(r"[^A-Za-z0-9_]", "_", s.lstrip("-").lstrip("@").lstrip("."))
    if not s2 or s2[0].isdigit():
        s2 = "n" + s2
    if s2.lower() in _RESERVED:
        s2 += "_"
    return s2


def _names_block(ns, names):
    seen = {}
    out = ["namespace %s" % ns]
    for i, n in enumerate(names):
        idn = ident(n)
        if idn in seen:
            raise TranslateError("identifier clash in %s: %s / %s" % (ns, n, seen[idn]))
        seen[idn] = n
        out.append("def %s : Nat := %d" % (idn, i))
    out.append("end %s" % ns)
    return "\n".join(out)


def render(tb):
    T = {"tag": ("Tag", tb["tags"]), "key": ("Key", tb["keys"]), "attr": ("Attr", tb["attrs"]), "dest": ("Dest", tb["dests"]),
         "str": ("Str", tb["strs"]), "fn": ("Fn", tb["fns"]), "flag": ("Flag", tb["flags"])}

    def nm(kind, name):
        ns, names = T[kind]
        if name not in names:
            raise TranslateError("unknown %s name %r" % (kind, name))
        return "%s.%s" % (ns, ident(name))

    def val(v):
        if v[0] == "none":
            return ".none"
        if v[0] == "bool":
            return "(.bool %s)" % ("true" if v[1] else "false")
        if v[0] == "num":
            return "(.num %s)" % (str(v[1]) if v[1] >= 0 else "(%d)" % v[1])
        if v[0] == "str":
            return "(.str %s)" % nm("str", v[1])
        if v[0] == "nil":
            return ".nil"
        raise TranslateError("bad value %r" % (v,))

    def kvs(l):
        return "[" + ", ".join("(%s, %s)" % (nm("key", k), val(v)) for k, v in l) + "]"

    def ex(x):
        if x[0] == "param":
            return "(.param %s)" % nm("key", x[1])
        if x[0] == "attr":
            return "(.attr %s)" % nm("attr", x[1])
        if x[0] == "const":
            return "(.const %s)" % val(x[1])
        if x[0] == "app":
            return "(.app %s %s)" % (nm("fn", x[1]), ex(x[2]))
        raise TranslateError("bad expr %r" % (x,))

    def cd(c):
        if c[0] == "hasParam":
            return "(.hasParam %s)" % nm("key", c[1])
        if c[0] in ("and", "or"):
            return "(.%s %s %s)" % (c[0], cd(c[1]), cd(c[2]))
        if c[0] == "not":
            return "(.not %s)" % cd(c[1])
        if c[0] == "truthy":
            return "(.truthy %s)" % ex(c[1])
        if c[0] == "isNone":
            return "(.isNone %s)" % ex(c[1])
        if c[0] == "eqStr":
            return "(.eqStr %s %s)" % (ex(c[1]), nm("str", c[2]))
        if c[0] in ("lenEq", "lenGt"):
            return "(.%s %s %d)" % (c[0], ex(c[1]), c[2])
        raise TranslateError("bad cond %r" % (c,))

    def stmt(s):
        if s[0] == "set":
            return "(.set %s %s)" % (nm("attr", s[1]), ex(s[2]))
        if s[0] == "setParam":
            return "(.setParam %s %s)" % (nm("key", s[1]), ex(s[2]))
        if s[0] == "ite":
            return "(.ite %s %s %s)" % (cd(s[1]), block(s[2]), block(s[3]))
        raise TranslateError("bad stmt %r" % (s,))

    def block(ss):
        if not ss:
            return ".skip"
        out = stmt(ss[-1])
        for s in reversed(ss[:-1]):
            out = "(.seq %s %s)" % (stmt(s), out)
        return out

    o = ["-- GENERATED by tools/settings2lean.py from phonopy/cui/settings.py, phonopy/cui/phonopy_argparse.py,",
         "-- phonopy/interface/calculator.py, doc/setting-tags.md, doc/command-options.md -- do not edit",
         "import PhononModel.Model.Settings",
         "set_option maxRecDepth 4096",
         "namespace PhononModel.Settings.Gen", ""]
    for k in ("tag", "key", "attr", "dest", "str", "fn", "flag"):
        o.append(_names_block(*T[k]))
        o.append("")
    for k in ("tag", "key", "attr", "dest", "str", "fn", "flag"):
        ns, names = T[k]
        o.append("def %sNames : List String := [%s]" % (ns.lower(), ", ".join(json.dumps(n) for n in names)))
    o.append("")
    o.append("/-- `Settings._default` updated by `PhonopySettings._default` -/")
    o.append("def defaults : List (Nat × Val) := [\n  " + ",\n  ".join("(%s, %s)" % (nm("attr", a), val(v)) for a, v in tb["defaults"]) + "]")
    o.append("")
    o.append("/-- branches of `parse_conf` (phase 0) and `_parse_conf` (phase 1), in source order -/")
    rows = []
    for r in tb["parse_rules"]:
        rows.append("{ phase := %d, keys := [%s], onTrue := %s, onFalse := %s, valued := %s, targets := [%s] }" % (
            r["phase"], ", ".join(nm("tag", k) for k in r["keys"]), kvs(r["on_true"]), kvs(r["on_false"]),
            "true" if r["valued"] else "false", ", ".join(nm("key", k) for k in r["targets"])))
    o.append("def parseRules : List ParseRule := [\n  " + ",\n  ".join(rows) + "]")
    o.append("")
    o.append("/-- blocks of `read_options` then `_read_options`, in source order -/")
    rows = []
    for r in tb["opt_rules"]:
        act = {"truthy": ".truthy", "notNone": ".notNone", "isFalse": ".isFalse", "always": ".always", "ifTagAbsent": ".ifTagAbsent"}.get(r["act"])
        if r["act"] == "dflt":
            act = "(.dflt %s)" % nm("attr", r["dflt_attr"])
        v = r["val"]
        if v[0] in ("arg", "dflt", "always"):
            vv = ".arg"
        elif v[0] == "t":
            vv = "(.const .t)"
        elif v[0] == "f":
            vv = "(.const .f)"
        else:
            vv = "(.constStr %s)" % nm("str", v[1])
        rows.append("{ dest := %s, act := %s, tag := %s, val := %s, rangeCheck := %s, numeric := %s }" % (
            nm("dest", r["dest"]), act, nm("tag", r["tag"]), vv, "true" if r["range_check"] else "false", "true" if r["numeric"] else "false"))
    o.append("def optRules : List OptRule := [\n  " + ",\n  ".join(rows) + "]")
    o.append("")
    o.append("/-- `set_settings` followed by the rest of `_set_settings`, one entry per top-level statement -/")
    o.append("def prog : List Stmt := [\n  " + ",\n  ".join(stmt(s) for s in tb["prog"]) + "]")
    o.append("")
    o.append("def table : Table := { parseRules := parseRules, optRules := optRules, prog := prog, defaults := defaults }")
    o.append("")
    o.append("/-- argparse options: flag, dest, parser variants (1 = phonopy, 2 = phonopy-load, 3 = both), typed int/float -/")
    rows = []
    for r in tb["argparse"]:
        for f in r["flags"]:
            rows.append("{ flag := %s, dest := %s, variants := %d, numeric := %s }" % (
                nm("flag", norm_flag(f)), nm("dest", r["dest"]), r["variants"], "true" if r["type"] in ("int", "float") else "false"))
    o.append("def flags : List FlagRow := [\n  " + ",\n  ".join(rows) + "]")
    o.append("")
    o.append("/-- conf keys handled by a branch of `parse_conf` / `_parse_conf` or written by `read_options` -/")
    o.append("def codeTags : List Nat := [%s]" % ", ".join(nm("tag", t) for t in tb["code_tags"]))
    o.append("/-- tags named in the headings of doc/setting-tags.md -/")
    o.append("def docTags : List Nat := [%s]" % ", ".join(nm("tag", t) for t in tb["doc_tags"]))
    o.append("/-- option ↔ tag equivalences listed in doc/command-options.md -/")
    o.append("def docPairs : List (Nat × Nat) := [\n  " + ",\n  ".join("(%s, %s)" % (nm("flag", f), nm("tag", t)) for f, t in tb["doc_pairs"]) + "]")
    o.append("/-- options documented by a heading of doc/command-options.md -/")
    o.append("def docHeadingFlags : List Nat := [%s]" % ", ".join(nm("flag", f) for f in tb["heading_flags"]))
    o.append("")
    o.append("end PhononModel.Settings.Gen")
    return "\n".join(o) + "\n"


def main(repo="/repo", dest=None):
    tb = build_table(repo)
    text = render(tb)
    dest = dest or os.path.join(HERE, "lean", "PhononModel", "Gen", "SettingsTable.lean")
    old = open(dest).read() if os.path.exists(dest) else None
    if old != text:
        tmp = dest + ".tmp%d" % os.getpid()
        with open(tmp, "w") as f:
            f.write(text)
        os.replace(tmp, dest)
    return tb


if __name__ == "__main__":
    repo = sys.argv[1] if len(sys.argv) > 1 else os.environ.get("VERIF_REPO", "/repo")
    tb = main(repo, sys.argv[2] if len(sys.argv) > 2 else None)
    print("tags %d, keys %d, attrs %d, dests %d, opt rules %d, parse rules %d, statements %d, flags %d, doc tags %d, doc pairs %d" % (
        len(tb["tags"]), len(tb["keys"]), len(tb["attrs"]), len(tb["dests"]), len(tb["opt_rules"]), len(tb["parse_rules"]),
        len(tb["prog"]), len(tb["flags"]), len(tb["doc_tags"]), len(tb["doc_pairs"])))
